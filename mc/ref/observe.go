package ref

import (
	"errors"
	"fmt"
	"io"
	"strings"

	"github.com/ipld/go-ipld-prime/datamodel"
	"github.com/ipld/go-ipld-prime/schema"
	cidlink "github.com/ipld/go-ipld-prime/linking/cid"
)

// Inc is an internal inconsistency noticed while reading a node.
type Inc struct {
	Cause  string // abstract, e.g. "length≠iter", "lookup≠iter(LookupByString)", "wrongkind-panic(AsInt)"
	Detail string
}

type Observer struct {
	Incs []Inc
	Full bool
	// Typed relaxes what the data-model contract leaves to typed nodes: a lookup of something that is
	// not there may answer (Absent, nil); kind-inappropriate lookups may fail with any error type;
	// kind-inappropriate accessors are probed on the root node only (nested types are roots elsewhere).
	Typed bool
}

func (o *Observer) inc(cause, format string, a ...any) {
	if len(o.Incs) < 32 {
		o.Incs = append(o.Incs, Inc{cause, fmt.Sprintf(format, a...)})
	}
}

// Observe reads everything observable from n. Inconsistencies between access forms are listed.
func Observe(n datamodel.Node) (Val, []Inc) {
	o := &Observer{Full: true}
	v := o.Read(n, "")
	return v, o.Incs
}

// ObserveTyped is Observe with the relaxations typed nodes are entitled to.
func ObserveTyped(n datamodel.Node) (Val, []Inc) {
	o := &Observer{Full: true, Typed: true}
	v := o.Read(n, "")
	return v, o.Incs
}

// Read1 reads the value only (iteration + accessor for the node's kind), no cross-checks.
func Read1(n datamodel.Node) (v Val, panicMsg string) {
	o := &Observer{Full: false}
	defer func() {
		if x := recover(); x != nil {
			panicMsg = fmt.Sprint(x)
		}
	}()
	v = o.Read(n, "")
	if len(o.Incs) > 0 {
		panicMsg = o.Incs[0].Cause + ": " + o.Incs[0].Detail
	}
	return
}

func guard(o *Observer, method, path string, fn func()) (ok bool) {
	defer func() {
		if x := recover(); x != nil {
			o.inc("panic("+method+")", "at %q: %v", path, x)
			ok = false
		}
	}()
	fn()
	return true
}

func isWrongKind(err error) bool {
	var wk datamodel.ErrWrongKind
	if errors.As(err, &wk) {
		return true
	}
	var wkp *datamodel.ErrWrongKind
	return errors.As(err, &wkp)
}

func (o *Observer) Read(n datamodel.Node, path string) Val {
	if n == nil {
		o.inc("nil-node", "at %q", path)
		return Val{}
	}
	var k datamodel.Kind
	if !guard(o, "Kind", path, func() { k = n.Kind() }) {
		return Val{}
	}
	var v Val
	switch k {
	case datamodel.Kind_Null:
		abs, nul := false, false
		guard(o, "IsAbsent", path, func() { abs = n.IsAbsent(); nul = n.IsNull() })
		if abs && !nul {
			v = Absent()
		} else if nul && !abs {
			v = Null()
		} else {
			o.inc("null-flags", "at %q: IsNull=%v IsAbsent=%v", path, nul, abs)
			v = Null()
		}
	case datamodel.Kind_Bool:
		guard(o, "AsBool", path, func() {
			b, err := n.AsBool()
			if err != nil {
				o.inc("accessor-error(AsBool)", "at %q: %v", path, err)
			}
			v = Bool(b)
		})
	case datamodel.Kind_Int:
		guard(o, "AsInt", path, func() {
			if un, ok := n.(datamodel.UintNode); ok {
				u, err := un.AsUint()
				if err == nil {
					v = Uint(u)
					i, ierr := n.AsInt()
					if v.K == KInt && (ierr != nil || i != v.I) {
						o.inc("asint≠asuint", "at %q: AsUint=%d AsInt=%d,%v", path, u, i, ierr)
					}
					if v.K == KUint && ierr == nil {
						o.inc("asint-overflow-noerr", "at %q: AsUint=%d AsInt=%d with nil error", path, u, i)
					}
					return
				}
				// negative values: AsUint errors, fall through to AsInt
			}
			i, err := n.AsInt()
			if err != nil {
				o.inc("accessor-error(AsInt)", "at %q: %v", path, err)
			}
			v = Int(i)
		})
	case datamodel.Kind_Float:
		guard(o, "AsFloat", path, func() {
			f, err := n.AsFloat()
			if err != nil {
				o.inc("accessor-error(AsFloat)", "at %q: %v", path, err)
			}
			v = Float(f)
		})
	case datamodel.Kind_String:
		guard(o, "AsString", path, func() {
			s, err := n.AsString()
			if err != nil {
				o.inc("accessor-error(AsString)", "at %q: %v", path, err)
			}
			v = Str(s)
		})
	case datamodel.Kind_Bytes:
		guard(o, "AsBytes", path, func() {
			b, err := n.AsBytes()
			if err != nil {
				o.inc("accessor-error(AsBytes)", "at %q: %v", path, err)
			}
			v = Bytes(string(b))
			if o.Full {
				b2, err2 := n.AsBytes()
				if err2 != nil || string(b2) != string(b) {
					o.inc("second-read-differs(AsBytes)", "at %q: first %x second %x err=%v", path, b, b2, err2)
				}
				if lb, ok := n.(datamodel.LargeBytesNode); ok {
					for round := 0; round < 2; round++ {
						rs, err := lb.AsLargeBytes()
						if err != nil {
							o.inc("accessor-error(AsLargeBytes)", "at %q: %v", path, err)
							break
						}
						if _, err := rs.Seek(0, io.SeekStart); err != nil {
							o.inc("accessor-error(AsLargeBytes.Seek)", "at %q: %v", path, err)
							break
						}
						all, err := io.ReadAll(rs)
						if err != nil || string(all) != string(b) {
							o.inc("largebytes≠asbytes", "at %q round %d: AsBytes %x, reader %x err=%v", path, round, b, all, err)
						}
					}
				}
			}
		})
	case datamodel.Kind_Link:
		guard(o, "AsLink", path, func() {
			l, err := n.AsLink()
			if err != nil || l == nil {
				o.inc("accessor-error(AsLink)", "at %q: %v", path, err)
				v = Link("")
				return
			}
			if cl, ok := l.(cidlink.Link); ok {
				v = Link(string(cl.Cid.Bytes()))
			} else if cl, ok := l.(*cidlink.Link); ok {
				v = Link(string(cl.Cid.Bytes()))
			} else {
				v = Link(l.Binary())
			}
		})
	case datamodel.Kind_List:
		v = o.readList(n, path)
	case datamodel.Kind_Map:
		v = o.readMap(n, path)
	default:
		o.inc("invalid-kind", "at %q: kind %v", path, k)
		return Val{}
	}
	if o.Full && (!o.Typed || path == "") {
		o.crossKind(n, k, path)
	}
	return v
}

func (o *Observer) readList(n datamodel.Node, path string) Val {
	v := List()
	var it datamodel.ListIterator
	if !guard(o, "ListIterator", path, func() { it = n.ListIterator() }) || it == nil {
		o.inc("nil-iterator(list)", "at %q", path)
		return v
	}
	var kids []datamodel.Node
	var early []Val
	guard(o, "ListIterator.Next", path, func() {
		for i := int64(0); !it.Done(); i++ {
			idx, c, err := it.Next()
			if err != nil {
				o.inc("iterator-error(list)", "at %q[%d]: %v", path, i, err)
				return
			}
			if idx != i {
				o.inc("iter-index", "at %q: iterator yielded index %d at position %d", path, idx, i)
			}
			kids = append(kids, c)
			if o.Full {
				// read right away too: a node handed out by Next reads the same after the iterator moved on
				early = append(early, (&Observer{Typed: o.Typed}).Read(c, ""))
			}
			if i > 1<<20 {
				o.inc("iterator-unbounded", "at %q", path)
				return
			}
		}
	})
	for i, c := range kids {
		v.L = append(v.L, o.Read(c, fmt.Sprintf("%s/%d", path, i)))
		if i < len(early) && !Equal(early[i], v.L[i]) {
			o.inc("second-read-differs(value from iterator after Next)", "at %q[%d]: read %s when Next returned it, %s after the iterator moved on", path, i, early[i], v.L[i])
		}
	}
	if !o.Full {
		return v
	}
	guard(o, "ListIterator.Next(overread)", path, func() {
		_, c, err := it.Next()
		if err == nil {
			o.inc("overread-noerr(list)", "at %q: Next past the end returned %v with nil error", path, c)
		} else if _, ok := err.(datamodel.ErrIteratorOverread); !ok {
			o.inc("overread-wrong-error(list)", "at %q: %T", path, err)
		}
		if !it.Done() {
			o.inc("done-false-after-end(list)", "at %q", path)
		}
	})
	var ln int64
	guard(o, "Length", path, func() { ln = n.Length() })
	if ln != int64(len(v.L)) {
		o.inc("length≠iter(list)", "at %q: Length=%d, iterator yielded %d", path, ln, len(v.L))
	}
	for i := range v.L {
		i64 := int64(i)
		o.lookupAgree(path, "LookupByIndex", v.L[i], func() (datamodel.Node, error) { return n.LookupByIndex(i64) }, true)
		o.lookupAgree(path, "LookupBySegment(int)", v.L[i], func() (datamodel.Node, error) {
			return n.LookupBySegment(datamodel.PathSegmentOfInt(i64))
		}, true)
		o.lookupAgree(path, "LookupBySegment(str)", v.L[i], func() (datamodel.Node, error) {
			return n.LookupBySegment(datamodel.PathSegmentOfString(fmt.Sprint(i)))
		}, true)
		// LookupByNode with an int node may be unsupported (error) but may never return another child
		o.lookupAgree(path, "LookupByNode(int)", v.L[i], func() (datamodel.Node, error) { return n.LookupByNode(Node(Int(i64))) }, false)
	}
	for _, bad := range []int64{-1, int64(len(v.L)), int64(len(v.L)) + 7} {
		o.lookupAbsent(path, fmt.Sprintf("LookupByIndex(%d of %d)", bad, len(v.L)), "LookupByIndex", func() (datamodel.Node, error) { return n.LookupByIndex(bad) })
		o.lookupAbsent(path, fmt.Sprintf("LookupBySegment(%d of %d)", bad, len(v.L)), "LookupBySegment", func() (datamodel.Node, error) {
			return n.LookupBySegment(datamodel.PathSegmentOfInt(bad))
		})
	}
	o.lookupAbsent(path, "LookupBySegment(x)", "LookupBySegment", func() (datamodel.Node, error) {
		return n.LookupBySegment(datamodel.PathSegmentOfString("x"))
	})
	return v
}

// KeyOf renders a map key node to the string used in Val entries.
func (o *Observer) keyOf(kn datamodel.Node, path string) string {
	if kn == nil {
		o.inc("nil-key", "at %q", path)
		return ""
	}
	if kn.Kind() == datamodel.Kind_String {
		s, err := kn.AsString()
		if err != nil {
			o.inc("accessor-error(key.AsString)", "at %q: %v", path, err)
		}
		return s
	}
	if tn, ok := kn.(schema.TypedNode); ok && o.Typed {
		// a typed key that is not a string at type level (a struct, an enum): the entry is keyed, in the
		// reference, by the string the key is represented by
		var s string
		var err error
		if guard(o, "key.Representation.AsString", path, func() { s, err = tn.Representation().AsString() }) && err == nil {
			return s
		}
		o.inc("complex-key-without-string-representation", "at %q: %v", path, err)
	}
	sub := &Observer{Typed: o.Typed}
	kv := sub.Read(kn, path+"/<key>")
	return "\x00complex:" + kv.Key()
}

func (o *Observer) readMap(n datamodel.Node, path string) Val {
	v := Map()
	var it datamodel.MapIterator
	if !guard(o, "MapIterator", path, func() { it = n.MapIterator() }) || it == nil {
		o.inc("nil-iterator(map)", "at %q", path)
		return v
	}
	type kv struct{ k, v datamodel.Node }
	var kids []kv
	var early []Val
	guard(o, "MapIterator.Next", path, func() {
		for i := 0; !it.Done(); i++ {
			k, c, err := it.Next()
			if err != nil {
				o.inc("iterator-error(map)", "at %q #%d: %v", path, i, err)
				return
			}
			kids = append(kids, kv{k, c})
			if o.Full {
				early = append(early, (&Observer{Typed: o.Typed}).Read(c, ""))
			}
			if i > 1<<20 {
				o.inc("iterator-unbounded", "at %q", path)
				return
			}
		}
	})
	seen := map[string]bool{}
	for _, e := range kids {
		ks := o.keyOf(e.k, path)
		if seen[ks] {
			o.inc("iter-duplicate-key", "at %q: key %q yielded twice", path, ks)
		}
		seen[ks] = true
		v.M = append(v.M, Entry{ks, o.Read(e.v, path+"/"+ks)})
		if i := len(v.M) - 1; i < len(early) && !Equal(early[i], v.M[i].V) {
			o.inc("second-read-differs(value from iterator after Next)", "at %q key %q: read %s when Next returned it, %s after the iterator moved on", path, ks, early[i], v.M[i].V)
		}
	}
	if !o.Full {
		return v
	}
	guard(o, "MapIterator.Next(overread)", path, func() {
		_, c, err := it.Next()
		if err == nil {
			o.inc("overread-noerr(map)", "at %q: Next past the end returned %v with nil error", path, c)
		} else if _, ok := err.(datamodel.ErrIteratorOverread); !ok {
			o.inc("overread-wrong-error(map)", "at %q: %T", path, err)
		}
		if !it.Done() {
			o.inc("done-false-after-end(map)", "at %q", path)
		}
	})
	var ln int64
	guard(o, "Length", path, func() { ln = n.Length() })
	if ln != int64(len(v.M)) {
		o.inc("length≠iter(map)", "at %q: Length=%d, iterator yielded %d", path, ln, len(v.M))
	}
	for i, e := range kids {
		want := v.M[i].V
		if e.k.Kind() == datamodel.Kind_String {
			ks := v.M[i].K
			if seen[ks] && countKey(v.M, ks) > 1 {
				continue // duplicate already reported; lookups are ambiguous
			}
			o.lookupAgree(path, "LookupByString", want, func() (datamodel.Node, error) { return n.LookupByString(ks) }, true)
			o.lookupAgree(path, "LookupBySegment", want, func() (datamodel.Node, error) {
				return n.LookupBySegment(datamodel.PathSegmentOfString(ks))
			}, true)
			o.lookupAgree(path, "LookupByNode(foreign)", want, func() (datamodel.Node, error) { return n.LookupByNode(Node(Str(ks))) }, true)
		}
		kn := e.k
		o.lookupAgree(path, "LookupByNode(own key)", want, func() (datamodel.Node, error) { return n.LookupByNode(kn) }, true)
	}
	for _, probe := range []string{"", "\x00nokey", "zz-not-there"} {
		if seen[probe] {
			continue
		}
		p := probe
		o.lookupAbsent(path, fmt.Sprintf("LookupByString(%q)", p), "LookupByString", func() (datamodel.Node, error) { return n.LookupByString(p) })
		o.lookupAbsent(path, fmt.Sprintf("LookupBySegment(%q)", p), "LookupBySegment", func() (datamodel.Node, error) {
			return n.LookupBySegment(datamodel.PathSegmentOfString(p))
		})
		o.lookupAbsent(path, fmt.Sprintf("LookupByNode(%q)", p), "LookupByNode", func() (datamodel.Node, error) { return n.LookupByNode(Node(Str(p))) })
	}
	return v
}

func countKey(m []Entry, k string) int {
	c := 0
	for _, e := range m {
		if e.K == k {
			c++
		}
	}
	return c
}

func (o *Observer) lookupAgree(path, form string, want Val, fn func() (datamodel.Node, error), mustWork bool) {
	guard(o, form, path, func() {
		c, err := fn()
		if err != nil {
			if mustWork {
				o.inc("lookup-error("+form+")", "at %q: want %s, error %v", path, want, err)
			}
			return
		}
		sub := &Observer{Typed: o.Typed}
		got := sub.Read(c, path)
		if !Equal(got, want) {
			o.inc("lookup≠iter("+form+")", "at %q: iteration gives %s, lookup gives %s", path, want, got)
		}
	})
}

func (o *Observer) lookupAbsent(path, what, form string, fn func() (datamodel.Node, error)) {
	guard(o, form, path, func() {
		c, err := fn()
		if err == nil && o.Typed && c != nil && c.IsAbsent() {
			return
		}
		if err == nil {
			o.inc("absent-lookup-ok("+form+")", "at %q: %s returned %v with nil error", path, what, c)
		} else if c != nil && !(o.Typed && c.IsAbsent()) {
			o.inc("absent-lookup-node+err("+form+")", "at %q: %s returned non-nil node with error %v", path, what, err)
		}
	})
}

// crossKind calls every accessor that does not fit the kind and requires a wrong-kind error.
func (o *Observer) crossKind(n datamodel.Node, k datamodel.Kind, path string) {
	chk := func(m string, applies bool, fn func() error) {
		if applies {
			return
		}
		guard(o, m, path, func() {
			err := fn()
			if err == nil {
				o.inc("wrongkind-noerr("+m+")", "at %q: %s on a %v node returned nil error", path, m, k)
			} else if !isWrongKind(err) && !(o.Typed && strings.HasPrefix(m, "Lookup")) {
				o.inc("wrongkind-othererr("+m+")", "at %q: %s on a %v node returned %T %v", path, m, k, err, err)
			}
		})
	}
	chk("AsBool", k == datamodel.Kind_Bool, func() error { _, e := n.AsBool(); return e })
	chk("AsInt", k == datamodel.Kind_Int, func() error { _, e := n.AsInt(); return e })
	chk("AsFloat", k == datamodel.Kind_Float, func() error { _, e := n.AsFloat(); return e })
	chk("AsString", k == datamodel.Kind_String, func() error { _, e := n.AsString(); return e })
	chk("AsBytes", k == datamodel.Kind_Bytes, func() error { _, e := n.AsBytes(); return e })
	chk("AsLink", k == datamodel.Kind_Link, func() error { _, e := n.AsLink(); return e })
	chk("LookupByString", k == datamodel.Kind_Map, func() error { _, e := n.LookupByString("a"); return e })
	chk("LookupByIndex", k == datamodel.Kind_List, func() error { _, e := n.LookupByIndex(0); return e })
	chk("LookupByNode", k == datamodel.Kind_Map || k == datamodel.Kind_List, func() error { _, e := n.LookupByNode(Node(Str("a"))); return e })
	chk("LookupBySegment", k == datamodel.Kind_Map || k == datamodel.Kind_List, func() error {
		_, e := n.LookupBySegment(datamodel.PathSegmentOfString("a"))
		return e
	})
	if k != datamodel.Kind_Map {
		guard(o, "MapIterator", path, func() {
			if it := n.MapIterator(); it != nil {
				o.inc("iterator-nonnil(MapIterator)", "at %q: %v node returned a map iterator", path, k)
			}
		})
	}
	if k != datamodel.Kind_List {
		guard(o, "ListIterator", path, func() {
			if it := n.ListIterator(); it != nil {
				o.inc("iterator-nonnil(ListIterator)", "at %q: %v node returned a list iterator", path, k)
			}
		})
	}
	if k != datamodel.Kind_Map && k != datamodel.Kind_List {
		guard(o, "Length", path, func() {
			if l := n.Length(); l != -1 {
				o.inc("length-scalar", "at %q: Length()=%d on %v", path, l, k)
			}
		})
	}
	if k != datamodel.Kind_Null {
		guard(o, "IsNull", path, func() {
			if n.IsNull() || n.IsAbsent() {
				o.inc("null-flags", "at %q: %v node reports IsNull=%v IsAbsent=%v", path, k, n.IsNull(), n.IsAbsent())
			}
		})
	}
	guard(o, "Prototype", path, func() {
		if n.Prototype() == nil {
			o.inc("nil-prototype", "at %q", path)
		}
	})
}

// ReadTyped reads the value only (as Read1) with the typed conventions (keys of typed maps by their
// representation string); a panic is returned as an invalid value carrying the text.
func ReadTyped(n datamodel.Node) (v Val) {
	defer func() {
		if x := recover(); x != nil {
			v = Str("\x00PANIC:" + fmt.Sprint(x))
		}
	}()
	o := &Observer{Typed: true}
	return o.Read(n, "")
}
