package ref

import (
	"bytes"
	"github.com/ipld/go-ipld-prime/datamodel"
	"github.com/ipld/go-ipld-prime/node/basicnode"
)

// GenericImpls are the generic node implementations able to hold any value.
var GenericImpls = []string{"basic-any", "basic-kind", "refnode"}

func KindProto(k Kind) datamodel.NodePrototype {
	switch k {
	case KBool:
		return basicnode.Prototype.Bool
	case KInt:
		return basicnode.Prototype.Int
	case KFloat:
		return basicnode.Prototype.Float
	case KString:
		return basicnode.Prototype.String
	case KBytes:
		return basicnode.Prototype.Bytes
	case KLink:
		return basicnode.Prototype.Link
	case KList:
		return basicnode.Prototype.List
	case KMap:
		return basicnode.Prototype.Map
	}
	return basicnode.Prototype.Any
}

// ImplBuild builds v in the named implementation by the default route.
func ImplBuild(impl string, v Val) (datamodel.Node, error) {
	switch impl {
	case "basic-any":
		return Build(basicnode.Prototype.Any, v)
	case "basic-kind":
		return Build(KindProto(v.K), v)
	case "refnode":
		return Node(v), nil
	case "basic-newuint":
		// basicnode, with every non-negative integer held by the uint-backed node (basicnode.NewUint)
		return buildNewUint(v)
	case "basic-readerbytes":
		// basicnode, with every bytes value held by the reader-backed node: at the root the node
		// NewBytesFromReader makes, below containers whatever AssignNode of such a node leaves there
		if v.K == KBytes {
			return basicnode.NewBytesFromReader(bytes.NewReader([]byte(v.S))), nil
		}
		nb := basicnode.Prototype.Any.NewBuilder()
		if err := assignReaderBytes(nb, v); err != nil {
			return nil, err
		}
		return nb.Build(), nil
	case "basic-bytes-proto-of-reader":
		// Prototype.Bytes' builder given a reader-backed node (it keeps a reader-backed node)
		nb := basicnode.Prototype.Bytes.NewBuilder()
		if err := nb.AssignNode(basicnode.NewBytesFromReader(bytes.NewReader([]byte(v.S)))); err != nil {
			return nil, err
		}
		return nb.Build(), nil
	}
	panic("harness: unknown impl " + impl)
}

func buildNewUint(v Val) (datamodel.Node, error) {
	nb := basicnode.Prototype.Any.NewBuilder()
	if err := assignNewUint(nb, v); err != nil {
		return nil, err
	}
	return nb.Build(), nil
}

func assignNewUint(na datamodel.NodeAssembler, v Val) error {
	switch v.K {
	case KInt:
		if v.I >= 0 {
			return na.AssignNode(basicnode.NewUint(uint64(v.I)))
		}
	case KUint:
		return na.AssignNode(basicnode.NewUint(v.U))
	case KList:
		la, err := na.BeginList(int64(len(v.L)))
		if err != nil {
			return err
		}
		for _, c := range v.L {
			if err := assignNewUint(la.AssembleValue(), c); err != nil {
				return err
			}
		}
		return la.Finish()
	case KMap:
		ma, err := na.BeginMap(int64(len(v.M)))
		if err != nil {
			return err
		}
		for _, e := range v.M {
			va, err := ma.AssembleEntry(e.K)
			if err != nil {
				return err
			}
			if err := assignNewUint(va, e.V); err != nil {
				return err
			}
		}
		return ma.Finish()
	}
	return Assign(na, v)
}

func assignReaderBytes(na datamodel.NodeAssembler, v Val) error {
	switch v.K {
	case KBytes:
		return na.AssignNode(basicnode.NewBytesFromReader(bytes.NewReader([]byte(v.S))))
	case KList:
		la, err := na.BeginList(int64(len(v.L)))
		if err != nil {
			return err
		}
		for _, c := range v.L {
			if err := assignReaderBytes(la.AssembleValue(), c); err != nil {
				return err
			}
		}
		return la.Finish()
	case KMap:
		ma, err := na.BeginMap(int64(len(v.M)))
		if err != nil {
			return err
		}
		for _, e := range v.M {
			va, err := ma.AssembleEntry(e.K)
			if err != nil {
				return err
			}
			if err := assignReaderBytes(va, e.V); err != nil {
				return err
			}
		}
		return ma.Finish()
	}
	return Assign(na, v)
}

// HasBytes: v holds a bytes value somewhere.
func HasBytes(v Val) bool {
	if v.K == KBytes {
		return true
	}
	for _, c := range v.L {
		if HasBytes(c) {
			return true
		}
	}
	for _, e := range v.M {
		if HasBytes(e.V) {
			return true
		}
	}
	return false
}

// HasNonNegInt: v holds an integer a uint-backed node can carry.
func HasNonNegInt(v Val) bool {
	if v.K == KInt && v.I >= 0 || v.K == KUint {
		return true
	}
	for _, c := range v.L {
		if HasNonNegInt(c) {
			return true
		}
	}
	for _, e := range v.M {
		if HasNonNegInt(e.V) {
			return true
		}
	}
	return false
}
