package ref

import (
	"github.com/ipld/go-ipld-prime/datamodel"
	"github.com/ipld/go-ipld-prime/node/basicnode"
)

// GenericImpls are the generic node implementations able to hold any value.
var GenericImpls = []string{"basic-any", "basic-kind", "refnode"}

func KindProto(k Kind) datamodel.NodePrototype {
	switch k {
	case KBool:
		return basicnode.Prototype.Bool
	case KInt:
		return basicnode.Prototype.Int
	case KFloat:
		return basicnode.Prototype.Float
	case KString:
		return basicnode.Prototype.String
	case KBytes:
		return basicnode.Prototype.Bytes
	case KLink:
		return basicnode.Prototype.Link
	case KList:
		return basicnode.Prototype.List
	case KMap:
		return basicnode.Prototype.Map
	}
	return basicnode.Prototype.Any
}

// ImplBuild builds v in the named implementation by the default route.
func ImplBuild(impl string, v Val) (datamodel.Node, error) {
	switch impl {
	case "basic-any":
		return Build(basicnode.Prototype.Any, v)
	case "basic-kind":
		return Build(KindProto(v.K), v)
	case "refnode":
		return Node(v), nil
	}
	panic("harness: unknown impl " + impl)
}
