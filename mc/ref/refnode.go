package ref

import (
	"bytes"
	"io"

	"github.com/ipfs/go-cid"
	"github.com/ipld/go-ipld-prime/datamodel"
	cidlink "github.com/ipld/go-ipld-prime/linking/cid"
	"github.com/ipld/go-ipld-prime/node/basicnode"
)

// RefNode is a deliberately boring foreign implementation of datamodel.Node over a Val.
// It shares no code with basicnode and is the source of uint, odd-order and large-bytes nodes.
type RefNode struct {
	V Val
	// Large makes a bytes node also implement LargeBytesNode.
}

type refLarge struct{ RefNode }

func (n refLarge) AsLargeBytes() (io.ReadSeeker, error) {
	if n.V.K != KBytes {
		return nil, n.wrong("AsLargeBytes", datamodel.KindSet_JustBytes)
	}
	return bytes.NewReader([]byte(n.V.S)), nil
}

type refUint struct{ RefNode }

func (n refUint) AsUint() (uint64, error) { return n.V.U, nil }

// Node wraps v as a foreign node.
func Node(v Val) datamodel.Node {
	if v.K == KUint {
		return refUint{RefNode{v}}
	}
	return RefNode{v}
}

// LargeNode wraps a bytes value as a foreign node that also offers AsLargeBytes.
func LargeNode(v Val) datamodel.Node { return refLarge{RefNode{v}} }

func ToDMKind(k Kind) datamodel.Kind {
	switch k {
	case KNull, KAbsent:
		return datamodel.Kind_Null
	case KBool:
		return datamodel.Kind_Bool
	case KInt, KUint:
		return datamodel.Kind_Int
	case KFloat:
		return datamodel.Kind_Float
	case KString:
		return datamodel.Kind_String
	case KBytes:
		return datamodel.Kind_Bytes
	case KLink:
		return datamodel.Kind_Link
	case KList:
		return datamodel.Kind_List
	case KMap:
		return datamodel.Kind_Map
	}
	return datamodel.Kind_Invalid
}

func (n RefNode) Kind() datamodel.Kind { return ToDMKind(n.V.K) }

func (n RefNode) wrong(m string, ks datamodel.KindSet) error {
	return datamodel.ErrWrongKind{TypeName: "refnode", MethodName: m, AppropriateKind: ks, ActualKind: n.Kind()}
}

func (n RefNode) LookupByString(key string) (datamodel.Node, error) {
	if n.V.K != KMap {
		return nil, n.wrong("LookupByString", datamodel.KindSet_JustMap)
	}
	for _, e := range n.V.M {
		if e.K == key {
			return Node(e.V), nil
		}
	}
	return nil, datamodel.ErrNotExists{Segment: datamodel.PathSegmentOfString(key)}
}

func (n RefNode) LookupByNode(key datamodel.Node) (datamodel.Node, error) {
	switch n.V.K {
	case KMap:
		s, err := key.AsString()
		if err != nil {
			return nil, err
		}
		return n.LookupByString(s)
	case KList:
		i, err := key.AsInt()
		if err != nil {
			return nil, err
		}
		return n.LookupByIndex(i)
	}
	return nil, n.wrong("LookupByNode", datamodel.KindSet_Recursive)
}

func (n RefNode) LookupByIndex(idx int64) (datamodel.Node, error) {
	if n.V.K != KList {
		return nil, n.wrong("LookupByIndex", datamodel.KindSet_JustList)
	}
	if idx < 0 || idx >= int64(len(n.V.L)) {
		return nil, datamodel.ErrNotExists{Segment: datamodel.PathSegmentOfInt(idx)}
	}
	return Node(n.V.L[idx]), nil
}

func (n RefNode) LookupBySegment(seg datamodel.PathSegment) (datamodel.Node, error) {
	switch n.V.K {
	case KMap:
		return n.LookupByString(seg.String())
	case KList:
		i, err := seg.Index()
		if err != nil {
			return nil, err
		}
		return n.LookupByIndex(i)
	}
	return nil, n.wrong("LookupBySegment", datamodel.KindSet_Recursive)
}

type refMapItr struct {
	m []Entry
	i int
}

func (it *refMapItr) Next() (datamodel.Node, datamodel.Node, error) {
	if it.i >= len(it.m) {
		return nil, nil, datamodel.ErrIteratorOverread{}
	}
	e := it.m[it.i]
	it.i++
	return Node(Str(e.K)), Node(e.V), nil
}
func (it *refMapItr) Done() bool { return it.i >= len(it.m) }

type refListItr struct {
	l []Val
	i int
}

func (it *refListItr) Next() (int64, datamodel.Node, error) {
	if it.i >= len(it.l) {
		return -1, nil, datamodel.ErrIteratorOverread{}
	}
	v := it.l[it.i]
	it.i++
	return int64(it.i - 1), Node(v), nil
}
func (it *refListItr) Done() bool { return it.i >= len(it.l) }

func (n RefNode) MapIterator() datamodel.MapIterator {
	if n.V.K != KMap {
		return nil
	}
	return &refMapItr{m: n.V.M}
}
func (n RefNode) ListIterator() datamodel.ListIterator {
	if n.V.K != KList {
		return nil
	}
	return &refListItr{l: n.V.L}
}
func (n RefNode) Length() int64 {
	switch n.V.K {
	case KMap:
		return int64(len(n.V.M))
	case KList:
		return int64(len(n.V.L))
	}
	return -1
}
func (n RefNode) IsAbsent() bool { return n.V.K == KAbsent }
func (n RefNode) IsNull() bool   { return n.V.K == KNull }
func (n RefNode) AsBool() (bool, error) {
	if n.V.K != KBool {
		return false, n.wrong("AsBool", datamodel.KindSet_JustBool)
	}
	return n.V.B, nil
}
func (n RefNode) AsInt() (int64, error) {
	if n.V.K == KUint {
		return 0, errIntOverflow{}
	}
	if n.V.K != KInt {
		return 0, n.wrong("AsInt", datamodel.KindSet_JustInt)
	}
	return n.V.I, nil
}

type errIntOverflow struct{}

func (errIntOverflow) Error() string { return "refnode: uint value overflows int64" }

func (n RefNode) AsFloat() (float64, error) {
	if n.V.K != KFloat {
		return 0, n.wrong("AsFloat", datamodel.KindSet_JustFloat)
	}
	return n.V.F, nil
}
func (n RefNode) AsString() (string, error) {
	if n.V.K != KString {
		return "", n.wrong("AsString", datamodel.KindSet_JustString)
	}
	return n.V.S, nil
}
func (n RefNode) AsBytes() ([]byte, error) {
	if n.V.K != KBytes {
		return nil, n.wrong("AsBytes", datamodel.KindSet_JustBytes)
	}
	return []byte(n.V.S), nil
}
func (n RefNode) AsLink() (datamodel.Link, error) {
	if n.V.K != KLink {
		return nil, n.wrong("AsLink", datamodel.KindSet_JustLink)
	}
	return MkLink(n.V.S), nil
}
func (n RefNode) Prototype() datamodel.NodePrototype { return basicnode.Prototype.Any }

// MkLink turns CID binary into a cidlink.Link (panics on an invalid CID: harness bug).
func MkLink(bin string) datamodel.Link {
	if bin == "" {
		return cidlink.Link{Cid: cid.Undef}
	}
	c, err := cid.Cast([]byte(bin))
	if err != nil {
		panic("harness: invalid cid in Val: " + err.Error())
	}
	return cidlink.Link{Cid: c}
}
