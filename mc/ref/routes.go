package ref

import (
	"fmt"

	"github.com/ipld/go-ipld-prime/datamodel"
	"github.com/ipld/go-ipld-prime/node/basicnode"
)

// Routes maps a node position (preorder index in the value) to a deviation from the default way
// of making the assembler calls. Absent = default route.
//
// containers: 1 = AssignNode(prebuilt, same implementation family: basicnode Any)
//             2 = AssignNode(prebuilt foreign refnode)
//             3,4,5 = size hint -1, 0, exact+2
//             6 = AssignNode(prebuilt kind-specific basicnode)
// maps also:  7 = keys via AssembleKey().AssignString + AssembleValue()
//             8 = keys via AssembleKey().AssignNode(basic string node)
//             9 = keys via AssembleKey().AssignNode(foreign string node)
// scalars:    1 = AssignNode(basicnode scalar), 2 = AssignNode(foreign refnode scalar)
// any:        10 = AssignNode(the node at the same position of a donor: an instance of the same value
//                  built earlier by the same implementation — BuildRoutedDonor only)
type Routes map[int]int

// RouteDonor is the deviation "assign the donor's node at this position".
const RouteDonor = 10

// RouteOptionsWithDonor is RouteOptions plus the donor deviation at every position.
func RouteOptionsWithDonor(v Val) [][]int {
	out := RouteOptions(v)
	for i := range out {
		out[i] = append(append([]int(nil), out[i]...), RouteDonor)
	}
	return out
}

func ContainerRoutes(isMap bool) []int {
	if isMap {
		return []int{1, 2, 3, 4, 5, 6, 7, 8, 9}
	}
	return []int{1, 2, 3, 4, 5, 6}
}

func ScalarRoutes() []int { return []int{1, 2} }

// RouteOptions lists, per preorder position of v, the available deviations.
func RouteOptions(v Val) [][]int {
	var out [][]int
	var rec func(v Val)
	rec = func(v Val) {
		switch v.K {
		case KList:
			out = append(out, ContainerRoutes(false))
			for _, c := range v.L {
				rec(c)
			}
		case KMap:
			out = append(out, ContainerRoutes(true))
			for _, e := range v.M {
				rec(e.V)
			}
		default:
			out = append(out, ScalarRoutes())
		}
	}
	rec(v)
	return out
}

type router struct {
	r     Routes
	idx   int
	donor bool // donor nodes are being tracked
}

func donorChild(d datamodel.Node, key string, index int, isMap bool) (c datamodel.Node) {
	if d == nil {
		return nil
	}
	defer func() {
		if recover() != nil {
			c = nil
		}
	}()
	var err error
	if isMap {
		c, err = d.LookupByString(key)
	} else {
		c, err = d.LookupByIndex(int64(index))
	}
	if err != nil {
		return nil
	}
	return c
}

func skip(v Val) int { return v.Size() }

func (rt *router) assign(na datamodel.NodeAssembler, v Val, donor datamodel.Node) error {
	my := rt.idx
	rt.idx++
	route := rt.r[my]
	if route == RouteDonor {
		if donor != nil && !donor.IsAbsent() {
			rt.idx = my + skip(v)
			return na.AssignNode(donor)
		}
		route = 0 // no donor node for this position: the default route
	}
	switch v.K {
	case KList, KMap:
		switch route {
		case 1:
			rt.idx = my + skip(v)
			return na.AssignNode(Basic(v))
		case 2:
			rt.idx = my + skip(v)
			return na.AssignNode(Node(v))
		case 6:
			rt.idx = my + skip(v)
			n, err := Build(KindProto(v.K), v)
			if err != nil {
				return fmt.Errorf("harness: prebuild: %w", err)
			}
			return na.AssignNode(n)
		}
		n := int64(len(v.L) + len(v.M))
		hint := n
		switch route {
		case 3:
			hint = -1
		case 4:
			hint = 0
		case 5:
			hint = n + 2
		}
		if v.K == KList {
			la, err := na.BeginList(hint)
			if err != nil {
				return err
			}
			for i, c := range v.L {
				if err := rt.assign(la.AssembleValue(), c, donorChild(donor, "", i, false)); err != nil {
					return err
				}
			}
			return la.Finish()
		}
		ma, err := na.BeginMap(hint)
		if err != nil {
			return err
		}
		for _, e := range v.M {
			var va datamodel.NodeAssembler
			switch route {
			case 7:
				if err := ma.AssembleKey().AssignString(e.K); err != nil {
					return err
				}
				va = ma.AssembleValue()
			case 8:
				if err := ma.AssembleKey().AssignNode(basicnode.NewString(e.K)); err != nil {
					return err
				}
				va = ma.AssembleValue()
			case 9:
				if err := ma.AssembleKey().AssignNode(Node(Str(e.K))); err != nil {
					return err
				}
				va = ma.AssembleValue()
			default:
				va, err = ma.AssembleEntry(e.K)
				if err != nil {
					return err
				}
			}
			if err := rt.assign(va, e.V, donorChild(donor, e.K, 0, true)); err != nil {
				return err
			}
		}
		return ma.Finish()
	}
	switch route {
	case 1:
		if v.K == KUint {
			return na.AssignNode(basicnode.NewUint(v.U))
		}
		return na.AssignNode(Basic(v))
	case 2:
		return na.AssignNode(Node(v))
	}
	return Assign(na, v)
}

// BuildRouted builds v with proto making the calls as routes say. reuse: first build another
// value with the same builder and Reset it.
func BuildRouted(proto datamodel.NodePrototype, v Val, routes Routes, reuse bool) (n datamodel.Node, err error) {
	defer func() {
		if x := recover(); x != nil {
			err = fmt.Errorf("panic: %v", x)
		}
	}()
	nb := proto.NewBuilder()
	if reuse {
		if err := Assign(nb, v); err != nil {
			return nil, fmt.Errorf("first use: %w", err)
		}
		_ = nb.Build()
		nb.Reset()
	}
	rt := &router{r: routes}
	if err := rt.assign(nb, v, nil); err != nil {
		return nil, err
	}
	return nb.Build(), nil
}

// BuildRoutedDonor is BuildRouted with a donor: a node of the same value (at the level being built)
// whose sub-nodes are what route 10 assigns.
func BuildRoutedDonor(proto datamodel.NodePrototype, v Val, routes Routes, donor datamodel.Node) (n datamodel.Node, err error) {
	defer func() {
		if x := recover(); x != nil {
			err = fmt.Errorf("panic: %v", x)
		}
	}()
	nb := proto.NewBuilder()
	rt := &router{r: routes, donor: true}
	if err := rt.assign(nb, v, donor); err != nil {
		return nil, err
	}
	return nb.Build(), nil
}
