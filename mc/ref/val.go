// Package ref holds the reference universe: abstract data-model values, a deliberately boring
// foreign Node implementation over them, a complete observer of real nodes, and reference codecs.
package ref

import (
	"encoding/hex"
	"encoding/json"
	"fmt"
	"math"
	"sort"
	"strconv"
	"strings"
)

type Kind uint8

const (
	KInvalid Kind = iota
	KNull
	KBool
	KInt
	KUint // integers above MaxInt64 only
	KFloat
	KString
	KBytes
	KLink
	KList
	KMap
	KAbsent
)

var kindNames = [...]string{"invalid", "null", "bool", "int", "uint", "float", "string", "bytes", "link", "list", "map", "absent"}

func (k Kind) String() string { return kindNames[k] }

// Val is the abstract data-model value. S holds string / bytes content or the binary CID of a link.
type Val struct {
	K Kind
	B bool
	I int64
	U uint64
	F float64
	S string
	L []Val
	M []Entry
}

type Entry struct {
	K string
	V Val
}

func Null() Val             { return Val{K: KNull} }
func Absent() Val           { return Val{K: KAbsent} }
func Bool(b bool) Val       { return Val{K: KBool, B: b} }
func Int(i int64) Val       { return Val{K: KInt, I: i} }
func Float(f float64) Val   { return Val{K: KFloat, F: f} }
func Str(s string) Val      { return Val{K: KString, S: s} }
func Bytes(s string) Val    { return Val{K: KBytes, S: s} }
func Link(cidBin string) Val { return Val{K: KLink, S: cidBin} }
func List(l ...Val) Val {
	if l == nil {
		l = []Val{}
	}
	return Val{K: KList, L: l}
}
func Map(e ...Entry) Val {
	if e == nil {
		e = []Entry{}
	}
	return Val{K: KMap, M: e}
}
func E(k string, v Val) Entry { return Entry{k, v} }

// Uint makes an integer value from a uint64: KInt when it fits int64, else KUint.
func Uint(u uint64) Val {
	if u <= math.MaxInt64 {
		return Int(int64(u))
	}
	return Val{K: KUint, U: u}
}

// Equal is structural equality; floats compare by bits (so NaN==NaN, 0 != -0), maps by ordered entries.
func Equal(a, b Val) bool {
	if a.K != b.K {
		return false
	}
	switch a.K {
	case KBool:
		return a.B == b.B
	case KInt:
		return a.I == b.I
	case KUint:
		return a.U == b.U
	case KFloat:
		return math.Float64bits(a.F) == math.Float64bits(b.F)
	case KString, KBytes, KLink:
		return a.S == b.S
	case KList:
		if len(a.L) != len(b.L) {
			return false
		}
		for i := range a.L {
			if !Equal(a.L[i], b.L[i]) {
				return false
			}
		}
		return true
	case KMap:
		if len(a.M) != len(b.M) {
			return false
		}
		for i := range a.M {
			if a.M[i].K != b.M[i].K || !Equal(a.M[i].V, b.M[i].V) {
				return false
			}
		}
		return true
	}
	return true
}

// EqualGo is equality as datamodel.DeepEqual defines it: Go == on floats (0 == -0, NaN != NaN).
func EqualGo(a, b Val) bool {
	if a.K != b.K {
		return false
	}
	switch a.K {
	case KFloat:
		return a.F == b.F
	case KList:
		if len(a.L) != len(b.L) {
			return false
		}
		for i := range a.L {
			if !EqualGo(a.L[i], b.L[i]) {
				return false
			}
		}
		return true
	case KMap:
		if len(a.M) != len(b.M) {
			return false
		}
		for i := range a.M {
			if a.M[i].K != b.M[i].K || !EqualGo(a.M[i].V, b.M[i].V) {
				return false
			}
		}
		return true
	}
	return Equal(a, b)
}

// SortMaps returns v with all maps' entries ordered by less.
func SortMaps(v Val, less func(a, b string) bool) Val {
	switch v.K {
	case KList:
		o := make([]Val, len(v.L))
		for i := range v.L {
			o[i] = SortMaps(v.L[i], less)
		}
		return Val{K: KList, L: o}
	case KMap:
		o := make([]Entry, len(v.M))
		for i := range v.M {
			o[i] = Entry{v.M[i].K, SortMaps(v.M[i].V, less)}
		}
		sort.SliceStable(o, func(i, j int) bool { return less(o[i].K, o[j].K) })
		return Val{K: KMap, M: o}
	}
	return v
}

func LessBytewise(a, b string) bool { return a < b }
func LessLenFirst(a, b string) bool {
	if len(a) != len(b) {
		return len(a) < len(b)
	}
	return a < b
}

func (v Val) Size() int {
	n := 1
	for _, c := range v.L {
		n += c.Size()
	}
	for _, e := range v.M {
		n += e.V.Size()
	}
	return n
}

func (v Val) Depth() int {
	d := 0
	for _, c := range v.L {
		if x := c.Depth(); x > d {
			d = x
		}
	}
	for _, e := range v.M {
		if x := e.V.Depth(); x > d {
			d = x
		}
	}
	return d + 1
}

func qs(s string) string {
	if len(s) > 40 {
		return fmt.Sprintf("%q…(%d)", s[:12], len(s))
	}
	return strconv.Quote(s)
}

// String renders compactly: {"a":1,"b":[x"ff",<cid hex>]}.
func (v Val) String() string {
	var sb strings.Builder
	v.write(&sb)
	return sb.String()
}

func (v Val) write(sb *strings.Builder) {
	switch v.K {
	case KNull:
		sb.WriteString("null")
	case KAbsent:
		sb.WriteString("absent")
	case KBool:
		sb.WriteString(strconv.FormatBool(v.B))
	case KInt:
		sb.WriteString(strconv.FormatInt(v.I, 10))
	case KUint:
		sb.WriteString(strconv.FormatUint(v.U, 10) + "u")
	case KFloat:
		sb.WriteString("f" + strconv.FormatFloat(v.F, 'g', -1, 64))
		if v.F == 0 && math.Signbit(v.F) {
			sb.WriteString("(neg0)")
		}
	case KString:
		sb.WriteString(qs(v.S))
	case KBytes:
		if len(v.S) > 24 {
			sb.WriteString(fmt.Sprintf("x%s…(%d)", hex.EncodeToString([]byte(v.S[:8])), len(v.S)))
		} else {
			sb.WriteString("x" + hex.EncodeToString([]byte(v.S)))
		}
	case KLink:
		h := hex.EncodeToString([]byte(v.S))
		if len(h) > 20 {
			h = h[:12] + "…" + h[len(h)-6:]
		}
		sb.WriteString("<" + h + ">")
	case KList:
		sb.WriteByte('[')
		for i, c := range v.L {
			if i > 0 {
				sb.WriteByte(',')
			}
			c.write(sb)
		}
		sb.WriteByte(']')
	case KMap:
		sb.WriteByte('{')
		for i, e := range v.M {
			if i > 0 {
				sb.WriteByte(',')
			}
			sb.WriteString(qs(e.K))
			sb.WriteByte(':')
			e.V.write(sb)
		}
		sb.WriteByte('}')
	default:
		sb.WriteString("?invalid?")
	}
}

// Key is a complete (never truncated) canonical string usable as a map key.
func (v Val) Key() string {
	var sb strings.Builder
	v.key(&sb)
	return sb.String()
}

func (v Val) key(sb *strings.Builder) {
	switch v.K {
	case KFloat:
		sb.WriteString("f" + strconv.FormatUint(math.Float64bits(v.F), 16))
	case KString:
		sb.WriteString(strconv.Quote(v.S))
	case KBytes:
		sb.WriteString("x" + hex.EncodeToString([]byte(v.S)))
	case KLink:
		sb.WriteString("<" + hex.EncodeToString([]byte(v.S)) + ">")
	case KList:
		sb.WriteByte('[')
		for _, c := range v.L {
			c.key(sb)
			sb.WriteByte(',')
		}
		sb.WriteByte(']')
	case KMap:
		sb.WriteByte('{')
		for _, e := range v.M {
			sb.WriteString(strconv.Quote(e.K))
			sb.WriteByte(':')
			e.V.key(sb)
			sb.WriteByte(',')
		}
		sb.WriteByte('}')
	default:
		v.write(sb)
	}
}

type jval struct {
	K string  `json:"k"`
	B *bool   `json:"b,omitempty"`
	I *int64  `json:"i,omitempty"`
	U *uint64 `json:"u,omitempty"`
	F *string `json:"fbits,omitempty"`
	X *string `json:"hex,omitempty"`
	L []Val   `json:"l,omitempty"`
	M []jent  `json:"m,omitempty"`
	T string  `json:"text,omitempty"`
}
type jent struct {
	K string `json:"khex"`
	V Val    `json:"v"`
}

func (v Val) MarshalJSON() ([]byte, error) {
	j := jval{K: v.K.String()}
	switch v.K {
	case KBool:
		j.B = &v.B
	case KInt:
		j.I = &v.I
	case KUint:
		j.U = &v.U
	case KFloat:
		s := strconv.FormatUint(math.Float64bits(v.F), 16)
		j.F = &s
		j.T = strconv.FormatFloat(v.F, 'g', -1, 64)
	case KString, KBytes, KLink:
		s := hex.EncodeToString([]byte(v.S))
		j.X = &s
		if v.K == KString && len(v.S) < 64 {
			j.T = strconv.QuoteToASCII(v.S)
		}
	case KList:
		j.L = v.L
		if j.L == nil {
			j.L = []Val{}
		}
	case KMap:
		for _, e := range v.M {
			j.M = append(j.M, jent{hex.EncodeToString([]byte(e.K)), e.V})
		}
	}
	return json.Marshal(j)
}

func (v *Val) UnmarshalJSON(b []byte) error {
	var j jval
	if err := json.Unmarshal(b, &j); err != nil {
		return err
	}
	*v = Val{}
	for i, n := range kindNames {
		if n == j.K {
			v.K = Kind(i)
		}
	}
	switch v.K {
	case KBool:
		if j.B != nil {
			v.B = *j.B
		}
	case KInt:
		if j.I != nil {
			v.I = *j.I
		}
	case KUint:
		if j.U != nil {
			v.U = *j.U
		}
	case KFloat:
		if j.F != nil {
			u, _ := strconv.ParseUint(*j.F, 16, 64)
			v.F = math.Float64frombits(u)
		}
	case KString, KBytes, KLink:
		if j.X != nil {
			x, _ := hex.DecodeString(*j.X)
			v.S = string(x)
		}
	case KList:
		v.L = j.L
		if v.L == nil {
			v.L = []Val{}
		}
	case KMap:
		v.M = []Entry{}
		for _, e := range j.M {
			k, _ := hex.DecodeString(e.K)
			v.M = append(v.M, Entry{string(k), e.V})
		}
	}
	return nil
}
