package ref

import (
	"fmt"

	"github.com/ipld/go-ipld-prime/datamodel"
	"github.com/ipld/go-ipld-prime/node/basicnode"
)

// Assign feeds v into na by the default route (Begin…/AssembleEntry/Assign<Kind>).
func Assign(na datamodel.NodeAssembler, v Val) error {
	switch v.K {
	case KNull:
		return na.AssignNull()
	case KBool:
		return na.AssignBool(v.B)
	case KInt:
		return na.AssignInt(v.I)
	case KUint:
		return na.AssignNode(basicnode.NewUint(v.U))
	case KFloat:
		return na.AssignFloat(v.F)
	case KString:
		return na.AssignString(v.S)
	case KBytes:
		return na.AssignBytes([]byte(v.S))
	case KLink:
		return na.AssignLink(MkLink(v.S))
	case KList:
		la, err := na.BeginList(int64(len(v.L)))
		if err != nil {
			return err
		}
		for _, c := range v.L {
			if err := Assign(la.AssembleValue(), c); err != nil {
				return err
			}
		}
		return la.Finish()
	case KMap:
		ma, err := na.BeginMap(int64(len(v.M)))
		if err != nil {
			return err
		}
		for _, e := range v.M {
			va, err := ma.AssembleEntry(e.K)
			if err != nil {
				return err
			}
			if err := Assign(va, e.V); err != nil {
				return err
			}
		}
		return ma.Finish()
	}
	return fmt.Errorf("harness: cannot assign kind %v", v.K)
}

// Build builds v with proto by the default route.
func Build(proto datamodel.NodePrototype, v Val) (n datamodel.Node, err error) {
	defer func() {
		if x := recover(); x != nil {
			err = fmt.Errorf("panic: %v", x)
		}
	}()
	nb := proto.NewBuilder()
	if err := Assign(nb, v); err != nil {
		return nil, err
	}
	return nb.Build(), nil
}

// Basic builds v as a basicnode (Any prototype); panics on failure (harness bug).
func Basic(v Val) datamodel.Node {
	n, err := Build(basicnode.Prototype.Any, v)
	if err != nil {
		panic("harness: cannot build " + v.String() + ": " + err.Error())
	}
	return n
}
