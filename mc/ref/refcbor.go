package ref

import (
	"encoding/binary"
	"fmt"
	"math"
	"sort"

	"github.com/ipfs/go-cid"
)

// ---- reference canonical DAG-CBOR encoder (independent of refmt and of codec/dagcbor) ----

func cborHead(out []byte, major byte, n uint64) []byte {
	m := major << 5
	switch {
	case n < 24:
		return append(out, m|byte(n))
	case n < 1<<8:
		return append(out, m|24, byte(n))
	case n < 1<<16:
		return append(out, m|25, byte(n>>8), byte(n))
	case n < 1<<32:
		return append(out, m|26, byte(n>>24), byte(n>>16), byte(n>>8), byte(n))
	}
	out = append(out, m|27)
	return binary.BigEndian.AppendUint64(out, n)
}

// CborEncode returns the canonical DAG-CBOR encoding of v.
func CborEncode(v Val) ([]byte, error) { return cborEnc(nil, v) }

func cborEnc(out []byte, v Val) ([]byte, error) {
	switch v.K {
	case KNull:
		return append(out, 0xf6), nil
	case KBool:
		if v.B {
			return append(out, 0xf5), nil
		}
		return append(out, 0xf4), nil
	case KInt:
		if v.I >= 0 {
			return cborHead(out, 0, uint64(v.I)), nil
		}
		return cborHead(out, 1, uint64(-1-v.I)), nil
	case KUint:
		return cborHead(out, 0, v.U), nil
	case KFloat:
		if math.IsNaN(v.F) || math.IsInf(v.F, 0) {
			return nil, fmt.Errorf("non-finite float")
		}
		out = append(out, 0xfb)
		return binary.BigEndian.AppendUint64(out, math.Float64bits(v.F)), nil
	case KString:
		out = cborHead(out, 3, uint64(len(v.S)))
		return append(out, v.S...), nil
	case KBytes:
		out = cborHead(out, 2, uint64(len(v.S)))
		return append(out, v.S...), nil
	case KLink:
		if v.S == "" {
			return nil, fmt.Errorf("undefined cid")
		}
		out = append(out, 0xd8, 0x2a)
		out = cborHead(out, 2, uint64(len(v.S)+1))
		out = append(out, 0)
		return append(out, v.S...), nil
	case KList:
		out = cborHead(out, 4, uint64(len(v.L)))
		for _, c := range v.L {
			var err error
			if out, err = cborEnc(out, c); err != nil {
				return nil, err
			}
		}
		return out, nil
	case KMap:
		out = cborHead(out, 5, uint64(len(v.M)))
		es := append([]Entry(nil), v.M...)
		sort.SliceStable(es, func(i, j int) bool { return LessLenFirst(es[i].K, es[j].K) })
		for _, e := range es {
			out = cborHead(out, 3, uint64(len(e.K)))
			out = append(out, e.K...)
			var err error
			if out, err = cborEnc(out, e.V); err != nil {
				return nil, err
			}
		}
		return out, nil
	}
	return nil, fmt.Errorf("unencodable kind %v", v.K)
}

// ---- reference strict DAG-CBOR decoder ----

// Rej is a structured rejection reason.
type Rej struct {
	Reason string // abstract class, e.g. "tag-on-major0", "nonminimal-head(major3,w2)", "truncated"
	At     int
}

func (r *Rej) Error() string { return fmt.Sprintf("%s@%d", r.Reason, r.At) }

type cdec struct {
	b       []byte
	p       int
	relaxed bool
	depth   int
}

func (d *cdec) rej(reason string, a ...any) *Rej { return &Rej{fmt.Sprintf(reason, a...), d.p} }

// CborDecode decodes exactly one item followed by nothing. relaxed permits non-minimal heads,
// NaN/Inf and duplicate keys (what RelaxedDecode documents).
func CborDecode(b []byte, relaxed bool) (Val, *Rej) {
	d := &cdec{b: b, relaxed: relaxed}
	v, r := d.item(false)
	if r != nil {
		return Val{}, r
	}
	if d.p != len(b) {
		return Val{}, d.rej("trailing")
	}
	return v, nil
}

// head reads a major/argument head. ai is the additional-info field.
func (d *cdec) head() (major byte, ai byte, arg uint64, r *Rej) {
	if d.p >= len(d.b) {
		return 0, 0, 0, d.rej("truncated")
	}
	ib := d.b[d.p]
	major, ai = ib>>5, ib&0x1f
	start := d.p
	d.p++
	need := 0
	switch {
	case ai < 24:
		return major, ai, uint64(ai), nil
	case ai == 24:
		need = 1
	case ai == 25:
		need = 2
	case ai == 26:
		need = 4
	case ai == 27:
		need = 8
	case ai == 31:
		return major, ai, 0, nil
	default:
		d.p = start
		return 0, 0, 0, d.rej("reserved-ai(major%d)", major)
	}
	if d.p+need > len(d.b) {
		d.p = start
		return 0, 0, 0, d.rej("truncated")
	}
	for i := 0; i < need; i++ {
		arg = arg<<8 | uint64(d.b[d.p+i])
	}
	d.p += need
	return major, ai, arg, nil
}

func minimalAI(arg uint64) byte {
	switch {
	case arg < 24:
		return byte(arg)
	case arg < 1<<8:
		return 24
	case arg < 1<<16:
		return 25
	case arg < 1<<32:
		return 26
	}
	return 27
}

func halfToFloat(h uint16) float64 {
	sign := 1.0
	if h&0x8000 != 0 {
		sign = -1
	}
	exp := int(h>>10) & 0x1f
	frac := float64(h & 0x3ff)
	switch exp {
	case 0:
		return sign * frac * math.Pow(2, -24)
	case 31:
		if frac == 0 {
			return sign * math.Inf(1)
		}
		return math.NaN()
	}
	return sign * (1 + frac/1024) * math.Pow(2, float64(exp-15))
}

func (d *cdec) item(tagged bool) (Val, *Rej) {
	at := d.p
	major, ai, arg, r := d.head()
	if r != nil {
		return Val{}, r
	}
	if major != 7 {
		if ai == 31 {
			d.p = at
			return Val{}, d.rej("indefinite(major%d)", major)
		}
		if !d.relaxed && minimalAI(arg) != ai {
			d.p = at
			return Val{}, d.rej("nonminimal-head(major%d,ai%d)", major, ai)
		}
	}
	if tagged && major != 2 {
		d.p = at
		if major == 6 {
			return Val{}, d.rej("tag-on-tag")
		}
		return Val{}, d.rej("tag-on-major%d", major)
	}
	switch major {
	case 0:
		return Uint(arg), nil
	case 1:
		if arg > math.MaxInt64 {
			d.p = at
			if arg == math.MaxUint64 {
				return Val{}, d.rej("negint-overflow(arg=2^64-1)")
			}
			return Val{}, d.rej("negint-overflow")
		}
		return Int(-1 - int64(arg)), nil
	case 2, 3:
		if arg > uint64(len(d.b)-d.p) {
			d.p = at
			return Val{}, d.rej("truncated")
		}
		s := string(d.b[d.p : d.p+int(arg)])
		d.p += int(arg)
		if major == 3 {
			return Str(s), nil
		}
		return Bytes(s), nil
	case 4:
		if arg > uint64(len(d.b)-d.p) {
			// each element needs ≥1 byte
			d.p = at
			return Val{}, d.rej("truncated")
		}
		v := List()
		for i := uint64(0); i < arg; i++ {
			c, r := d.item(false)
			if r != nil {
				return Val{}, r
			}
			v.L = append(v.L, c)
		}
		return v, nil
	case 5:
		if arg > uint64(len(d.b)-d.p) {
			d.p = at
			return Val{}, d.rej("truncated")
		}
		v := Map()
		seen := map[string]bool{}
		for i := uint64(0); i < arg; i++ {
			kat := d.p
			if d.p >= len(d.b) {
				return Val{}, d.rej("truncated")
			}
			if km := d.b[d.p] >> 5; km != 3 {
				// classify: the key head itself may be malformed; a well-formed non-string is "nonstring-key"
				return Val{}, d.rej("nonstring-key(major%d)", km)
			}
			k, r := d.item(false)
			if r != nil {
				return Val{}, r
			}
			if seen[k.S] && !d.relaxed {
				d.p = kat
				return Val{}, d.rej("dup-key")
			}
			seen[k.S] = true
			c, r := d.item(false)
			if r != nil {
				return Val{}, r
			}
			v.M = append(v.M, Entry{k.S, c})
		}
		return v, nil
	case 6:
		if arg != 42 {
			d.p = at
			// what follows decides the class; peek the major of the next item if any
			nm := -1
			save := d.p
			d.p = at
			d.head()
			if d.p < len(d.b) {
				nm = int(d.b[d.p] >> 5)
			}
			d.p = save
			if nm == 2 {
				return Val{}, d.rej("tag≠42-on-bytes")
			}
			if nm < 0 {
				return Val{}, d.rej("truncated")
			}
			if nm == 6 {
				return Val{}, d.rej("tag-on-tag")
			}
			return Val{}, d.rej("tag-on-major%d", nm)
		}
		if d.p >= len(d.b) {
			return Val{}, d.rej("truncated")
		}
		inner, r := d.item(true)
		if r != nil {
			return Val{}, r
		}
		if len(inner.S) < 1 || inner.S[0] != 0 {
			d.p = at
			return Val{}, d.rej("bad-cid-prefix")
		}
		if _, err := cid.Cast([]byte(inner.S[1:])); err != nil {
			d.p = at
			return Val{}, d.rej("bad-cid")
		}
		return Link(inner.S[1:]), nil
	case 7:
		switch ai {
		case 20:
			return Bool(false), nil
		case 21:
			return Bool(true), nil
		case 22, 23: // null; undefined is documented as read as null
			return Null(), nil
		case 25, 26, 27:
			var f float64
			switch ai {
			case 25:
				f = halfToFloat(uint16(arg))
			case 26:
				f = float64(math.Float32frombits(uint32(arg)))
			default:
				f = math.Float64frombits(arg)
			}
			if !d.relaxed {
				if math.IsNaN(f) {
					d.p = at
					return Val{}, d.rej("nan")
				}
				if math.IsInf(f, 0) {
					d.p = at
					return Val{}, d.rej("inf")
				}
			}
			return Float(f), nil
		case 31:
			d.p = at
			return Val{}, d.rej("break")
		default:
			d.p = at
			return Val{}, d.rej("simple-value")
		}
	}
	panic("unreachable")
}

// CborEncodeRaw encodes v keeping map entries in the order given (no sorting): used to produce
// deliberately non-canonical but tolerated inputs (unsorted keys) and invalid ones (duplicates).
func CborEncodeRaw(v Val) ([]byte, error) { return cborEncRaw(nil, v) }

func cborEncRaw(out []byte, v Val) ([]byte, error) {
	switch v.K {
	case KList:
		out = cborHead(out, 4, uint64(len(v.L)))
		for _, c := range v.L {
			var err error
			if out, err = cborEncRaw(out, c); err != nil {
				return nil, err
			}
		}
		return out, nil
	case KMap:
		out = cborHead(out, 5, uint64(len(v.M)))
		for _, e := range v.M {
			out = cborHead(out, 3, uint64(len(e.K)))
			out = append(out, e.K...)
			var err error
			if out, err = cborEncRaw(out, e.V); err != nil {
				return nil, err
			}
		}
		return out, nil
	}
	return cborEnc(out, v)
}

// Head describes one item head inside a valid encoding.
type Head struct {
	Off, Len int
	Major    byte
	AI       byte
	Arg      uint64
}

// CborHeads lists the heads of all items of a well-formed encoding, in byte order.
func CborHeads(b []byte) []Head {
	var out []Head
	d := &cdec{b: b, relaxed: true}
	var walk func() bool
	walk = func() bool {
		at := d.p
		major, ai, arg, r := d.head()
		if r != nil || ai == 31 && major != 7 {
			return false
		}
		out = append(out, Head{at, d.p - at, major, ai, arg})
		switch major {
		case 2, 3:
			if arg > uint64(len(b)-d.p) {
				return false
			}
			d.p += int(arg)
		case 4:
			for i := uint64(0); i < arg; i++ {
				if !walk() {
					return false
				}
			}
		case 5:
			for i := uint64(0); i < 2*arg; i++ {
				if !walk() {
					return false
				}
			}
		case 6:
			return walk()
		}
		return true
	}
	walk()
	return out
}

// CborHeadBytes renders a head for major/arg in the width selected by ai (24,25,26,27) or minimal (ai<24 → immediate).
// CborMinimalHead: the head of major type major with argument arg in its shortest form.
func CborMinimalHead(major byte, arg uint64) []byte {
	return CborHeadBytes(major, arg, minimalAI(arg))
}

func CborHeadBytes(major byte, arg uint64, ai byte) []byte {
	m := major << 5
	switch ai {
	case 24:
		return []byte{m | 24, byte(arg)}
	case 25:
		return []byte{m | 25, byte(arg >> 8), byte(arg)}
	case 26:
		return []byte{m | 26, byte(arg >> 24), byte(arg >> 16), byte(arg >> 8), byte(arg)}
	case 27:
		return binary.BigEndian.AppendUint64([]byte{m | 27}, arg)
	}
	return []byte{m | byte(arg)}
}
