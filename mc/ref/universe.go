package ref

import (
	"math"
	"strings"

	"github.com/ipfs/go-cid"
	mh "github.com/multiformats/go-multihash"
)

// ---- scalar alphabets: one value per shortcut visible in the code ----

func IntsFull() []Val {
	is := []int64{0, 1, -1, 23, 24, -24, -25, 255, 256, -256, -257, 65535, 65536, -65536, -65537,
		1<<32 - 1, 1 << 32, -(1 << 32), -(1 << 32) - 1, 1<<53 + 1, math.MaxInt64, math.MinInt64}
	var out []Val
	for _, i := range is {
		out = append(out, Int(i))
	}
	return out
}

func UintsBig() []Val { return []Val{Uint(1 << 63), Uint(math.MaxUint64)} }

func FloatsFinite() []Val {
	fs := []float64{0, math.Copysign(0, -1), 1, -1.5, 1e20, 1e21, 1e-6, 1e-7, 123456789012345680, 5e-324,
		math.MaxFloat64, 0.1, 1.5, -1, 100, 3.0e10, 65504, float64(float32(0.1)), -2.5e-300}
	var out []Val
	for _, f := range fs {
		out = append(out, Float(f))
	}
	return out
}

func FloatsNonFinite() []Val {
	return []Val{Float(math.Inf(1)), Float(math.Inf(-1)), Float(math.NaN())}
}

// StringsFull: arbitrary-bytes strings (valid and invalid UTF-8), head boundaries.
func StringsFull() []string {
	return []string{"", "a", "b", "aa", "ab", "B", "z", "é", " ", "😀", "\x00", "\xff", "/", "a/b", "..", "0", "1", "01", "-",
		"\"", "\\", "\n", " ", "\x7f", "\x1f", "a\"b\\c", "<>&", "\xc3", "\xed\xa0\x80",
		strings.Repeat("s", 23), strings.Repeat("s", 24), strings.Repeat("s", 255), strings.Repeat("s", 256)}
}

func StringsUTF8() []string {
	var out []string
	for _, s := range StringsFull() {
		if s == "\xff" || s == "\xc3" || s == "\xed\xa0\x80" {
			continue
		}
		out = append(out, s)
	}
	return out
}

func BytesFull() []string {
	return []string{"", "\x00", "\xff\x00", strings.Repeat("\x01", 23), strings.Repeat("\x01", 24), strings.Repeat("\xfe", 255), strings.Repeat("\xfe", 256), "hello"}
}

func mkCid(version uint64, codec uint64, hcode uint64, hlen int, data string) string {
	h, err := mh.Sum([]byte(data), hcode, hlen)
	if err != nil {
		panic(err)
	}
	var c cid.Cid
	if version == 0 {
		c = cid.NewCidV0(h)
	} else {
		c = cid.NewCidV1(codec, h)
	}
	return string(c.Bytes())
}

// MkIdentityCid is a CIDv1 (raw) over an identity multihash of d bytes.
func MkIdentityCid(d int) string { return mkCid(1, 0x55, mh.IDENTITY, -1, strings.Repeat("z", d)) }

var linksFull []string

// LinksFull: CIDv0, CIDv1 × {raw, dag-cbor, dag-json} × {sha2-256, sha2-512, sha2-256/20, identity}, and
// identity CIDs of 22, 23, 24, 254, 255 and 256 bytes.
func LinksFull() []string {
	if linksFull != nil {
		return linksFull
	}
	out := []string{mkCid(0, 0, mh.SHA2_256, -1, "v0")}
	for _, codec := range []uint64{0x55, 0x71, 0x0129} {
		out = append(out,
			mkCid(1, codec, mh.SHA2_256, -1, "x"),
			mkCid(1, codec, mh.SHA2_512, -1, "x"),
			mkCid(1, codec, mh.SHA2_256, 20, "x"),
			mkCid(1, codec, mh.IDENTITY, -1, "id"),
		)
	}
	out = append(out, mkCid(1, 0x71, mh.IDENTITY, -1, ""))
	// CIDs whose byte length sits on the head boundaries of the byte string that carries them (the
	// encoded string is one byte longer than the CID: 23|24 and 255|256)
	for _, d := range []int{18, 19, 20, 249, 250, 251} {
		out = append(out, mkCid(1, 0x55, mh.IDENTITY, -1, strings.Repeat("z", d)))
	}
	linksFull = out
	return out
}

// ScalarsFull is every alphabet value as a Val (uint and non-finite floats excluded; add them explicitly).
func ScalarsFull() []Val {
	out := []Val{Null(), Bool(true), Bool(false)}
	out = append(out, IntsFull()...)
	out = append(out, FloatsFinite()...)
	for _, s := range StringsFull() {
		out = append(out, Str(s))
	}
	for _, s := range BytesFull() {
		out = append(out, Bytes(s))
	}
	for _, s := range LinksFull() {
		out = append(out, Link(s))
	}
	return out
}

// LeavesSmall: two values per kind (one for null), used inside exhaustive shapes.
func LeavesSmall() []Val {
	l := LinksFull()
	return []Val{Null(), Bool(true), Bool(false), Int(0), Int(-25), Float(1.5), Float(0), Str(""), Str("a"),
		Bytes(""), Bytes("\xff\x00"), Link(l[0]), Link(l[1])}
}

// LeavesTiny: one value per kind.
func LeavesTiny() []Val {
	return []Val{Null(), Bool(true), Int(7), Float(1.5), Str("s"), Bytes("\x01"), Link(LinksFull()[1])}
}

// PosKeys are the keys given to map entries by position — deliberately not in sorted order under
// either comparator, and including the empty key.
var PosKeys = []string{"b", "a", "cc", "", "B", "aa"}

// Trees returns every ordered tree with at most n nodes over the given leaves; containers are
// lists and maps (keys by position from PosKeys).
func Trees(n int, leaves []Val) []Val {
	// exact[k] = all trees with exactly k nodes
	exact := make([][]Val, n+1)
	for k := 1; k <= n; k++ {
		if k == 1 {
			exact[1] = append(exact[1], leaves...)
		}
		// containers: children sizes compose k-1
		var seqs [][]Val
		var rec func(remaining int, cur []Val)
		rec = func(remaining int, cur []Val) {
			if remaining == 0 {
				seqs = append(seqs, append([]Val(nil), cur...))
				return
			}
			if len(cur) >= len(PosKeys) {
				return
			}
			for s := 1; s <= remaining; s++ {
				for _, c := range exact[s] {
					rec(remaining-s, append(cur, c))
				}
			}
		}
		rec(k-1, nil)
		for _, seq := range seqs {
			l := List(seq...)
			exact[k] = append(exact[k], l)
			m := Map()
			for i, c := range seq {
				m.M = append(m.M, Entry{PosKeys[i], c})
			}
			exact[k] = append(exact[k], m)
		}
	}
	var out []Val
	for k := 1; k <= n; k++ {
		out = append(out, exact[k]...)
	}
	return out
}

// Sweep places every scalar at every kind of position: root, list element, map value, map key (strings).
func Sweep(scalars []Val) []Val {
	var out []Val
	for _, s := range scalars {
		out = append(out, s, List(s), List(Int(1), s, Str("x")), Map(E("k", s)), Map(E("a", Int(1)), E("k", s)), List(Map(E("k", s))))
		if s.K == KString {
			out = append(out, Map(E(s.S, Int(1))), Map(E("zz", Null()), E(s.S, Bool(true))), Map(E(s.S, Map(E(s.S, Null())))))
		}
	}
	return out
}

// Permutations returns all permutations of 0..n-1.
func Permutations(n int) [][]int {
	var out [][]int
	p := make([]int, n)
	for i := range p {
		p[i] = i
	}
	var rec func(k int)
	rec = func(k int) {
		if k == n {
			out = append(out, append([]int(nil), p...))
			return
		}
		for i := k; i < n; i++ {
			p[k], p[i] = p[i], p[k]
			rec(k + 1)
			p[k], p[i] = p[i], p[k]
		}
	}
	rec(0)
	return out
}

// ComparatorKeys stress the key comparators: length-first vs bytewise, case, byte length vs rune
// count (é, 😀), and UTF-8 bytewise vs UTF-16 code-unit order (U+FF46 sorts after the non-BMP 😀
// by code units, before it bytewise).
var ComparatorKeys = []string{"a", "b", "aa", "ab", "B", "z", "é", "ee", "", "😀", "\uff46"}

// LinkOrderKeys: the comparator-relevant keys in a set small enough for the link-system sweeps.
var LinkOrderKeys = []string{"a", "aa", "ab", "B", "é", "😀", "\uff46", ""}

// Subsets of size k of idx 0..n-1.
func Subsets(n, k int) [][]int {
	var out [][]int
	var rec func(start int, cur []int)
	rec = func(start int, cur []int) {
		if len(cur) == k {
			out = append(out, append([]int(nil), cur...))
			return
		}
		for i := start; i < n; i++ {
			rec(i+1, append(cur, i))
		}
	}
	rec(0, nil)
	return out
}
