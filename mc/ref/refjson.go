package ref

import (
	"bytes"
	"encoding/base64"
	"encoding/json"
	"fmt"
	"io"
	"strconv"
	"strings"

	"github.com/ipfs/go-cid"
)

// JsonRead reads one DAG-JSON text with the standard library tokenizer (independent of refmt):
// it checks well-formedness, reports whether object keys are in bytewise order at every level,
// and returns the value the text denotes under the DAG-JSON reading rules (integer literal → int,
// other number → float, {"/": string} → link, {"/": {"bytes": string}} → bytes).
func JsonRead(b []byte) (v Val, sorted bool, err error) {
	dec := json.NewDecoder(bytes.NewReader(b))
	dec.UseNumber()
	sorted = true
	v, err = jsonValue(dec, &sorted)
	if err != nil {
		return Val{}, false, err
	}
	if _, err := dec.Token(); err != io.EOF {
		return Val{}, false, fmt.Errorf("trailing content after JSON value: %v", err)
	}
	return v, sorted, nil
}

func jsonValue(dec *json.Decoder, sorted *bool) (Val, error) {
	t, err := dec.Token()
	if err != nil {
		return Val{}, err
	}
	switch x := t.(type) {
	case nil:
		return Null(), nil
	case bool:
		return Bool(x), nil
	case string:
		return Str(x), nil
	case json.Number:
		s := x.String()
		if !strings.ContainsAny(s, ".eE") {
			if i, err := strconv.ParseInt(s, 10, 64); err == nil {
				return Int(i), nil
			}
			if u, err := strconv.ParseUint(s, 10, 64); err == nil {
				return Uint(u), nil
			}
			return Val{}, fmt.Errorf("integer literal out of range: %s", s)
		}
		f, err := strconv.ParseFloat(s, 64)
		if err != nil {
			return Val{}, err
		}
		return Float(f), nil
	case json.Delim:
		switch x {
		case '[':
			l := List()
			for dec.More() {
				c, err := jsonValue(dec, sorted)
				if err != nil {
					return Val{}, err
				}
				l.L = append(l.L, c)
			}
			if _, err := dec.Token(); err != nil {
				return Val{}, err
			}
			return l, nil
		case '{':
			m := Map()
			for dec.More() {
				kt, err := dec.Token()
				if err != nil {
					return Val{}, err
				}
				k, ok := kt.(string)
				if !ok {
					return Val{}, fmt.Errorf("non-string key")
				}
				if n := len(m.M); n > 0 && !(m.M[n-1].K < k) {
					*sorted = false
				}
				c, err := jsonValue(dec, sorted)
				if err != nil {
					return Val{}, err
				}
				m.M = append(m.M, Entry{k, c})
			}
			if _, err := dec.Token(); err != nil {
				return Val{}, err
			}
			if len(m.M) == 1 && m.M[0].K == "/" {
				in := m.M[0].V
				if in.K == KString {
					c, err := cid.Decode(in.S)
					if err != nil {
						return Val{}, fmt.Errorf("bad cid in link form: %v", err)
					}
					return Link(string(c.Bytes())), nil
				}
				if in.K == KMap && len(in.M) == 1 && in.M[0].K == "bytes" && in.M[0].V.K == KString {
					raw, err := base64.RawStdEncoding.DecodeString(in.M[0].V.S)
					if err != nil {
						return Val{}, fmt.Errorf("bad base64 in bytes form: %v", err)
					}
					return Bytes(string(raw)), nil
				}
			}
			return m, nil
		}
	}
	return Val{}, fmt.Errorf("unexpected token %v", t)
}

// JsonReserved reports whether v contains, anywhere, a shape DAG-JSON reserves.
func JsonReserved(v Val) bool {
	if v.K == KMap && len(v.M) == 1 && v.M[0].K == "/" {
		in := v.M[0].V
		if in.K == KString {
			return true
		}
		if in.K == KMap && len(in.M) == 1 && in.M[0].K == "bytes" && in.M[0].V.K == KString {
			return true
		}
	}
	for _, c := range v.L {
		if JsonReserved(c) {
			return true
		}
	}
	for _, e := range v.M {
		if JsonReserved(e.V) {
			return true
		}
	}
	return false
}
