package ref

import (
	"errors"

	"github.com/ipld/go-ipld-prime/datamodel"
)

// FailCtl makes the N-th data accessor call (0-based) on a wrapped node tree fail.
type FailCtl struct {
	Calls  int
	FailAt int // -1 = never
}

var ErrAccessor = errors.New("injected accessor failure")

func (c *FailCtl) tick() error {
	k := c.Calls
	c.Calls++
	if c.FailAt >= 0 && k == c.FailAt {
		return ErrAccessor
	}
	return nil
}

type faultNode struct {
	datamodel.Node
	c *FailCtl
}

// FaultNode wraps n so that accessor calls are counted and one of them can be made to fail.
func FaultNode(n datamodel.Node, c *FailCtl) datamodel.Node { return faultNode{n, c} }

func (f faultNode) wrap(n datamodel.Node, err error) (datamodel.Node, error) {
	if err != nil || n == nil {
		return n, err
	}
	return faultNode{n, f.c}, nil
}
func (f faultNode) LookupByString(k string) (datamodel.Node, error) {
	if err := f.c.tick(); err != nil {
		return nil, err
	}
	return f.wrap(f.Node.LookupByString(k))
}
func (f faultNode) LookupByNode(k datamodel.Node) (datamodel.Node, error) {
	if err := f.c.tick(); err != nil {
		return nil, err
	}
	return f.wrap(f.Node.LookupByNode(k))
}
func (f faultNode) LookupByIndex(i int64) (datamodel.Node, error) {
	if err := f.c.tick(); err != nil {
		return nil, err
	}
	return f.wrap(f.Node.LookupByIndex(i))
}
func (f faultNode) LookupBySegment(s datamodel.PathSegment) (datamodel.Node, error) {
	if err := f.c.tick(); err != nil {
		return nil, err
	}
	return f.wrap(f.Node.LookupBySegment(s))
}
func (f faultNode) AsBool() (bool, error) {
	if err := f.c.tick(); err != nil {
		return false, err
	}
	return f.Node.AsBool()
}
func (f faultNode) AsInt() (int64, error) {
	if err := f.c.tick(); err != nil {
		return 0, err
	}
	return f.Node.AsInt()
}
func (f faultNode) AsFloat() (float64, error) {
	if err := f.c.tick(); err != nil {
		return 0, err
	}
	return f.Node.AsFloat()
}
func (f faultNode) AsString() (string, error) {
	if err := f.c.tick(); err != nil {
		return "", err
	}
	return f.Node.AsString()
}
func (f faultNode) AsBytes() ([]byte, error) {
	if err := f.c.tick(); err != nil {
		return nil, err
	}
	return f.Node.AsBytes()
}
func (f faultNode) AsLink() (datamodel.Link, error) {
	if err := f.c.tick(); err != nil {
		return nil, err
	}
	return f.Node.AsLink()
}

type faultMapItr struct {
	it datamodel.MapIterator
	f  faultNode
}

func (i faultMapItr) Next() (datamodel.Node, datamodel.Node, error) {
	if err := i.f.c.tick(); err != nil {
		return nil, nil, err
	}
	k, v, err := i.it.Next()
	if err != nil {
		return nil, nil, err
	}
	return faultNode{k, i.f.c}, faultNode{v, i.f.c}, nil
}
func (i faultMapItr) Done() bool { return i.it.Done() }

type faultListItr struct {
	it datamodel.ListIterator
	f  faultNode
}

func (i faultListItr) Next() (int64, datamodel.Node, error) {
	if err := i.f.c.tick(); err != nil {
		return -1, nil, err
	}
	idx, v, err := i.it.Next()
	if err != nil {
		return idx, nil, err
	}
	return idx, faultNode{v, i.f.c}, nil
}
func (i faultListItr) Done() bool { return i.it.Done() }

func (f faultNode) MapIterator() datamodel.MapIterator {
	it := f.Node.MapIterator()
	if it == nil {
		return nil
	}
	return faultMapItr{it, f}
}
func (f faultNode) ListIterator() datamodel.ListIterator {
	it := f.Node.ListIterator()
	if it == nil {
		return nil
	}
	return faultListItr{it, f}
}
