// Package lsx: a link system over a harness-owned storage seam (the StorageReadOpener /
// StorageWriteOpener functions are the environment) with scripted faults, plus a hand-assembled
// reference for links.
package lsx

import (
	"crypto/sha256"
	"crypto/sha512"
	"encoding/binary"
	"errors"
	"fmt"
	"io"

	"github.com/ipfs/go-cid"
	"github.com/ipld/go-ipld-prime/datamodel"
	"github.com/ipld/go-ipld-prime/linking"
	cidlink "github.com/ipld/go-ipld-prime/linking/cid"
	mh "github.com/multiformats/go-multihash"
	mhcore "github.com/multiformats/go-multihash/core"

	_ "github.com/ipld/go-ipld-prime/codec/cbor"
	_ "github.com/ipld/go-ipld-prime/codec/dagcbor"
	_ "github.com/ipld/go-ipld-prime/codec/dagjson"
	_ "github.com/ipld/go-ipld-prime/codec/json"
	_ "github.com/ipld/go-ipld-prime/codec/raw"
)

var ErrInjected = errors.New("injected fault")

// ReadPlan scripts what the storage answers to one open+read.
type ReadPlan struct {
	OpenErr     bool
	Serve       []byte // bytes served instead of the stored ones (nil = stored)
	Chunks      []int  // sizes of successive Read results (then whatever is left in one go); 0 = a zero-length read
	ErrAt       int    // a read error is returned once this many bytes were served (-1 = never)
	EOFWithData bool   // final chunk returned together with io.EOF
	// Nested: before the k-th Read call of this read (1-based; 0 = never) the store runs Store.NestedFn —
	// another operation on the same link system overlapping with this one — with no plan of its own
	Nested int `json:"nested_operation_before_read_call,omitempty"`
}

// WritePlan scripts faults of one open+write+commit.
type WritePlan struct {
	OpenErr   bool
	FailWrite int  // the k-th Write call (0-based) fails (-1 = never)
	Short     bool // the failing write is a short write (n < len(p), err = io.ErrShortWrite) instead of 0,err
	CommitErr bool
}

type Store struct {
	M          map[string][]byte
	Reads      []string // binary links requested, in order
	Commits    []string
	WriteCalls int
	RP         *ReadPlan
	WP         *WritePlan
	Served     []byte // bytes actually handed to the caller by the last read
	NestedFn   func() `json:"-"` // see ReadPlan.Nested
}

func NewStore() *Store { return &Store{M: map[string][]byte{}} }

type planReader struct {
	s    *Store
	data []byte
	off  int
	p    ReadPlan
	ci   int
	done bool
	calls int
}

func (r *planReader) Read(p []byte) (int, error) {
	r.calls++
	if r.p.Nested == r.calls && r.s.NestedFn != nil {
		rp, served, reads := r.s.RP, r.s.Served, r.s.Reads
		r.s.RP = nil
		r.s.NestedFn()
		r.s.RP, r.s.Served, r.s.Reads = rp, served, reads
	}
	if r.p.ErrAt >= 0 && r.off >= r.p.ErrAt {
		return 0, ErrInjected
	}
	if r.off >= len(r.data) {
		return 0, io.EOF
	}
	n := len(r.data) - r.off
	if r.ci < len(r.p.Chunks) {
		n = r.p.Chunks[r.ci]
		r.ci++
		if n > len(r.data)-r.off {
			n = len(r.data) - r.off
		}
	}
	if n > len(p) {
		n = len(p)
	}
	if r.p.ErrAt >= 0 && r.off+n > r.p.ErrAt {
		n = r.p.ErrAt - r.off
	}
	copy(p, r.data[r.off:r.off+n])
	r.s.Served = append(r.s.Served, r.data[r.off:r.off+n]...)
	r.off += n
	if r.p.EOFWithData && r.off >= len(r.data) && n > 0 {
		return n, io.EOF
	}
	return n, nil
}

func (s *Store) ReadOpener(_ linking.LinkContext, lnk datamodel.Link) (io.Reader, error) {
	s.Reads = append(s.Reads, lnk.Binary())
	s.Served = nil
	plan := ReadPlan{ErrAt: -1}
	if s.RP != nil {
		plan = *s.RP
	}
	if plan.OpenErr {
		return nil, ErrInjected
	}
	data, ok := s.M[lnk.Binary()]
	if plan.Serve != nil {
		data, ok = plan.Serve, true
	}
	if !ok {
		return nil, fmt.Errorf("block not found")
	}
	return &planReader{s: s, data: data, p: plan}, nil
}

type planWriter struct {
	s   *Store
	buf []byte
	p   WritePlan
	k   int
}

func (w *planWriter) Write(p []byte) (int, error) {
	k := w.k
	w.k++
	w.s.WriteCalls++
	if w.p.FailWrite >= 0 && k == w.p.FailWrite {
		if w.p.Short && len(p) > 0 {
			w.buf = append(w.buf, p[:len(p)/2]...)
			return len(p) / 2, io.ErrShortWrite
		}
		return 0, ErrInjected
	}
	w.buf = append(w.buf, p...)
	return len(p), nil
}

func (s *Store) WriteOpener(_ linking.LinkContext) (io.Writer, linking.BlockWriteCommitter, error) {
	plan := WritePlan{FailWrite: -1}
	if s.WP != nil {
		plan = *s.WP
	}
	if plan.OpenErr {
		return nil, nil, ErrInjected
	}
	w := &planWriter{s: s, p: plan}
	return w, func(lnk datamodel.Link) error {
		s.Commits = append(s.Commits, lnk.Binary())
		if plan.CommitErr {
			return ErrInjected
		}
		s.M[lnk.Binary()] = append([]byte(nil), w.buf...)
		return nil
	}, nil
}

func NewLinkSystem(s *Store) *linking.LinkSystem {
	ls := cidlink.DefaultLinkSystem()
	ls.StorageReadOpener = s.ReadOpener
	ls.StorageWriteOpener = s.WriteOpener
	return &ls
}

// Proto is a link prototype description.
type Proto struct {
	Version  uint64 `json:"version"`
	Codec    uint64 `json:"codec"`
	MhType   uint64 `json:"mh"`
	MhLength int    `json:"mhlen"`
}

func (p Proto) LP() cidlink.LinkPrototype {
	return cidlink.LinkPrototype{Prefix: cid.Prefix{Version: p.Version, Codec: p.Codec, MhType: p.MhType, MhLength: p.MhLength}}
}

func (p Proto) String() string {
	return fmt.Sprintf("v%d/codec0x%x/mh0x%x/len%d", p.Version, p.Codec, p.MhType, p.MhLength)
}

func uvarint(out []byte, x uint64) []byte { return binary.AppendUvarint(out, x) }

// RefLink assembles, by hand, the binary CID that prototype p gives to a block: supported for
// sha2-256, sha2-512 and identity; ok=false for other hash functions.
func RefLink(p Proto, block []byte) (bin string, ok bool) {
	var digest []byte
	switch p.MhType {
	case mh.SHA2_256:
		d := sha256.Sum256(block)
		digest = d[:]
	case mh.SHA2_512:
		d := sha512.Sum512(block)
		digest = d[:]
	case mh.IDENTITY:
		digest = block
	default:
		return "", false
	}
	if p.MhType != mh.IDENTITY && p.MhLength >= 0 {
		if p.MhLength > len(digest) {
			return "", false
		}
		digest = digest[:p.MhLength]
	}
	var mhb []byte
	mhb = uvarint(mhb, p.MhType)
	mhb = uvarint(mhb, uint64(len(digest)))
	mhb = append(mhb, digest...)
	if p.Version == 0 {
		if p.MhType != mh.SHA2_256 || len(digest) != 32 {
			return "", false
		}
		return string(mhb), true
	}
	var out []byte
	out = uvarint(out, 1)
	out = uvarint(out, p.Codec)
	return string(append(out, mhb...)), true
}

// RawTwin: the CIDv1 that names the same multihash under the raw codec (another link to the same bytes).
func RawTwin(bin string) string {
	c, err := cid.Cast([]byte(bin))
	if err != nil {
		panic("harness: not a CID: " + err.Error())
	}
	return string(cid.NewCidV1(0x55, c.Hash()).Bytes())
}

func LinkBin(l datamodel.Link) string {
	switch x := l.(type) {
	case cidlink.Link:
		return string(x.Cid.Bytes())
	case *cidlink.Link:
		return string(x.Cid.Bytes())
	}
	return l.Binary()
}

// HashLink computes the binary CID for a block with the registered hasher (go-multihash is the
// trusted base here); used where RefLink has no hand-written digest.
func HashLink(p Proto, block []byte) (string, bool) {
	if s, ok := RefLink(p, block); ok {
		return s, true
	}
	h, err := mhcore.GetHasher(p.MhType)
	if err != nil {
		return "", false
	}
	h.Write(block)
	d := h.Sum(nil)
	if p.MhLength >= 0 {
		if p.MhLength > len(d) {
			return "", false
		}
		d = d[:p.MhLength]
	}
	var mhb []byte
	mhb = uvarint(mhb, p.MhType)
	mhb = uvarint(mhb, uint64(len(d)))
	mhb = append(mhb, d...)
	var out []byte
	out = uvarint(out, 1)
	out = uvarint(out, p.Codec)
	return string(append(out, mhb...)), true
}
