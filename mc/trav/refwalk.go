package trav

import (
	"strconv"

	"github.com/ipld/go-ipld-prime/datamodel"

	"verif/mc/ref"
)

// Visit is one expected or observed visit.
type Visit struct {
	Path   string  `json:"path"`
	Reason byte    `json:"reason"` // 'm' match, 'x' candidate
	Node   ref.Val `json:"node"`
	P      []datamodel.PathSegment `json:"-"` // the real Progress.Path segments (library walks only)
}

// Graph is a root value plus the blocks reachable through links (by CID binary), as the
// reference sees them. Blocks holds the value a load returns (maps in the codec's order).
type Graph struct {
	Root   ref.Val
	Blocks map[string]ref.Val
}

type env struct {
	R     *Sel
	depth int64 // remaining; -1 = none
	outer *env
}

type active struct {
	s *Sel
	e *env
}

// resolve flattens a (present) selector into its active primitive clauses. unfolding holds the
// recursive selectors being unfolded since the last step: an edge met again without a step in
// between is unguarded and denotes nothing.
func resolve(s *Sel, e *env, unfolding map[*Sel]bool) []active {
	switch s.Op {
	case "|":
		var out []active
		for _, m := range s.Members {
			out = append(out, resolve(m, e, unfolding)...)
		}
		return out
	case "R":
		ne := &env{R: s, depth: s.Limit, outer: e}
		return resolve(s.Next, ne, with(unfolding, s))
	case "@":
		if e == nil || unfolding[e.R] {
			return nil
		}
		switch {
		case e.depth == -1:
			return resolve(e.R.Next, e, with(unfolding, e.R))
		case e.depth >= 2:
			return resolve(e.R.Next, &env{R: e.R, depth: e.depth - 1, outer: e.outer}, with(unfolding, e.R))
		}
		return nil
	}
	return []active{{s, e}}
}

func with(m map[*Sel]bool, s *Sel) map[*Sel]bool {
	n := make(map[*Sel]bool, len(m)+1)
	for k, v := range m {
		n[k] = v
	}
	n[s] = true
	return n
}

// present: does stepping onto a child with selector s (in environment e) hand the child a selector at all?
func present(s *Sel, e *env) bool {
	switch s.Op {
	case "@":
		return e != nil && (e.depth == -1 || e.depth >= 2)
	case "|":
		for _, m := range s.Members {
			if present(m, e) {
				return true
			}
		}
		return false
	}
	return true
}

func segIndex(seg string) (int64, bool) {
	i, err := strconv.ParseInt(seg, 10, 64)
	if err != nil || i < 0 {
		return 0, false
	}
	return i, true
}

// step: the selector an active clause hands to child seg of node n (nil = absent).
func step(a active, n ref.Val, seg string) *Sel {
	switch a.s.Op {
	case "all":
		return a.s.Next
	case "f":
		for _, f := range a.s.Fields {
			if f.Name == seg {
				return f.S
			}
		}
	case "i":
		if n.K == ref.KList {
			if i, ok := segIndex(seg); ok && i == a.s.Index {
				return a.s.Next
			}
		}
	case "r":
		if n.K == ref.KList {
			if i, ok := segIndex(seg); ok && i >= a.s.Start && i < a.s.End {
				return a.s.Next
			}
		}
	}
	return nil
}

// SliceBounds: the subset matcher's normalisation (negative = from the end; clamped; empty node or
// from beyond the end = no match).
func SliceBounds(from, to, length int64) (bool, int64, int64) {
	if to < 0 {
		to += length
	} else if to > length {
		to = length
	}
	if from < 0 {
		from += length
		if from < 0 {
			from = 0
		}
	}
	if from > to || from >= length {
		return false, 0, 0
	}
	return true, from, to
}

func matchOf(acts []active, n ref.Val) (ref.Val, bool) {
	for _, a := range acts {
		if a.s.Op != "." {
			continue
		}
		if a.s.Subset == nil {
			return n, true
		}
		if n.K == ref.KString || n.K == ref.KBytes {
			if ok, f, t := SliceBounds(a.s.Subset[0], a.s.Subset[1], int64(len(n.S))); ok {
				return ref.Val{K: n.K, S: n.S[f:t]}, true
			}
		}
	}
	return ref.Val{}, false
}

type child struct {
	seg string
	v   ref.Val
}

func childrenOf(n ref.Val) []child {
	var out []child
	switch n.K {
	case ref.KList:
		for i, c := range n.L {
			out = append(out, child{strconv.Itoa(i), c})
		}
	case ref.KMap:
		for _, e := range n.M {
			out = append(out, child{e.K, e.V})
		}
	}
	return out
}

func lookupChild(n ref.Val, seg string) (ref.Val, bool) {
	switch n.K {
	case ref.KList:
		if i, ok := segIndex(seg); ok && i < int64(len(n.L)) && strconv.FormatInt(i, 10) == seg {
			return n.L[i], true
		}
	case ref.KMap:
		for _, e := range n.M {
			if e.K == seg {
				return e.V, true
			}
		}
	}
	return ref.Val{}, false
}

// RefWalk is the expected result of a walk.
type RefWalk struct {
	Visits []Visit
	Loads  []string // links requested, in order
	Err    string   // "" or "load-failed"
	// BlockOf[i] = index into Loads of the block visit i lies in (-1 = root block)
	BlockOf []int
	// ParentBlock[j] = index of the block from which load j was made (-1 = root block)
	ParentBlock []int
}

type refWalker struct {
	g   Graph
	out RefWalk
	cur int
}

func stopMatches(e *env, v ref.Val) bool {
	for ; e != nil; e = e.outer {
		if e.R.StopAt != "" && v.K == ref.KLink && v.S == e.R.StopAt {
			return true
		}
	}
	return false
}

// ReifyVal: the reference reifiers. "rev" reverses the children of a list or map; "box" puts the node
// into a one-element list.
func ReifyVal(name string, v ref.Val) ref.Val {
	switch name {
	case "rev":
		switch v.K {
		case ref.KList:
			o := ref.List()
			for i := len(v.L) - 1; i >= 0; i-- {
				o.L = append(o.L, v.L[i])
			}
			return o
		case ref.KMap:
			o := ref.Map()
			for i := len(v.M) - 1; i >= 0; i-- {
				o.M = append(o.M, v.M[i])
			}
			return o
		}
		return v
	case "box":
		return ref.List(v)
	}
	panic("harness: unknown reifier " + name)
}

func (w *refWalker) walk(n ref.Val, acts []active, path string) bool {
	if len(acts) == 1 && acts[0].s.Op == "~" {
		// the clause was handed to this node directly: reify, go on with its next selector
		n = ReifyVal(acts[0].s.As, n)
		acts = resolve(acts[0].s.Next, acts[0].e, nil)
	}
	if m, ok := matchOf(acts, n); ok {
		w.out.Visits = append(w.out.Visits, Visit{Path: path, Reason: 'm', Node: m})
	} else {
		w.out.Visits = append(w.out.Visits, Visit{Path: path, Reason: 'x', Node: n})
	}
	w.out.BlockOf = append(w.out.BlockOf, w.cur)
	if n.K != ref.KList && n.K != ref.KMap {
		return true
	}
	// order of children
	exploreAll := false
	for _, a := range acts {
		if a.s.Op == "all" {
			exploreAll = true
		}
	}
	var order []child
	if exploreAll {
		order = childrenOf(n)
	} else {
		seen := map[string]bool{}
		add := func(seg string) {
			if seen[seg] {
				return
			}
			if c, ok := lookupChild(n, seg); ok {
				seen[seg] = true
				order = append(order, child{seg, c})
			}
		}
		for _, a := range acts {
			switch a.s.Op {
			case "f":
				for _, f := range a.s.Fields {
					add(f.Name)
				}
			case "i":
				if n.K == ref.KList {
					add(strconv.FormatInt(a.s.Index, 10))
				}
			case "r":
				if n.K == ref.KList {
					for i := a.s.Start; i < a.s.End && i < int64(len(n.L)); i++ {
						if i >= 0 {
							add(strconv.FormatInt(i, 10))
						}
					}
				}
			}
		}
	}
	for _, c := range order {
		var next []active
		any := false
		for _, a := range acts {
			if stopMatches(a.e, c.v) {
				continue
			}
			s := step(a, n, c.seg)
			if s == nil || !present(s, a.e) {
				continue
			}
			any = true
			next = append(next, resolve(s, a.e, nil)...)
		}
		if !any {
			continue
		}
		cpath := c.seg
		if path != "" {
			cpath = path + "/" + c.seg
		}
		cv := c.v
		saved := w.cur
		if cv.K == ref.KLink {
			w.out.Loads = append(w.out.Loads, cv.S)
			w.out.ParentBlock = append(w.out.ParentBlock, saved)
			blk, ok := w.g.Blocks[cv.S]
			if !ok {
				w.out.Err = "load-failed"
				return false
			}
			w.cur = len(w.out.Loads) - 1
			cv = blk
		}
		if !w.walk(cv, next, cpath) {
			return false
		}
		w.cur = saved
	}
	return true
}

// Denote computes the visits the selector denotes over the graph.
func Denote(g Graph, s *Sel) RefWalk {
	w := &refWalker{g: g, cur: -1}
	w.walk(g.Root, resolve(s, nil, nil), "")
	return w.out
}
