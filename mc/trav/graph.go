package trav

import (
	"fmt"
	"io"
	"strconv"

	_ "github.com/ipld/go-ipld-prime/codec/raw"
	"github.com/ipld/go-ipld-prime/datamodel"
	"github.com/ipld/go-ipld-prime/linking"
	"github.com/ipld/go-ipld-prime/node/basicnode"
	"github.com/ipld/go-ipld-prime/traversal"
	"github.com/ipld/go-ipld-prime/traversal/selector"
	mh "github.com/multiformats/go-multihash"

	"verif/mc/core"
	"verif/mc/lsx"
	"verif/mc/ref"
)

// GraphSpec: a tree plus the preorder indexes of the nodes that are cut out into their own blocks.
type GraphSpec struct {
	Tree  ref.Val `json:"tree"`
	Cuts  []int   `json:"cuts,omitempty"`
	Codec uint64  `json:"codec,omitempty"` // 0 = dag-cbor
	// Twins: every cut block is linked a second time, right after the first link in the same parent
	// (next list element / entry "<key>~raw"), by the CID that names the same multihash under the raw
	// codec: two different links, one hash, the second loading as a bytes node.
	Twins bool `json:"raw_twins,omitempty"`
}

func (g GraphSpec) String() string {
	if g.Twins {
		return fmt.Sprintf("%s cuts=%v +raw twins", g.Tree, g.Cuts)
	}
	return fmt.Sprintf("%s cuts=%v", g.Tree, g.Cuts)
}

var blockProto = lsx.Proto{Version: 1, Codec: 0x71, MhType: mh.SHA2_256, MhLength: -1}

// DanglingLink is a well-formed link to a block that is never stored.
var DanglingLink = func() string {
	s, _ := lsx.RefLink(blockProto, []byte("never stored"))
	return s
}()

// Built is a graph realised in a real link system.
type Built struct {
	Spec  GraphSpec
	G     Graph
	Root  datamodel.Node
	Store *lsx.Store
	LS    *linking.LinkSystem
	Links []string // links created by cuts, in creation order
}

func canonFor(codec uint64, v ref.Val) ref.Val {
	if codec == 0x0129 {
		return ref.SortMaps(v, ref.LessBytewise)
	}
	return ref.SortMaps(v, ref.LessLenFirst)
}

// Build stores the cut blocks through a real link system and returns root node + reference graph.
func Build(spec GraphSpec) *Built {
	st := lsx.NewStore()
	ls := lsx.NewLinkSystem(st)
	b := &Built{Spec: spec, Store: st, LS: ls, G: Graph{Blocks: map[string]ref.Val{}}}
	proto := blockProto
	if spec.Codec != 0 {
		proto.Codec = spec.Codec
	}
	cut := map[int]bool{}
	for _, c := range spec.Cuts {
		cut[c] = true
	}
	idx := 0
	twin := map[string]string{}
	var rec func(v ref.Val) ref.Val
	rec = func(v ref.Val) ref.Val {
		my := idx
		idx++
		out := v
		switch v.K {
		case ref.KList:
			out = ref.List()
			for _, c := range v.L {
				cv := rec(c)
				out.L = append(out.L, cv)
				if tw, ok := twin[cv.S]; ok && cv.K == ref.KLink {
					out.L = append(out.L, ref.Link(tw))
				}
			}
		case ref.KMap:
			out = ref.Map()
			for _, e := range v.M {
				cv := rec(e.V)
				out.M = append(out.M, ref.Entry{K: e.K, V: cv})
				if tw, ok := twin[cv.S]; ok && cv.K == ref.KLink {
					out.M = append(out.M, ref.Entry{K: e.K + "~raw", V: ref.Link(tw)})
				}
			}
		}
		if cut[my] && my != 0 {
			l, err := ls.Store(linking.LinkContext{}, proto.LP(), ref.Basic(out))
			if err != nil {
				panic("harness: store block: " + err.Error())
			}
			bin := lsx.LinkBin(l)
			b.G.Blocks[bin] = canonFor(proto.Codec, out)
			b.Links = append(b.Links, bin)
			if spec.Twins {
				tw := lsx.RawTwin(bin)
				st.M[tw] = st.M[bin]
				b.G.Blocks[tw] = ref.Bytes(string(st.M[bin]))
				b.Links = append(b.Links, tw)
				twin[bin] = tw
			}
			return ref.Link(bin)
		}
		return out
	}
	b.G.Root = rec(spec.Tree)
	b.Root = ref.Basic(b.G.Root)
	st.Reads = nil
	return b
}

// LibWalk is what a real walk did.
type LibWalk struct {
	Visits []Visit
	Loads  []string
	Err    string // "" | class of the error | "PANIC:…"
	ErrObj error
	Result datamodel.Node // what a transforming walk returned
}

type WalkOpts struct {
	Transforming bool // WalkTransforming with an identity function; the callbacks are recorded as 'm' visits
	Matching    bool
	NodeBudget  int64 // <0 = none
	LinkBudget  int64
	StartAt     []string // path segments
	HaveStartAt bool
	Once        bool
	Skip        map[string]bool // links the loader answers with SkipMe
	// PackageLevel: the package-level functions traversal.WalkAdv / WalkMatching / WalkTransforming
	// (a zero Progress: no link system, no controls) instead of the Progress methods
	PackageLevel bool
}

func NoOpts() WalkOpts { return WalkOpts{NodeBudget: -1, LinkBudget: -1} }

// RunWalk runs WalkAdv (or WalkMatching) on the real code.
func RunWalk(b *Built, root datamodel.Node, s selector.Selector, o WalkOpts) LibWalk {
	var out LibWalk
	b.Store.Reads = nil
	ls := *b.LS
	ls.KnownReifiers = Reifiers
	cfg := &traversal.Config{
		LinkSystem: ls,
		LinkTargetNodePrototypeChooser: func(datamodel.Link, linking.LinkContext) (datamodel.NodePrototype, error) {
			return basicnode.Prototype.Any, nil
		},
		LinkVisitOnlyOnce: o.Once,
	}
	if len(o.Skip) > 0 {
		base := b.LS.StorageReadOpener
		cfg.LinkSystem.StorageReadOpener = func(lc linking.LinkContext, l datamodel.Link) (io.Reader, error) {
			if o.Skip[lsx.LinkBin(l)] {
				b.Store.Reads = append(b.Store.Reads, l.Binary())
				return nil, traversal.SkipMe{}
			}
			return base(lc, l)
		}
	}
	if o.HaveStartAt {
		var segs []datamodel.PathSegment
		for _, s := range o.StartAt {
			segs = append(segs, datamodel.PathSegmentOfString(s))
		}
		cfg.StartAtPath = datamodel.NewPath(segs)
	}
	prog := traversal.Progress{Cfg: cfg}
	if o.NodeBudget >= 0 || o.LinkBudget >= 0 {
		bud := &traversal.Budget{NodeBudget: 1 << 40, LinkBudget: 1 << 40}
		if o.NodeBudget >= 0 {
			bud.NodeBudget = o.NodeBudget
		}
		if o.LinkBudget >= 0 {
			bud.LinkBudget = o.LinkBudget
		}
		prog.Budget = bud
	}
	var err error
	pan := core.Guard(func() {
		if o.PackageLevel {
			switch {
			case o.Transforming:
				out.Result, err = traversal.WalkTransforming(root, s, func(p traversal.Progress, n datamodel.Node) (datamodel.Node, error) {
					v, _ := ref.Read1(n)
					out.Visits = append(out.Visits, Visit{p.Path.String(), 'm', v, p.Path.Segments()})
					return n, nil
				})
			case o.Matching:
				err = traversal.WalkMatching(root, s, func(p traversal.Progress, n datamodel.Node) error {
					v, _ := ref.Read1(n)
					out.Visits = append(out.Visits, Visit{p.Path.String(), 'm', v, p.Path.Segments()})
					return nil
				})
			default:
				err = traversal.WalkAdv(root, s, func(p traversal.Progress, n datamodel.Node, r traversal.VisitReason) error {
					v, _ := ref.Read1(n)
					out.Visits = append(out.Visits, Visit{p.Path.String(), byte(r), v, p.Path.Segments()})
					return nil
				})
			}
			return
		}
		if o.Transforming {
			keys := map[string]bool{}
			for k := range b.Store.M {
				keys[k] = true
			}
			out.Result, err = prog.WalkTransforming(root, s, func(p traversal.Progress, n datamodel.Node) (datamodel.Node, error) {
				v, _ := ref.Read1(n)
				out.Visits = append(out.Visits, Visit{p.Path.String(), 'm', v, p.Path.Segments()})
				return n, nil
			})
			for k := range b.Store.M {
				if !keys[k] {
					delete(b.Store.M, k)
				}
			}
		} else if o.Matching {
			err = prog.WalkMatching(root, s, func(p traversal.Progress, n datamodel.Node) error {
				v, _ := ref.Read1(n)
				out.Visits = append(out.Visits, Visit{p.Path.String(), 'm', v, p.Path.Segments()})
				return nil
			})
		} else {
			err = prog.WalkAdv(root, s, func(p traversal.Progress, n datamodel.Node, r traversal.VisitReason) error {
				v, _ := ref.Read1(n)
				out.Visits = append(out.Visits, Visit{p.Path.String(), byte(r), v, p.Path.Segments()})
				return nil
			})
		}
	})
	out.Loads = append([]string(nil), b.Store.Reads...)
	if pan != "" {
		out.Err = "PANIC:" + core.Class(pan)
	} else if err != nil {
		out.Err = core.Class(err.Error())
		out.ErrObj = err
	}
	return out
}


// GraphLeaves are the scalar leaves used in generated graphs.
func GraphLeaves(withDangling bool) []ref.Val {
	l := []ref.Val{ref.Int(7), ref.Str("xyz"), ref.Bytes("\x01\x02\x03")}
	if withDangling {
		l = append(l, ref.Link(DanglingLink))
	}
	return l
}

var graphKeys = []string{"a", "b", "0"}

// GraphTrees: every tree with ≤ n nodes over leaves; map keys by position from a,b,0.
func GraphTrees(n int, leaves []ref.Val) []ref.Val {
	exact := make([][]ref.Val, n+1)
	for k := 1; k <= n; k++ {
		if k == 1 {
			exact[1] = append(exact[1], leaves...)
		}
		var seqs [][]ref.Val
		var rec func(rem int, cur []ref.Val)
		rec = func(rem int, cur []ref.Val) {
			if rem == 0 {
				seqs = append(seqs, append([]ref.Val(nil), cur...))
				return
			}
			if len(cur) >= len(graphKeys) {
				return
			}
			for s := 1; s <= rem; s++ {
				for _, c := range exact[s] {
					rec(rem-s, append(cur, c))
				}
			}
		}
		rec(k-1, nil)
		for _, seq := range seqs {
			exact[k] = append(exact[k], ref.List(seq...))
			m := ref.Map()
			for i, c := range seq {
				m.M = append(m.M, ref.Entry{K: graphKeys[i], V: c})
			}
			exact[k] = append(exact[k], m)
		}
	}
	var out []ref.Val
	for k := 1; k <= n; k++ {
		out = append(out, exact[k]...)
	}
	return out
}

// CutSets: every subset (up to maxCuts elements) of the non-root nodes (containers only if containersOnly).
func CutSets(tree ref.Val, maxCuts int, containersOnly bool) [][]int {
	var cand []int
	idx := 0
	var rec func(v ref.Val)
	rec = func(v ref.Val) {
		my := idx
		idx++
		if my != 0 && (!containersOnly || v.K == ref.KList || v.K == ref.KMap) && !(v.K == ref.KLink) {
			cand = append(cand, my)
		}
		for _, c := range v.L {
			rec(c)
		}
		for _, e := range v.M {
			rec(e.V)
		}
	}
	rec(tree)
	out := [][]int{nil}
	for k := 1; k <= maxCuts && k <= len(cand); k++ {
		for _, sub := range ref.Subsets(len(cand), k) {
			var c []int
			for _, i := range sub {
				c = append(c, cand[i])
			}
			out = append(out, c)
		}
	}
	return out
}

// Config returns a traversal config over the built graph's link system.
// Reifiers: the real counterparts of ReifyVal, for LinkSystem.KnownReifiers.
var Reifiers = func() map[string]linking.NodeReifier {
	mk := func(name string) linking.NodeReifier {
		return func(_ linking.LinkContext, n datamodel.Node, _ *linking.LinkSystem) (datamodel.Node, error) {
			v, pan := ref.Read1(n)
			if pan != "" {
				return nil, fmt.Errorf("harness: cannot read the node to reify: %s", pan)
			}
			return ref.Basic(ReifyVal(name, v)), nil
		}
	}
	return map[string]linking.NodeReifier{"rev": mk("rev"), "box": mk("box")}
}()

func (b *Built) Config() *traversal.Config {
	ls := *b.LS
	ls.KnownReifiers = Reifiers
	return &traversal.Config{
		LinkSystem: ls,
		LinkTargetNodePrototypeChooser: func(datamodel.Link, linking.LinkContext) (datamodel.NodePrototype, error) {
			return basicnode.Prototype.Any, nil
		},
	}
}

// Resolve is the reference path resolver: maps by exact key, lists by canonical decimal index in
// range, links followed (through the graph's blocks) after every step. status: "ok", "missing"
// (a segment does not exist / scalar reached early / block missing), "unspecified" (a non-canonical
// numeral applied to a list).
func Resolve(g Graph, segs []string) (ref.Val, string) {
	n := g.Root
	for _, seg := range segs {
		switch n.K {
		case ref.KMap:
			c, ok := lookupChild(n, seg)
			if !ok {
				return ref.Val{}, "missing"
			}
			n = c
		case ref.KList:
			c, ok := lookupChild(n, seg)
			if !ok {
				if _, err := strconv.ParseInt(seg, 10, 64); err == nil && strconv.Itoa(atoiSafe(seg)) != seg {
					return ref.Val{}, "unspecified"
				}
				return ref.Val{}, "missing"
			}
			n = c
		default:
			return ref.Val{}, "missing"
		}
		for n.K == ref.KLink {
			blk, ok := g.Blocks[n.S]
			if !ok {
				return ref.Val{}, "missing"
			}
			n = blk
		}
	}
	return n, "ok"
}

func atoiSafe(s string) int {
	i, _ := strconv.Atoi(s)
	return i
}
