// Package trav: shared machinery for the traversal properties (C07, C10, C14, C15, C16):
// a selector AST with its data-model rendering, an independent reference denotation written by
// substitution (not from Interests/Explore), block-graph generation, and a runner for real walks.
package trav

import (
	"fmt"
	"strings"

	"github.com/ipld/go-ipld-prime/traversal/selector"
	"github.com/ipld/go-ipld-prime/traversal/selector/builder"

	"verif/mc/ref"
)

type Field struct {
	Name string `json:"name"`
	S    *Sel   `json:"sel"`
}

// Sel is a selector AST. Op: "." matcher, "all", "f" fields, "i" index, "r" range, "|" union,
// "R" recursive, "@" edge.
type Sel struct {
	Op      string    `json:"op"`
	Subset  *[2]int64 `json:"subset,omitempty"`
	Fields  []Field   `json:"fields,omitempty"`
	Index   int64     `json:"index,omitempty"`
	Start   int64     `json:"start,omitempty"`
	End     int64     `json:"end,omitempty"`
	Members []*Sel    `json:"members,omitempty"`
	Next    *Sel      `json:"next,omitempty"` // next / sequence
	Limit   int64     `json:"limit,omitempty"` // R: depth, -1 = none
	StopAt  string    `json:"stop_at_hex,omitempty"`
	As      string    `json:"as,omitempty"` // "~": the named reifier (see Reifiers)
}

// As is an interpret-as clause: the node is replaced by what the named reifier makes of it, and the
// walk goes on with next on that node. (Generated only where the clause is handed to a node directly:
// what it means as a union member or as the body of a recursion is not written down anywhere.)
func As(name string, n *Sel) *Sel { return &Sel{Op: "~", As: name, Next: n} }

func M() *Sel                       { return &Sel{Op: "."} }
func Sub(from, to int64) *Sel       { return &Sel{Op: ".", Subset: &[2]int64{from, to}} }
func All(n *Sel) *Sel               { return &Sel{Op: "all", Next: n} }
func Idx(i int64, n *Sel) *Sel      { return &Sel{Op: "i", Index: i, Next: n} }
func Rng(s, e int64, n *Sel) *Sel   { return &Sel{Op: "r", Start: s, End: e, Next: n} }
func Un(m ...*Sel) *Sel             { return &Sel{Op: "|", Members: m} }
func Rec(limit int64, seq *Sel) *Sel { return &Sel{Op: "R", Limit: limit, Next: seq} }
func Edge() *Sel                    { return &Sel{Op: "@"} }
func Fld(fs ...Field) *Sel          { return &Sel{Op: "f", Fields: fs} }
func F1(name string, s *Sel) Field  { return Field{name, s} }

func (s *Sel) String() string {
	switch s.Op {
	case ".":
		if s.Subset != nil {
			return fmt.Sprintf(".[%d:%d]", s.Subset[0], s.Subset[1])
		}
		return "."
	case "@":
		return "@"
	case "all":
		return "a(" + s.Next.String() + ")"
	case "~":
		return "~" + s.As + "(" + s.Next.String() + ")"
	case "i":
		return fmt.Sprintf("i%d(%s)", s.Index, s.Next)
	case "r":
		return fmt.Sprintf("r%d-%d(%s)", s.Start, s.End, s.Next)
	case "f":
		var p []string
		for _, f := range s.Fields {
			p = append(p, f.Name+">"+f.S.String())
		}
		return "f{" + strings.Join(p, ",") + "}"
	case "|":
		var p []string
		for _, m := range s.Members {
			p = append(p, m.String())
		}
		return "|[" + strings.Join(p, ",") + "]"
	case "R":
		l := "none"
		if s.Limit >= 0 {
			l = fmt.Sprint(s.Limit)
		}
		st := ""
		if s.StopAt != "" {
			st = "!"
		}
		return "R" + l + st + "(" + s.Next.String() + ")"
	}
	return "?"
}

func (s *Sel) Clauses() int {
	n := 1
	if s.Next != nil {
		n += s.Next.Clauses()
	}
	for _, f := range s.Fields {
		n += f.S.Clauses()
	}
	for _, m := range s.Members {
		n += m.Clauses()
	}
	return n
}

// Spec renders the selector as its data-model spec tree.
func (s *Sel) Spec() ref.Val {
	e := func(k string, v ref.Val) ref.Val { return ref.Map(ref.E(k, v)) }
	switch s.Op {
	case ".":
		if s.Subset != nil {
			return e(".", ref.Map(ref.E("subset", ref.Map(ref.E("[", ref.Int(s.Subset[0])), ref.E("]", ref.Int(s.Subset[1]))))))
		}
		return e(".", ref.Map())
	case "@":
		return e("@", ref.Map())
	case "all":
		return e("a", ref.Map(ref.E(">", s.Next.Spec())))
	case "~":
		return e("~", ref.Map(ref.E("as", ref.Str(s.As)), ref.E(">", s.Next.Spec())))
	case "i":
		return e("i", ref.Map(ref.E("i", ref.Int(s.Index)), ref.E(">", s.Next.Spec())))
	case "r":
		return e("r", ref.Map(ref.E("^", ref.Int(s.Start)), ref.E("$", ref.Int(s.End)), ref.E(">", s.Next.Spec())))
	case "f":
		fm := ref.Map()
		for _, f := range s.Fields {
			fm.M = append(fm.M, ref.E(f.Name, f.S.Spec()))
		}
		return e("f", ref.Map(ref.E("f>", fm)))
	case "|":
		l := ref.List()
		for _, m := range s.Members {
			l.L = append(l.L, m.Spec())
		}
		return e("|", l)
	case "R":
		lim := e("none", ref.Map())
		if s.Limit >= 0 {
			lim = e("depth", ref.Int(s.Limit))
		}
		body := ref.Map(ref.E("l", lim), ref.E(":>", s.Next.Spec()))
		if s.StopAt != "" {
			body.M = append(body.M, ref.E("!", e("/", ref.Link(s.StopAt))))
		}
		return e("R", body)
	}
	panic("bad op " + s.Op)
}

// Compile compiles through the library's parser.
func (s *Sel) Compile() (selector.Selector, error) {
	return selector.CompileSelector(ref.Basic(s.Spec()))
}

// edgesFor counts edges bound to the innermost R at this syntactic level (not inside nested R).
func (s *Sel) freeEdges() int {
	switch s.Op {
	case "@":
		return 1
	case "R":
		return 0
	}
	n := 0
	if s.Next != nil {
		n += s.Next.freeEdges()
	}
	for _, f := range s.Fields {
		n += f.S.freeEdges()
	}
	for _, m := range s.Members {
		n += m.freeEdges()
	}
	return n
}

// Alphabet parameterises selector enumeration.
type Alphabet struct {
	Matchers []*Sel
	FieldSets [][]string
	Indexes  []int64
	Ranges   [][2]int64
	Limits   []int64
	UnionMax int
	StopAt   []string // "" = none
}

func QuickAlphabet() Alphabet {
	return Alphabet{
		Matchers:  []*Sel{M(), Sub(1, 3)},
		FieldSets: [][]string{{"a"}, {"0"}, {"b", "a"}, {"a", "1"}},
		Indexes:   []int64{0, 1},
		Ranges:    [][2]int64{{0, 2}, {1, 3}},
		Limits:    []int64{1, 2, -1},
		UnionMax:  2,
		StopAt:    []string{""},
	}
}

func ThoroughAlphabet() Alphabet {
	return Alphabet{
		Matchers:  []*Sel{M(), Sub(1, 3), Sub(-2, -1)},
		FieldSets: [][]string{{"a"}, {"b"}, {"0"}, {"1"}, {"a", "b"}, {"b", "a"}, {"a", "0"}, {"1", "0"}},
		Indexes:   []int64{0, 1, 5},
		Ranges:    [][2]int64{{0, 1}, {0, 2}, {1, 3}},
		Limits:    []int64{1, 2, 3, -1},
		UnionMax:  3,
		StopAt:    []string{""},
	}
}

// Enumerate returns every selector AST with at most k clauses (well-formed: every R has ≥1 edge
// bound to it, edges only inside R).
func Enumerate(a Alphabet, k int) []*Sel {
	// exact[inR][n] = selectors with exactly n clauses
	memo := map[[2]int][]*Sel{}
	var gen func(n int, inR bool) []*Sel
	b2i := func(b bool) int {
		if b {
			return 1
		}
		return 0
	}
	// sequences of m selectors with total clause count n
	var seqs func(m, n int, inR bool) [][]*Sel
	seqs = func(m, n int, inR bool) [][]*Sel {
		if m == 0 {
			if n == 0 {
				return [][]*Sel{{}}
			}
			return nil
		}
		var out [][]*Sel
		for first := 1; first <= n-(m-1); first++ {
			for _, f := range gen(first, inR) {
				for _, rest := range seqs(m-1, n-first, inR) {
					out = append(out, append([]*Sel{f}, rest...))
				}
			}
		}
		return out
	}
	gen = func(n int, inR bool) []*Sel {
		key := [2]int{n, b2i(inR)}
		if v, ok := memo[key]; ok {
			return v
		}
		var out []*Sel
		if n == 1 {
			out = append(out, a.Matchers...)
			if inR {
				out = append(out, Edge())
			}
		}
		if n >= 2 {
			for _, nx := range gen(n-1, inR) {
				out = append(out, All(nx))
				for _, i := range a.Indexes {
					out = append(out, Idx(i, nx))
				}
				for _, r := range a.Ranges {
					out = append(out, Rng(r[0], r[1], nx))
				}
			}
			for _, fs := range a.FieldSets {
				for _, ss := range seqs(len(fs), n-1, inR) {
					var fl []Field
					for i, name := range fs {
						fl = append(fl, Field{name, ss[i]})
					}
					out = append(out, Fld(fl...))
				}
			}
			for m := 2; m <= a.UnionMax; m++ {
				for _, ss := range seqs(m, n-1, inR) {
					out = append(out, Un(ss...))
				}
			}
			for _, seq := range gen(n-1, true) {
				if seq.freeEdges() == 0 {
					continue
				}
				for _, l := range a.Limits {
					for _, st := range a.StopAt {
						r := Rec(l, seq)
						r.StopAt = st
						out = append(out, r)
					}
				}
			}
		}
		memo[key] = out
		return out
	}
	var all []*Sel
	for n := 1; n <= k; n++ {
		all = append(all, gen(n, false)...)
	}
	return all
}

// BuilderSpec builds the same selector through the library's selector-spec builder (ok=false where
// the builder has no way to say it: a stop-at condition).
func (s *Sel) BuilderSpec(ssb builder.SelectorSpecBuilder) (spec builder.SelectorSpec, ok bool) {
	switch s.Op {
	case ".":
		if s.Subset != nil {
			return ssb.MatcherSubset(s.Subset[0], s.Subset[1]), true
		}
		return ssb.Matcher(), true
	case "@":
		return ssb.ExploreRecursiveEdge(), true
	case "all":
		n, ok := s.Next.BuilderSpec(ssb)
		return ssb.ExploreAll(n), ok
	case "~":
		n, ok := s.Next.BuilderSpec(ssb)
		return ssb.ExploreInterpretAs(s.As, n), ok
	case "i":
		n, ok := s.Next.BuilderSpec(ssb)
		return ssb.ExploreIndex(s.Index, n), ok
	case "r":
		n, ok := s.Next.BuilderSpec(ssb)
		return ssb.ExploreRange(s.Start, s.End, n), ok
	case "f":
		all := true
		spec := ssb.ExploreFields(func(efsb builder.ExploreFieldsSpecBuilder) {
			for _, f := range s.Fields {
				n, ok := f.S.BuilderSpec(ssb)
				all = all && ok
				efsb.Insert(f.Name, n)
			}
		})
		return spec, all
	case "|":
		var ms []builder.SelectorSpec
		all := true
		for _, m := range s.Members {
			n, ok := m.BuilderSpec(ssb)
			all = all && ok
			ms = append(ms, n)
		}
		return ssb.ExploreUnion(ms...), all
	case "R":
		if s.StopAt != "" {
			return nil, false
		}
		n, ok := s.Next.BuilderSpec(ssb)
		lim := selector.RecursionLimitNone()
		if s.Limit >= 0 {
			lim = selector.RecursionLimitDepth(s.Limit)
		}
		return ssb.ExploreRecursive(lim, n), ok
	}
	panic("bad op " + s.Op)
}
