// Package c03: DAG-CBOR decoding is strict and denotes exactly the bytes it accepts.
// Exhaustive enumeration of the decoder's input trie (all short byte strings, all strings over a
// structural alphabet with sound pruning, and the single-/double-mutation closure of valid
// encodings), each compared against an independent strict reference decoder.
package c03

import (
	"io"
	"bytes"
	"encoding/hex"
	"encoding/json"
	"fmt"
	"math"

	"github.com/ipld/go-ipld-prime/codec/dagcbor"
	"github.com/ipld/go-ipld-prime/node/basicnode"

	"verif/mc/core"
	"verif/mc/ref"
)

type Case struct {
	Hex     string `json:"hex"`
	Relaxed bool   `json:"relaxed"`
	Origin  string `json:"origin,omitempty"`
}

func normNaN(v ref.Val) ref.Val {
	switch v.K {
	case ref.KFloat:
		if math.IsNaN(v.F) {
			return ref.Float(math.NaN())
		}
	case ref.KList:
		o := ref.List()
		for _, c := range v.L {
			o.L = append(o.L, normNaN(c))
		}
		return o
	case ref.KMap:
		o := ref.Map()
		for _, e := range v.M {
			o.M = append(o.M, ref.Entry{K: e.K, V: normNaN(e.V)})
		}
		return o
	}
	return v
}

// Reader shapes: the decoder's verdict is a function of the bytes, not of the io.Reader they come
// through. "plain" has Read only (no ReadByte, no UnreadByte, no WriterTo); "limit" and "multi" are the
// standard wrappers; "onebyte" serves one byte per Read; "tee" is what LinkSystem.Fill decodes through.
var ReaderShapes = []string{"plain", "limit", "multi", "onebyte", "tee"}

type plainReader struct{ r io.Reader }

func (p plainReader) Read(b []byte) (int, error) { return p.r.Read(b) }

type oneByteReader struct{ r io.Reader }

func (o oneByteReader) Read(b []byte) (int, error) {
	if len(b) == 0 {
		return 0, nil
	}
	return o.r.Read(b[:1])
}

func shaped(b []byte, shape string) io.Reader {
	switch shape {
	case "plain":
		return plainReader{bytes.NewReader(b)}
	case "limit":
		return io.LimitReader(bytes.NewReader(b), int64(len(b))+10)
	case "multi":
		return io.MultiReader(bytes.NewReader(b[:len(b)/2]), bytes.NewReader(b[len(b)/2:]))
	case "onebyte":
		return oneByteReader{bytes.NewReader(b)}
	case "tee":
		return io.TeeReader(bytes.NewReader(b), io.Discard)
	}
	return bytes.NewReader(b)
}

// CheckShapes: the verdict (accept / reject) through every reader shape equals the verdict through a
// bytes.Reader, in strict mode.
func CheckShapes(b []byte) (fs []core.Finding) {
	verdict := func(rd io.Reader) (bool, string) {
		nb := basicnode.Prototype.Any.NewBuilder()
		var err error
		if pan := core.Guard(func() { err = dagcbor.DecodeOptions{AllowLinks: true}.Decode(nb, rd) }); pan != "" {
			return false, "panic:" + pan
		}
		if err != nil {
			return false, err.Error()
		}
		v, _ := ref.Read1(nb.Build())
		return true, v.Key()
	}
	acc0, what0 := verdict(bytes.NewReader(b))
	for _, sh := range ReaderShapes {
		acc, what := verdict(shaped(b, sh))
		if acc != acc0 || acc && what != what0 {
			fs = append(fs, core.F("strict/decode/reader-shape-dependent("+sh+")", "input %x: through a bytes.Reader accepted=%v (%s), through %s accepted=%v (%s)", b, acc0, short(what0), sh, acc, short(what)))
		}
	}
	return
}

func short(s string) string {
	if len(s) > 80 {
		return s[:80] + "…"
	}
	return s
}

func libDecode(b []byte, relaxed bool) (v ref.Val, accepted bool, errText string, panicked string) {
	nb := basicnode.Prototype.Any.NewBuilder()
	var err error
	panicked = core.Guard(func() {
		err = dagcbor.DecodeOptions{AllowLinks: true, RelaxedDecode: relaxed}.Decode(nb, bytes.NewReader(b))
	})
	if panicked != "" {
		return ref.Val{}, false, "", panicked
	}
	if err != nil {
		return ref.Val{}, false, err.Error(), ""
	}
	var pm string
	panicked = core.Guard(func() { v, pm = ref.Read1(nb.Build()) })
	if panicked == "" {
		panicked = pm
	}
	return v, true, "", panicked
}

// Check compares library and reference on one input. Returns findings and an outcome class.
func Check(b []byte, relaxed bool) (fs []core.Finding, outcome string, rv ref.Val, rej *ref.Rej) {
	rv, rej = ref.CborDecode(b, relaxed)
	lv, acc, errText, pan := libDecode(b, relaxed)
	mode := "strict"
	if relaxed {
		mode = "relaxed"
	}
	if pan != "" {
		return []core.Finding{core.F(mode+"/decode/panic("+core.Class(pan)+")", "input %x: %s", b, pan)}, "panic", rv, rej
	}
	switch {
	case acc && rej != nil:
		if relaxed {
			// relaxed mode promises only: indefinite lengths rejected, value fidelity.
			if len(rej.Reason) >= 10 && rej.Reason[:10] == "indefinite" || rej.Reason == "break" {
				return []core.Finding{core.F("relaxed/decode/accepts-invalid:"+rej.Reason, "input %x accepted as %s; reference: %v", b, lv, rej)}, "bad", rv, rej
			}
			return nil, "relaxed-accepts-nonstrict:" + rej.Reason, rv, rej
		}
		return []core.Finding{core.F("strict/decode/accepts-invalid:"+rej.Reason, "input %x accepted as %s; reference rejects: %v", b, lv, rej)}, "bad", rv, rej
	case !acc && rej == nil:
		if relaxed {
			// only strict-accept ⇒ relaxed-accept is promised; checked by the caller through strict pass
			sv, srej := ref.CborDecode(b, false)
			if srej == nil {
				return []core.Finding{core.F("relaxed/decode/rejects-strict-valid("+core.Class(errText)+")", "input %x (=%s) rejected in relaxed mode: %s", b, sv, errText)}, "bad", rv, rej
			}
			return nil, "relaxed-rejects:" + core.Class(errText), rv, rej
		}
		return []core.Finding{core.F("strict/decode/rejects-valid("+core.Class(errText)+")", "input %x (=%s) rejected: %s", b, rv, errText)}, "bad", rv, rej
	case acc && rej == nil:
		a, c := lv, rv
		if relaxed {
			a, c = normNaN(a), normNaN(c)
		}
		if !ref.Equal(a, c) {
			return []core.Finding{core.F(mode+"/decode/value-differs("+rv.K.String()+")", "input %x: library %s, reference %s", b, lv, rv)}, "bad", rv, rej
		}
		return nil, "accept:" + rv.K.String(), rv, rej
	}
	return nil, "reject:" + rej.Reason, rv, rej
}

var structAlphabet = []byte{
	0x00, 0x01, 0x17, 0x18, 0x19, 0x1a, 0x1b, 0x1c, 0x1f,
	0x20, 0x37, 0x38, 0x39, 0x3f,
	0x40, 0x41, 0x42, 0x58, 0x59, 0x5f,
	0x60, 0x61, 0x62, 0x78, 0x7f,
	0x80, 0x81, 0x82, 0x98, 0x9f,
	0xa0, 0xa1, 0xa2, 0xb8, 0xbf,
	0xc0, 0xc1, 0xd8, 0xd9, 0x2a,
	0xe0, 0xf4, 0xf5, 0xf6, 0xf7, 0xf8, 0xf9, 0xfa, 0xfb, 0xff,
	0x7c, 0x7e, 0x3c,
}

type worker struct {
	shapes bool // also decode through every reader shape (inputs short enough to afford it)
	r  *core.Run
	lc core.LocalCounters
	nt int64
	oc map[string]int64
}

func (w *worker) one(b []byte, origin string) (rej *ref.Rej) {
	for _, relaxed := range []bool{false, true} {
		fs, outcome, _, rj := Check(b, relaxed)
		if !relaxed {
			rej = rj
		}
		w.lc.Transitions++
		w.lc.Evals++
		w.lc.Traces++
		w.oc[outcome]++
		if len(fs) > 0 {
			w.r.Report("bytes", Case{Hex: hex.EncodeToString(b), Relaxed: relaxed, Origin: origin}, fs)
		}
	}
	if w.shapes && len(b) > 0 {
		if fs := CheckShapes(b); len(fs) > 0 {
			w.r.Report("bytes", Case{Hex: hex.EncodeToString(b), Origin: origin + "/reader-shapes"}, fs)
		}
		w.lc.Transitions += int64(len(ReaderShapes))
		w.lc.Evals++
	}
	w.lc.States++
	return rej
}

func (w *worker) flush() {
	w.r.Merge(&w.lc)
	w.r.NontrivialN(w.nt)
	w.nt = 0
	for k, v := range w.oc {
		w.r.OutcomeN(k, v)
	}
	w.oc = map[string]int64{}
}

// sweepAll: every byte string of length ≤ L over all 256 byte values, sharded by first byte.
func sweepAll(r *core.Run, L int) {
	core.ParallelFor(256, func(first int) {
		w := &worker{r: r, oc: map[string]int64{}}
		buf := make([]byte, 0, L)
		var rec func()
		rec = func() {
			rej := w.one(buf, "all")
			if len(buf) >= 2 && (rej == nil || rej.Reason != "truncated") {
				w.nt++ // non-trivial: the verdict needed more than the first head byte
			}
			if len(buf) == L {
				return
			}
			for c := 0; c < 256; c++ {
				buf = append(buf, byte(c))
				rec()
				buf = buf[:len(buf)-1]
			}
		}
		buf = append(buf, byte(first))
		rec()
		w.flush()
	})
	w := &worker{r: r, oc: map[string]int64{}}
	w.one(nil, "all")
	w.flush()
}

// sweepStruct: DFS over the trie of strings over structAlphabet up to length L. Prefixes the
// reference rejects for a reason other than "truncated", and complete items, are still executed but
// extended only while shorter than noPrune (prefix-monotonicity argument in DESIGN.md C03).
func sweepStruct(r *core.Run, L, noPrune int) {
	n := len(structAlphabet)
	core.ParallelFor(n*n, func(shard int) {
		w := &worker{r: r, oc: map[string]int64{}}
		buf := []byte{structAlphabet[shard/n], structAlphabet[shard%n]}
		var rec func(leafOnly bool)
		rec = func(leafOnly bool) {
			rej := w.one(buf, "struct")
			if rej == nil || rej.Reason != "truncated" {
				w.nt++
			}
			if len(buf) == L || leafOnly {
				return
			}
			live := rej != nil && rej.Reason == "truncated"
			switch {
			case live || len(buf) < noPrune:
				for _, c := range structAlphabet {
					buf = append(buf, c)
					rec(false)
					buf = buf[:len(buf)-1]
				}
			case rej == nil:
				// a complete item: its one-symbol extensions exercise the trailing-bytes probe
				for _, c := range structAlphabet {
					buf = append(buf, c)
					rec(true)
					buf = buf[:len(buf)-1]
				}
			}
		}
		rec(false)
		w.flush()
	})
	w := &worker{r: r, oc: map[string]int64{}}
	for _, c := range structAlphabet {
		w.one([]byte{c}, "struct")
	}
	w.flush()
}

// Main runs the three sweeps.
func Main(r *core.Run) {
	L, Ls, noPrune := 2, 4, 4
	if !r.Quick() {
		// (length 6 over the 53-byte alphabet was tried: > 85 minutes on 16 cores, not completed; the
		// classes of input it would add — a sixth symbol after five live ones — are reached by the
		// mutation closure of valid encodings)
		L, Ls, noPrune = 3, 5, 4
	}
	r.Rule(fmt.Sprintf("every byte string of length ≤%d over 256 values; every string of length ≤%d over a %d-byte structural alphabet (pruned beyond length %d below prefixes the reference rejects as malformed or accepts as complete); every single mutation (and, thorough, pairs on short encodings) of valid encodings; each in strict and relaxed mode; every input of ≤2 bytes, every structural string of ≤3 symbols and every mutant of the valid encodings also through five reader shapes (Read-only, LimitReader, MultiReader, one byte per Read, TeeReader): same verdict as through a bytes.Reader. Non-trivial = verdict not decided as 'truncated' (the decoder consumed at least one whole head and went on); distinct by construction of the odometer / per-base de-duplication.", L, Ls, len(structAlphabet), noPrune))
	r.Assume("CID validity is delegated to go-cid (cid.Cast) in both the library and the reference")
	r.Assume("the reference decoder (mc/ref/refcbor.go) is the statement of strict DAG-CBOR; written from the property text, independent of refmt")
	sweepAll(r, L)
	sweepStruct(r, Ls, noPrune)
	mutationSweep(r)
	r.Set("bounds", map[string]any{"all_bytes_len": L, "struct_alphabet_len": Ls, "struct_alphabet": len(structAlphabet), "no_prune_below": noPrune})
	r.Sample(map[string]any{"input": "d82a4100", "what": "tag 42 over a 1-byte byte string 00 (no CID): both reject"})
}

func Replay(r *core.Run, raw json.RawMessage) {
	var c Case
	if err := json.Unmarshal(raw, &c); err != nil {
		panic(err)
	}
	b, _ := hex.DecodeString(c.Hex)
	fs, _, _, _ := Check(b, c.Relaxed)
	r.Report("bytes", c, fs)
}
