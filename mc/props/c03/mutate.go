package c03

import (
	"encoding/binary"
	"math"

	"verif/mc/core"
	"verif/mc/ref"
)

// valueMutants returns structure-level mutants of v, encoded raw: duplicated keys (same and
// different value), swapped adjacent keys.
func valueMutants(v ref.Val) [][]byte {
	var out [][]byte
	add := func(m ref.Val) {
		if b, err := ref.CborEncodeRaw(m); err == nil {
			out = append(out, b)
		}
	}
	canon := ref.SortMaps(v, ref.LessLenFirst)
	// enumerate map positions by path
	var rec func(cur ref.Val, rebuild func(ref.Val) ref.Val)
	rec = func(cur ref.Val, rebuild func(ref.Val) ref.Val) {
		switch cur.K {
		case ref.KList:
			for i := range cur.L {
				i := i
				rec(cur.L[i], func(n ref.Val) ref.Val {
					l := append([]ref.Val(nil), cur.L...)
					l[i] = n
					return rebuild(ref.Val{K: ref.KList, L: l})
				})
			}
		case ref.KMap:
			for i := range cur.M {
				i := i
				// duplicate entry i: adjacent, same value / different value; and at the end
				for _, dv := range []ref.Val{cur.M[i].V, ref.Int(99)} {
					m := append([]ref.Entry(nil), cur.M[:i+1]...)
					m = append(m, ref.Entry{K: cur.M[i].K, V: dv})
					m = append(m, cur.M[i+1:]...)
					add(rebuild(ref.Val{K: ref.KMap, M: m}))
					m2 := append(append([]ref.Entry(nil), cur.M...), ref.Entry{K: cur.M[i].K, V: dv})
					add(rebuild(ref.Val{K: ref.KMap, M: m2}))
				}
				if i+1 < len(cur.M) {
					m := append([]ref.Entry(nil), cur.M...)
					m[i], m[i+1] = m[i+1], m[i]
					add(rebuild(ref.Val{K: ref.KMap, M: m}))
				}
				rec(cur.M[i].V, func(n ref.Val) ref.Val {
					m := append([]ref.Entry(nil), cur.M...)
					m[i] = ref.Entry{K: cur.M[i].K, V: n}
					return rebuild(ref.Val{K: ref.KMap, M: m})
				})
			}
		}
	}
	rec(canon, func(n ref.Val) ref.Val { return n })
	return out
}

var tagHeads = [][]byte{{0xc0}, {0xc1}, {0xd8, 24}, {0xd8, 41}, {0xd8, 42}, {0xd8, 43}, {0xd8, 255}, {0xd9, 1, 0}, {0xd9, 0, 42}}

func floatToHalfExact(f float64) (uint16, bool) {
	// exact only: try all 65536? cheaper: convert through float32 and check a small set by brute force lookup
	for _, h := range halfTable {
		if h.f == f && math.Signbit(h.f) == math.Signbit(f) {
			return h.h, true
		}
	}
	return 0, false
}

type halfEnt struct {
	h uint16
	f float64
}

var halfTable = func() []halfEnt {
	var t []halfEnt
	for _, h := range []uint16{0x0000, 0x8000, 0x3c00, 0xbe00, 0x3e00, 0x7bff, 0x0001, 0x5640, 0xbc00} {
		sign := 1.0
		if h&0x8000 != 0 {
			sign = -1
		}
		exp := int(h>>10) & 0x1f
		frac := float64(h & 0x3ff)
		var f float64
		if exp == 0 {
			f = sign * frac * math.Pow(2, -24)
		} else {
			f = sign * (1 + frac/1024) * math.Pow(2, float64(exp-15))
		}
		t = append(t, halfEnt{h, f})
	}
	return t
}()

// byteMutants returns every single-point byte-level mutant of enc.
func byteMutants(enc []byte) [][]byte {
	var out [][]byte
	sub := func(off, n int, repl []byte) {
		m := make([]byte, 0, len(enc)-n+len(repl))
		m = append(m, enc[:off]...)
		m = append(m, repl...)
		m = append(m, enc[off+n:]...)
		out = append(out, m)
	}
	for i := range enc {
		for _, c := range structAlphabet {
			if c != enc[i] {
				sub(i, 1, []byte{c})
			}
		}
		for bit := 0; bit < 8; bit++ {
			sub(i, 1, []byte{enc[i] ^ (1 << bit)})
		}
	}
	for i := 0; i < len(enc); i++ {
		out = append(out, append([]byte(nil), enc[:i]...))
	}
	for _, c := range structAlphabet {
		out = append(out, append(append([]byte(nil), enc...), c))
	}
	for _, h := range ref.CborHeads(enc) {
		if h.Major != 7 {
			// every longer form of the head
			for _, ai := range []byte{24, 25, 26, 27} {
				if ai <= h.AI && h.AI >= 24 {
					continue
				}
				if ai == 24 && h.Arg > 0xff || ai == 25 && h.Arg > 0xffff || ai == 26 && h.Arg > 0xffffffff {
					continue
				}
				sub(h.Off, h.Len, ref.CborHeadBytes(h.Major, h.Arg, ai))
			}
			// indefinite form
			if h.Major >= 2 && h.Major <= 5 {
				sub(h.Off, h.Len, []byte{h.Major<<5 | 31})
				m := append([]byte(nil), enc[:h.Off]...)
				m = append(m, h.Major<<5|31)
				m = append(m, enc[h.Off+h.Len:]...)
				out = append(out, append(m, 0xff))
			}
		} else {
			switch h.AI {
			case 27:
				f := math.Float64frombits(h.Arg)
				if f32 := float32(f); float64(f32) == f {
					sub(h.Off, h.Len, binary.BigEndian.AppendUint32([]byte{0xfa}, math.Float32bits(f32)))
				}
				if h16, ok := floatToHalfExact(f); ok {
					sub(h.Off, h.Len, []byte{0xf9, byte(h16 >> 8), byte(h16)})
				}
				for _, special := range []uint64{0x7ff8000000000000, 0x7ff0000000000000, 0xfff0000000000000, 0x7ff8000000000001} {
					sub(h.Off, h.Len, binary.BigEndian.AppendUint64([]byte{0xfb}, special))
				}
				sub(h.Off, h.Len, []byte{0xf9, 0x7e, 0x00})
				sub(h.Off, h.Len, []byte{0xf9, 0x7c, 0x00})
				sub(h.Off, h.Len, []byte{0xfa, 0x7f, 0xc0, 0x00, 0x00})
				sub(h.Off, h.Len, []byte{0xfa, 0xff, 0x80, 0x00, 0x00})
			case 22:
				sub(h.Off, h.Len, []byte{0xf7})
				sub(h.Off, h.Len, []byte{0xf8, 22})
			case 20, 21:
				sub(h.Off, h.Len, []byte{0xf8, h.AI})
			}
		}
		if (h.Major == 2 || h.Major == 3) && h.AI != 31 && h.Off+h.Len+int(h.Arg) <= len(enc) && h.Arg < 1<<20 {
			// edits of a string's content that keep the item well-formed (the length in the head follows,
			// shortest form): first / last byte dropped, a zero byte or 0x01 put in front, a zero byte
			// appended — under tag 42 this is the CID without its prefix, with two, with another prefix
			start, n := h.Off+h.Len, int(h.Arg)
			content := enc[start : start+n]
			rebuild := func(c []byte) {
				sub(h.Off, h.Len+n, append(ref.CborMinimalHead(h.Major, uint64(len(c))), c...))
			}
			if n >= 1 {
				rebuild(content[1:])
				rebuild(content[:n-1])
			}
			rebuild(append([]byte{0x00}, content...))
			rebuild(append([]byte{0x01}, content...))
			rebuild(append(append([]byte(nil), content...), 0x00))
		}
		for _, t := range tagHeads {
			sub(h.Off, 0, t)
		}
		if h.Major == 0 && h.AI == 27 {
			// the same magnitude as a negative integer: exercises the [-2^63, 2^64) range check
			sub(h.Off, h.Len, ref.CborHeadBytes(1, h.Arg, 27))
		}
	}
	return out
}

func baseValues(quick bool) []ref.Val {
	var vals []ref.Val
	if quick {
		vals = ref.Trees(3, ref.LeavesTiny())
	} else {
		vals = ref.Trees(4, ref.LeavesTiny())
	}
	sc := append(ref.ScalarsFull(), ref.UintsBig()...)
	vals = append(vals, ref.Sweep(sc)...)
	// key-order and duplicate territory
	vals = append(vals,
		ref.Map(ref.E("a", ref.Int(1)), ref.E("b", ref.Int(2)), ref.E("aa", ref.Int(3))),
		ref.Map(ref.E("", ref.Null()), ref.E("z", ref.Map(ref.E("y", ref.List()), ref.E("x", ref.Map())))),
		ref.List(ref.Map(ref.E("k", ref.Int(1))), ref.Map(ref.E("k", ref.Int(1)))),
	)
	return vals
}

func mutationSweep(r *core.Run) {
	vals := baseValues(r.Quick())
	r.Set("mutation_base_values", len(vals))
	core.ParallelFor(len(vals), func(i int) {
		v := vals[i]
		enc, err := ref.CborEncode(v)
		if err != nil {
			return
		}
		w := &worker{r: r, oc: map[string]int64{}, shapes: true}
		seen := map[string]bool{}
		run := func(m []byte, origin string) {
			if seen[string(m)] {
				return
			}
			seen[string(m)] = true
			rej := w.one(m, origin)
			if rej == nil || rej.Reason != "truncated" {
				w.r.Nontrivial(string(m))
			}
		}
		run(enc, "valid")
		firsts := byteMutants(enc)
		if len(enc) > 600 {
			// long scalars: restrict byte substitutions to head region + tail (content bytes are opaque)
			firsts = firsts[:0]
			short := append(append([]byte(nil), enc[:12]...), enc[len(enc)-4:]...)
			_ = short
			for _, m := range byteMutants(enc[:16]) {
				firsts = append(firsts, append(append([]byte(nil), m...), enc[16:]...))
			}
		}
		for _, m := range firsts {
			run(m, "mut1")
		}
		for _, m := range valueMutants(v) {
			run(m, "mutv")
			if !r.Quick() && len(m) <= 12 {
				for _, m2 := range byteMutants(m) {
					run(m2, "mutv+1")
				}
			}
		}
		if !r.Quick() && len(enc) <= 12 {
			for _, m := range firsts {
				if len(m) > 13 {
					continue
				}
				for _, m2 := range byteMutants(m) {
					run(m2, "mut2")
				}
			}
		}
		w.flush()
	})
}
