package c05

import (
	"fmt"

	"github.com/ipld/go-ipld-prime/datamodel"
	"github.com/ipld/go-ipld-prime/linking"
	"github.com/ipld/go-ipld-prime/node/basicnode"

	"verif/mc/core"
	"verif/mc/lsx"
	"verif/mc/ref"
)

// The stores the library ships (storage/memstore through SetRead/WriteStorage, cidlink.Memory through
// its openers) under the same link system: every scalar of the alphabets (the empty string and the
// empty byte string among them), the empty containers and a few small ones, under every codec whose
// domain holds the value. Store gives the link the harness store gives; Load, LoadRaw, LoadPlusRaw
// and Fill give the value and the block the harness store gives.

type LibCase struct {
	Storage string    `json:"storage"`
	V       ref.Val   `json:"value"`
	Proto   lsx.Proto `json:"proto"`
}

func CheckLibStore(c LibCase) (fs []core.Finding) {
	site := fmt.Sprintf("library-store/%s/codec0x%x", c.Storage, c.Proto.Codec)
	where := fmt.Sprintf("%s, value %s, proto %s", c.Storage, c.V, c.Proto)
	lc := linking.LinkContext{}
	run := func(s sys) (link string, vals [3]string, raws [2]string, errs []string) {
		pan := core.Guard(func() {
			l, err := s.ls.Store(lc, c.Proto.LP(), ref.Basic(c.V))
			if err != nil {
				errs = append(errs, "Store: "+err.Error())
				return
			}
			link = lsx.LinkBin(l)
			read := func(n datamodel.Node) string { o, _ := ref.Read1(n); return o.Key() }
			if n, err := s.ls.Load(lc, l, basicnode.Prototype.Any); err != nil {
				errs = append(errs, "Load: "+err.Error())
			} else {
				vals[0] = read(n)
			}
			if b, err := s.ls.LoadRaw(lc, l); err != nil {
				errs = append(errs, "LoadRaw: "+err.Error())
			} else {
				raws[0] = "x" + string(b)
			}
			if n, b, err := s.ls.LoadPlusRaw(lc, l, basicnode.Prototype.Any); err != nil {
				errs = append(errs, "LoadPlusRaw: "+err.Error())
			} else {
				vals[1], raws[1] = read(n), "x"+string(b)
			}
			nb := basicnode.Prototype.Any.NewBuilder()
			if err := s.ls.Fill(lc, l, nb); err != nil {
				errs = append(errs, "Fill: "+err.Error())
			} else {
				vals[2] = read(nb.Build())
			}
		})
		if pan != "" {
			errs = append(errs, "PANIC: "+pan)
		}
		return
	}
	hl, hv, hr, herr := run(newSys("harness"))
	if len(herr) > 0 {
		return nil // what the harness store cannot do either is the main sweep's business
	}
	gl, gv, gr, gerr := run(newSys(c.Storage))
	switch {
	case len(gerr) > 0:
		fs = append(fs, core.F(site+"/fails("+core.Class(gerr[0])+")", "%s: %v (the same calls succeed over the harness store)", where, gerr))
	case gl != hl:
		fs = append(fs, core.F(site+"/link-differs", "%s: link %x, over the harness store %x", where, gl, hl))
	case gv != hv:
		fs = append(fs, core.F(site+"/loaded-value-differs", "%s: Load/LoadPlusRaw/Fill give %v, over the harness store %v", where, gv, hv))
	case gr != hr:
		fs = append(fs, core.F(site+"/raw-block-differs", "%s: LoadRaw/LoadPlusRaw give %x, over the harness store %x", where, gr, hr))
	}
	return fs
}

func libraryStores(r *core.Run) {
	var vals []ref.Val
	for _, v := range append(ref.ScalarsFull(), ref.List(), ref.Map(), ref.List(ref.List(), ref.Map()), ref.Map(ref.E("", ref.Str(""))), ref.Bytes(""), ref.Str("")) {
		vals = append(vals, v)
	}
	var cases []LibCase
	for _, codec := range Codecs {
		protos := MainProtos(codec)
		for _, v := range vals {
			if !InDomain(codec, v) {
				continue
			}
			for pi, p := range protos {
				if pi > 2 && v.Size() > 1 {
					continue
				}
				for _, st := range []string{"memstore", "cidmemory"} {
					cases = append(cases, LibCase{st, v, p})
				}
			}
		}
	}
	core.ParallelFor(len(cases), func(i int) {
		fs := CheckLibStore(cases[i])
		r.States.Add(1)
		r.Transitions.Add(10)
		r.Evals.Add(1)
		r.Traces.Add(1)
		r.Report("library-store", cases[i], fs)
	})
	r.NontrivialN(int64(len(cases)))
	r.Outcome("library-stores")
	r.Set("library_store_cases", len(cases))
}
