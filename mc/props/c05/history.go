package c05

import (
	"sync/atomic"
	"bytes"
	"fmt"
	"sort"
	"strings"

	"github.com/ipld/go-ipld-prime/datamodel"
	"github.com/ipld/go-ipld-prime/linking"
	"github.com/ipld/go-ipld-prime/node/basicnode"
	cidlink "github.com/ipld/go-ipld-prime/linking/cid"
	"github.com/ipld/go-ipld-prime/storage/memstore"
	mh "github.com/multiformats/go-multihash"

	"verif/mc/core"
	"verif/mc/lsx"
	"verif/mc/ref"
)

// Op is one operation of a history. Kind: store, compute, load, loadraw, loadplusraw, fill.
// V and P index histVals / histProtos; for loads they identify the link (the link of (V,P)).
type Op struct {
	Kind string `json:"op"`
	V    int    `json:"v"`
	P    int    `json:"p"`
}

type History struct {
	Storage string `json:"storage"` // "harness", "memstore", "cidmemory"
	Ops     []Op   `json:"ops"`
}

var histVals = []ref.Val{
	ref.Map(ref.E("b", ref.Int(1)), ref.E("a", ref.Str("x"))),
	ref.List(ref.Bytes("\x00"), ref.Float(1.5)),
	ref.Map(ref.E("a", ref.Str("x")), ref.E("b", ref.Int(1))), // same value as [0], other insertion order
}

var histProtos = []lsx.Proto{
	{Version: 1, Codec: DagCbor, MhType: mh.SHA2_256, MhLength: -1},
	{Version: 1, Codec: DagJson, MhType: mh.SHA2_512, MhLength: 20},
	{Version: 1, Codec: DagCbor, MhType: mh.IDENTITY, MhLength: -1},
}

type answer struct {
	link string
	val  string
	raw  string
	err  string
}

func (a answer) String() string {
	return fmt.Sprintf("link=%x val=%s raw=%x err=%s", a.link, a.val, a.raw, a.err)
}

type sys struct {
	ls    *linking.LinkSystem
	count func() int
}

func newSys(storage string) sys {
	switch storage {
	case "memstore":
		ls := lsx.NewLinkSystem(lsx.NewStore())
		ms := &memstore.Store{}
		ls.SetReadStorage(ms)
		ls.SetWriteStorage(ms)
		return sys{ls, func() int { return len(ms.Bag) }}
	case "cidmemory":
		// the library's own in-memory block store for CID links
		ls := lsx.NewLinkSystem(lsx.NewStore())
		cm := &cidlink.Memory{}
		ls.StorageReadOpener = cm.OpenRead
		ls.StorageWriteOpener = cm.OpenWrite
		return sys{ls, func() int { return len(cm.Bag) }}
	}
	st := lsx.NewStore()
	return sys{lsx.NewLinkSystem(st), func() int { return len(st.M) }}
}

// expected link of (v,p), computed on a fresh system as its first operation.
var freshLink = map[[2]int]datamodel.Link{}

func init() {
	for vi, v := range histVals {
		for pi, p := range histProtos {
			s := newSys("harness")
			l, err := s.ls.ComputeLink(p.LP(), ref.Basic(v))
			if err != nil {
				panic(err)
			}
			freshLink[[2]int{vi, pi}] = l
		}
	}
}

func apply(s sys, op Op) (a answer) {
	v, p := histVals[op.V], histProtos[op.P]
	lnk := freshLink[[2]int{op.V, op.P}]
	lc := linking.LinkContext{}
	pan := core.Guard(func() {
		switch op.Kind {
		case "store":
			l, err := s.ls.Store(lc, p.LP(), ref.Basic(v))
			if err != nil {
				a.err = core.Class(err.Error())
			} else {
				a.link = lsx.LinkBin(l)
			}
		case "compute":
			l, err := s.ls.ComputeLink(p.LP(), ref.Basic(v))
			if err != nil {
				a.err = core.Class(err.Error())
			} else {
				a.link = lsx.LinkBin(l)
			}
		case "load":
			n, err := s.ls.Load(lc, lnk, basicnode.Prototype.Any)
			if err != nil {
				a.err = core.Class(err.Error())
			} else {
				o, _ := ref.Read1(n)
				a.val = o.Key()
			}
		case "loadraw":
			b, err := s.ls.LoadRaw(lc, lnk)
			if err != nil {
				a.err = core.Class(err.Error())
			} else {
				a.raw = string(b)
			}
		case "loadplusraw":
			n, b, err := s.ls.LoadPlusRaw(lc, lnk, basicnode.Prototype.Any)
			if err != nil {
				a.err = core.Class(err.Error())
			} else {
				o, _ := ref.Read1(n)
				a.val, a.raw = o.Key(), string(b)
			}
		case "fill":
			nb := basicnode.Prototype.Any.NewBuilder()
			if err := s.ls.Fill(lc, lnk, nb); err != nil {
				a.err = core.Class(err.Error())
			} else {
				o, _ := ref.Read1(nb.Build())
				a.val = o.Key()
			}
		}
	})
	if pan != "" {
		a.err = "PANIC:" + core.Class(pan)
	}
	return a
}

// model: which (v,p) links are stored. Expected answers come from the model, independent of history.
type model map[string]bool // link binary → stored

func expected(m model, op Op) answer {
	lnk := freshLink[[2]int{op.V, op.P}]
	bin := lsx.LinkBin(lnk)
	codec := histProtos[op.P].Codec
	want := Canon(codec, histVals[op.V])
	switch op.Kind {
	case "store", "compute":
		return answer{link: bin}
	}
	if !m[lnk.Binary()] {
		return answer{err: "*absent*"}
	}
	a := answer{}
	if op.Kind != "loadraw" {
		a.val = want.Key()
	}
	if op.Kind == "loadraw" || op.Kind == "loadplusraw" {
		a.raw = "*block*"
	}
	return a
}

func agree(exp, got answer, block []byte) bool {
	if exp.err == "*absent*" {
		return got.err != "" && !strings.HasPrefix(got.err, "PANIC")
	}
	if got.err != "" || exp.link != got.link || exp.val != got.val {
		return false
	}
	if exp.raw == "*block*" {
		return got.raw == string(block)
	}
	return got.raw == ""
}

// blockOf: the bytes a store of (v,p) writes, from a fresh system.
var blockOf = map[[2]int][]byte{}

func init() {
	for vi, v := range histVals {
		for pi, p := range histProtos {
			st := lsx.NewStore()
			ls := lsx.NewLinkSystem(st)
			l, err := ls.Store(linking.LinkContext{}, p.LP(), ref.Basic(v))
			if err != nil {
				panic(err)
			}
			blockOf[[2]int{vi, pi}] = st.M[l.Binary()]
		}
	}
}

func runHistory(h History, lc *core.LocalCounters) []core.Finding {
	s := newSys(h.Storage)
	m := model{}
	for i, op := range h.Ops {
		exp := expected(m, op)
		got := apply(s, op)
		if lc != nil {
			lc.Transitions++
		}
		if !agree(exp, got, blockOf[[2]int{op.V, op.P}]) {
			prev := "first"
			if i > 0 {
				prev = h.Ops[i-1].Kind
			}
			return []core.Finding{core.F(fmt.Sprintf("history/%s/%s-after-%s/answer-differs", h.Storage, op.Kind, prev),
				"history %v: step %d %v: expected %v, got %v", h.Ops, i, op, exp, got)}
		}
		if op.Kind == "store" {
			m[freshLink[[2]int{op.V, op.P}].Binary()] = true
		}
	}
	if n := s.count(); n != len(m) {
		return []core.Finding{core.F("history/"+h.Storage+"/storage-content", "history %v: storage holds %d blocks, model %d", h.Ops, n, len(m))}
	}
	return nil
}

func alphabet(nv, np int) []Op {
	var ops []Op
	for _, k := range []string{"store", "compute", "load", "loadraw", "loadplusraw", "fill"} {
		for v := 0; v < nv; v++ {
			for p := 0; p < np; p++ {
				ops = append(ops, Op{k, v, p})
			}
		}
	}
	return ops
}

func modelKey(m model) string {
	var ks []string
	for k := range m {
		ks = append(ks, k)
	}
	sort.Strings(ks)
	return strings.Join(ks, "|")
}

func histories(r *core.Run) {
	nv, np, depth := 2, 2, 3
	if !r.Quick() {
		nv, np, depth = 3, 3, 4
	}
	ops := alphabet(nv, np)
	for _, storage := range []string{"harness", "memstore", "cidmemory"} {
		// (1) explicit-state search to fixpoint; state = (stored set, last op); path = shortest history
		type st struct{ path []Op }
		seen := map[string]bool{"|init": true}
		frontier := []st{{nil}}
		var states, trans int64
		for len(frontier) > 0 {
			var next []st
			for _, cur := range frontier {
				states++
				for _, op := range ops {
					h := History{storage, append(append([]Op(nil), cur.path...), op)}
					var lc core.LocalCounters
					fs := runHistory(h, &lc)
					trans++
					r.Traces.Add(1)
					r.Report("history", h, fs)
					if len(fs) > 0 {
						continue
					}
					// successor key
					m := model{}
					for _, o := range h.Ops {
						if o.Kind == "store" {
							m[freshLink[[2]int{o.V, o.P}].Binary()] = true
						}
					}
					key := modelKey(m) + fmt.Sprintf("|%v", op)
					if !seen[key] {
						seen[key] = true
						next = append(next, st{h.Ops})
					}
				}
			}
			frontier = next
		}
		r.States.Add(states)
		r.Transitions.Add(trans)
		r.Evals.Add(trans)
		r.Add("history_states_"+storage, states)
		r.NontrivialN(trans)
		// (2) every sequence to the depth bound from the initial state (sharded by first operation)
		var seqs atomic.Int64
		core.ParallelFor(len(ops), func(first int) {
			var n int64
			var rec func(prefix []Op)
			rec = func(prefix []Op) {
				h := History{storage, append([]Op(nil), prefix...)}
				fs := runHistory(h, nil)
				n++
				r.Report("history", h, fs)
				if len(prefix) == depth {
					return
				}
				for _, op := range ops {
					rec(append(prefix, op))
				}
			}
			rec([]Op{ops[first]})
			seqs.Add(n)
		})
		r.Traces.Add(seqs.Load())
		r.Transitions.Add(seqs.Load())
		r.Evals.Add(seqs.Load())
		r.Add("history_sequences_"+storage, seqs.Load())
	}
	r.Sample(History{"memstore", []Op{{"compute", 0, 0}, {"store", 0, 1}, {"loadplusraw", 0, 1}}})
	r.Set("history_bounds", map[string]any{"values": nv, "prototypes": np, "sequence_depth": depth, "search": "fixpoint over (stored set, last op)"})
	_ = bytes.Equal
}
