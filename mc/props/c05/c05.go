// Package c05: links are a function of (prototype, value); store/load round-trips; answers are
// independent of the history of operations on the link system.
package c05

import (
	"bytes"
	"encoding/json"
	"fmt"
	"math"
	"sort"
	"strings"

	"github.com/ipld/go-ipld-prime/datamodel"
	"github.com/ipld/go-ipld-prime/linking"
	"github.com/ipld/go-ipld-prime/node/basicnode"
	mh "github.com/multiformats/go-multihash"
	mhcore "github.com/multiformats/go-multihash/core"

	"verif/mc/core"
	"verif/mc/lsx"
	"verif/mc/props/c02"
	"verif/mc/props/c04"
	"verif/mc/ref"
	"verif/mc/rs"
	"verif/mc/typed"

	"github.com/ipld/go-ipld-prime/schema"
)

const (
	DagCbor = 0x71
	DagJson = 0x0129
	Cbor    = 0x51
	Json    = 0x0200
	Raw     = 0x55
)

var Codecs = []uint64{DagCbor, DagJson, Cbor, Json, Raw}

func hasIntegralFloat(v ref.Val) bool {
	if v.K == ref.KFloat && v.F == math.Trunc(v.F) {
		return true
	}
	for _, c := range v.L {
		if hasIntegralFloat(c) {
			return true
		}
	}
	for _, e := range v.M {
		if hasIntegralFloat(e.V) {
			return true
		}
	}
	return false
}

func has(v ref.Val, ks ...ref.Kind) bool {
	for _, k := range ks {
		if v.K == k {
			return true
		}
	}
	for _, c := range v.L {
		if has(c, ks...) {
			return true
		}
	}
	for _, e := range v.M {
		if has(e.V, ks...) {
			return true
		}
	}
	return false
}

func finite(v ref.Val) bool {
	if v.K == ref.KFloat && (math.IsNaN(v.F) || math.IsInf(v.F, 0)) {
		return false
	}
	if v.K == ref.KLink && v.S == "" {
		return false
	}
	for _, c := range v.L {
		if !finite(c) {
			return false
		}
	}
	for _, e := range v.M {
		if !finite(e.V) {
			return false
		}
	}
	return true
}

func jsonPlainDomain(v ref.Val) bool {
	// like c04.InDomain but without the reserved-shape exclusion (plain json does not parse them)
	switch v.K {
	case ref.KList:
		for _, c := range v.L {
			if !jsonPlainDomain(c) {
				return false
			}
		}
		return true
	case ref.KMap:
		for _, e := range v.M {
			if !c04.InDomain(ref.Str(e.K)) || !jsonPlainDomain(e.V) {
				return false
			}
		}
		return true
	}
	return c04.InDomain(v)
}

// InDomain: can codec express v (within what C02/C04 establish)?
func InDomain(codec uint64, v ref.Val) bool {
	if !finite(v) {
		return false
	}
	switch codec {
	case DagCbor:
		return true
	case Cbor:
		return !has(v, ref.KLink)
	case DagJson:
		return c04.InDomain(v) && !hasIntegralFloat(v)
	case Json:
		return jsonPlainDomain(v) && !has(v, ref.KLink, ref.KBytes, ref.KUint) && !hasIntegralFloat(v)
	case Raw:
		return v.K == ref.KBytes
	}
	return false
}

// Canon is the value a load must return.
func Canon(codec uint64, v ref.Val) ref.Val {
	switch codec {
	case DagCbor:
		return ref.SortMaps(v, ref.LessLenFirst)
	case DagJson:
		return ref.SortMaps(v, ref.LessBytewise)
	}
	return v
}

type Case struct {
	V     ref.Val   `json:"value"`
	Proto lsx.Proto `json:"proto"`
	Impl  string    `json:"impl"`
	Typed *TypedRef `json:"typed,omitempty"`
}

func lctx() linking.LinkContext { return linking.LinkContext{} }

// refBlock is the reference encoding where the harness has one; nil otherwise.
func refBlock(codec uint64, v ref.Val) []byte {
	switch codec {
	case DagCbor:
		b, _ := ref.CborEncode(v)
		return b
	case Cbor:
		b, _ := ref.CborEncodeRaw(v)
		return b
	case Raw:
		return []byte(v.S)
	}
	return nil
}

func protoDomain(p lsx.Proto) bool {
	h, err := mhcore.GetHasher(p.MhType)
	if err != nil {
		return false
	}
	if p.Version == 0 {
		return p.MhType == mh.SHA2_256 && (p.MhLength == 32 || p.MhLength == -1)
	}
	if p.MhType != mh.IDENTITY && p.MhLength > h.Size() {
		return false
	}
	if p.MhLength == 0 || p.MhLength < -1 {
		return false
	}
	return true
}

func Check(c Case) (fs []core.Finding, outcome string) {
	if c.Typed != nil {
		n, v, err := typedNode(c.Typed)
		if err != nil {
			return []core.Finding{core.F("harness/build-typed", "%v", err)}, "harness"
		}
		c.V = v
		return CheckNode(c, n)
	}
	n, err := ref.ImplBuild(c.Impl, c.V)
	if err != nil {
		return []core.Finding{core.F("harness/build", "%v", err)}, "harness"
	}
	return CheckNode(c, n)
}

// TypedRef names a typed node: a value of a family type at one level.
type TypedRef struct {
	Schema string  `json:"schema"`
	Type   string  `json:"type"`
	Value  ref.Val `json:"typed_value"`
	Repr   bool    `json:"representation_view"`
}

var bindEngine = typed.NewBindEngine()
var typedFams = rs.Families(true)

// typedNode builds the bindnode node and returns it (or its representation view) with the
// data-model value that view presents.
func typedNode(t *TypedRef) (datamodel.Node, ref.Val, error) {
	for _, s := range typedFams {
		if s.Name != t.Schema {
			continue
		}
		ty := s.T(t.Type)
		var nb datamodel.NodeBuilder
		if s.ComplexKeys(ty) {
			// struct-keyed maps are built through the representation builder (rs.ComplexKeys)
			nb = bindEngine.Proto(s, t.Type, true).NewBuilder()
			r, _ := s.Repr(ty, t.Value)
			if err := ref.Assign(nb, r); err != nil {
				return nil, ref.Val{}, err
			}
		} else {
			nb = bindEngine.Proto(s, t.Type, false).NewBuilder()
			if err := ref.Assign(nb, s.FeedType(ty, t.Value)); err != nil {
				return nil, ref.Val{}, err
			}
		}
		n := nb.Build()
		if t.Repr {
			r, _ := s.Repr(ty, t.Value)
			return n.(schema.TypedNode).Representation(), r, nil
		}
		return n, s.FeedType(ty, t.Value), nil
	}
	return nil, ref.Val{}, fmt.Errorf("no schema %s", t.Schema)
}

// CheckNode runs the link-system checks on node n, which presents data-model value c.V.
func CheckNode(c Case, n datamodel.Node) (fs []core.Finding, outcome string) {
	codec := c.Proto.Codec // for CIDv0 the prototype's codec field still selects the encoder
	site := fmt.Sprintf("codec0x%x", c.Proto.Codec)
	if c.Typed != nil {
		site += "/typed"
	}
	var err error
	st := lsx.NewStore()
	ls := lsx.NewLinkSystem(st)
	lp := c.Proto.LP()
	var l1, l2 datamodel.Link
	var e1, e2 error
	if p := core.Guard(func() { l1, e1 = ls.ComputeLink(lp, n) }); p != "" {
		return []core.Finding{core.F("compute/"+site+"/panic("+core.Class(p)+")", "value %s proto %s: %s", c.V, c.Proto, p)}, "panic"
	}
	if p := core.Guard(func() { l2, e2 = ls.Store(lctx(), lp, n) }); p != "" {
		return []core.Finding{core.F("store/"+site+"/panic("+core.Class(p)+")", "value %s proto %s: %s", c.V, c.Proto, p)}, "panic"
	}
	if e1 != nil || e2 != nil {
		return []core.Finding{core.F("store/"+site+"/error("+core.Class(fmt.Sprint(e1, e2))+")", "value %s proto %s: compute err %v, store err %v", c.V, c.Proto, e1, e2)}, "bad"
	}
	b1, b2 := lsx.LinkBin(l1), lsx.LinkBin(l2)
	if b1 != b2 {
		fs = append(fs, core.F("link/"+site+"/store≠compute", "value %s proto %s: %x vs %x", c.V, c.Proto, b2, b1))
	}
	if len(st.Commits) != 1 || st.Commits[0] != l2.Binary() {
		fs = append(fs, core.F("store/"+site+"/commit-key", "value %s: commits %x, link %x", c.V, st.Commits, l2.Binary()))
	}
	block := st.M[l2.Binary()]
	if rb := refBlock(codec, c.V); rb != nil && !bytes.Equal(rb, block) {
		fs = append(fs, core.F("store/"+site+"/block≠reference-encoding", "value %s: stored %x, reference %x", c.V, block, rb))
	}
	if want, ok := lsx.RefLink(c.Proto, block); ok {
		if want != b2 {
			fs = append(fs, core.F("link/"+site+"/≠hand-computed("+hashClass(c.Proto)+")", "value %s proto %s: got %x want %x", c.V, c.Proto, b2, want))
		}
	}
	// link must be a function of the value: equal to the link of the canonical-order basicnode (DAG codecs)
	// and of the same-order basicnode (all codecs)
	cv := c.V
	if codec == DagCbor || codec == DagJson {
		cv = Canon(codec, c.V)
	}
	if c.Impl != "basic-any" || !ref.Equal(cv, c.V) || c.Typed != nil {
		if l3, err := ls.ComputeLink(lp, ref.Basic(cv)); err != nil || lsx.LinkBin(l3) != b1 {
			cause := "impl-dependent(" + c.Impl + ")"
			if !ref.Equal(cv, c.V) {
				cause = "order-dependent"
			}
			fs = append(fs, core.F("link/"+site+"/"+cause, "value %s proto %s: %x vs canonical basicnode %x (err %v)", c.V, c.Proto, b1, l3, err))
		}
	}
	if c.Proto.Version == 0 {
		// a CIDv0 always names dag-pb, for which no codec is bundled: link identity only, no load
		return fs, "ok:v0-link-only"
	}
	// loads
	want := Canon(codec, c.V)
	chk := func(fn string, nd datamodel.Node, raw []byte, err error, wantNode, wantRaw bool) {
		if err != nil {
			fs = append(fs, core.F("load/"+site+"/"+fn+"/error("+core.Class(err.Error())+")", "value %s proto %s: %v", c.V, c.Proto, err))
			return
		}
		if wantNode {
			got, incs := ref.Observe(nd)
			if len(incs) > 0 {
				fs = append(fs, core.F("load/"+site+"/"+fn+"/node-inconsistent:"+incs[0].Cause, "value %s: %s", c.V, incs[0].Detail))
			}
			if !ref.Equal(got, want) {
				fs = append(fs, core.F("load/"+site+"/"+fn+"/value-differs", "stored %s proto %s, loaded %s", c.V, c.Proto, got))
			}
		}
		if wantRaw {
			if !bytes.Equal(raw, block) {
				fs = append(fs, core.F("load/"+site+"/"+fn+"/raw-differs", "value %s: raw %x stored %x", c.V, raw, block))
			}
			if w, ok := lsx.RefLink(c.Proto, raw); ok && w != b2 {
				fs = append(fs, core.F("load/"+site+"/"+fn+"/raw-does-not-hash-to-link", "value %s", c.V))
			}
		}
	}
	var nd datamodel.Node
	var raw []byte
	if p := core.Guard(func() {
		nd, err = ls.Load(lctx(), l2, basicnode.Prototype.Any)
		chk("Load", nd, nil, err, true, false)
		raw, err = ls.LoadRaw(lctx(), l2)
		chk("LoadRaw", nil, raw, err, false, true)
		nd, raw, err = ls.LoadPlusRaw(lctx(), l2, basicnode.Prototype.Any)
		chk("LoadPlusRaw", nd, raw, err, true, true)
		nb := basicnode.Prototype.Any.NewBuilder()
		err = ls.Fill(lctx(), l2, nb)
		if err == nil {
			nd = nb.Build()
		}
		chk("Fill", nd, nil, err, true, false)
	}); p != "" {
		fs = append(fs, core.F("load/"+site+"/panic("+core.Class(p)+")", "value %s proto %s: %s", c.V, c.Proto, p))
	}
	if len(st.M) != 1 {
		fs = append(fs, core.F("store/"+site+"/extra-blocks", "storage holds %d blocks after one store", len(st.M)))
	}
	return fs, "ok:" + site + "/" + hashClass(c.Proto)
}

func hashClass(p lsx.Proto) string {
	n := mh.Codes[p.MhType]
	if n == "" {
		n = fmt.Sprintf("0x%x", p.MhType)
	}
	l := "full"
	if p.MhLength >= 0 {
		l = fmt.Sprint(p.MhLength)
	}
	return fmt.Sprintf("v%d/%s/%s", p.Version, n, l)
}

// MainProtos: the prototypes every value is tried with (per codec).
func MainProtos(codec uint64) []lsx.Proto {
	ps := []lsx.Proto{
		{Version: 1, Codec: codec, MhType: mh.SHA2_256, MhLength: -1},
		{Version: 1, Codec: codec, MhType: mh.SHA2_256, MhLength: 32},
		{Version: 1, Codec: codec, MhType: mh.SHA2_256, MhLength: 20},
		{Version: 1, Codec: codec, MhType: mh.SHA2_256, MhLength: 1},
		{Version: 1, Codec: codec, MhType: mh.SHA2_512, MhLength: -1},
		{Version: 1, Codec: codec, MhType: mh.SHA2_512, MhLength: 32},
		{Version: 1, Codec: codec, MhType: mh.IDENTITY, MhLength: -1},
		{Version: 1, Codec: codec, MhType: mh.IDENTITY, MhLength: 2},
	}
	if codec == DagCbor {
		ps = append(ps, lsx.Proto{Version: 0, Codec: codec, MhType: mh.SHA2_256, MhLength: -1}, lsx.Proto{Version: 0, Codec: codec, MhType: mh.SHA2_256, MhLength: 32})
	}
	return ps
}

// AllHashers returns every multihash code with a registered hasher in this build.
func AllHashers() []uint64 {
	var out []uint64
	for code := range mh.Codes {
		if _, err := mhcore.GetHasher(code); err == nil {
			out = append(out, code)
		}
	}
	sort.Slice(out, func(i, j int) bool { return out[i] < out[j] })
	return out
}

func Universe(quick bool) []Case {
	n := 3
	if !quick {
		n = 4
	}
	var vals []ref.Val
	vals = append(vals, ref.Trees(n, ref.LeavesSmall())...)
	vals = append(vals, ref.Sweep(append(ref.ScalarsFull(), ref.UintsBig()...))...)
	vals = append(vals, c02.PermutedMaps(ref.LinkOrderKeys, 3)...)
	vals = append(vals, c02.WideContainers()...)
	// the shapes DAG-JSON reserves are ordinary maps for every other codec (plain json included), and
	// their near misses are ordinary for all of them
	vals = append(vals, c04.ReservedShapes()...)
	vals = append(vals, c04.NearMisses()...)
	var cases []Case
	for _, codec := range Codecs {
		protos := MainProtos(codec)
		for vi, v := range vals {
			if !InDomain(codec, v) {
				continue
			}
			for _, impl := range ref.GenericImpls {
				if codec == Raw && impl == "basic-kind" {
					continue
				}
				for pi, p := range protos {
					if quick && (vi+pi)%2 == 1 && v.Size() > 2 && pi > 1 {
						// quick tier: alternate prototypes over the larger trees (all prototypes still meet every shape class)
						continue
					}
					cases = append(cases, Case{V: v, Proto: p, Impl: impl})
				}
			}
		}
	}
	// typed nodes (reflection binding), type-level and representation views, of the schema families
	for _, s := range typedFams {
		for _, tn := range s.Roots {
			ty := s.T(tn)
			vals := s.Values(ty, 0)
			for vi, v := range vals {
				if vi%5 != 0 && quick || hasAbsent(v) {
					continue
				}
				for _, repr := range []bool{false, true} {
					if !repr && s.ComplexKeys(ty) {
						continue // the type-level view of a struct-keyed map has keys no codec can write
					}
					for _, codec := range []uint64{DagCbor, DagJson} {
						var dm ref.Val
						if repr {
							dm, _ = s.Repr(ty, v)
						} else {
							dm = s.FeedType(ty, v)
						}
						if !InDomain(codec, dm) {
							continue
						}
						cases = append(cases, Case{Proto: lsx.Proto{Version: 1, Codec: codec, MhType: mh.SHA2_256, MhLength: -1}, Impl: "bindnode", Typed: &TypedRef{s.Name, tn, v, repr}})
					}
				}
			}
		}
	}
	// CIDv0 (dag-pb codec field selects no registered encoder; v0 needs codec 0x70 which is not registered) — only with dag-cbor via explicit codec: not expressible; skipped by domain.
	// every registered hash function × digest lengths on three values
	few := []ref.Val{ref.Map(ref.E("b", ref.Int(1)), ref.E("a", ref.List(ref.Str("x")))), ref.Bytes("\x00\x01"), ref.Str("")}
	for _, code := range AllHashers() {
		for _, ln := range []int{-1, 20, 1, 64, 65} {
			for _, v := range few {
				codec := uint64(DagCbor)
				if v.K == ref.KBytes {
					codec = Raw
				}
				p := lsx.Proto{Version: 1, Codec: codec, MhType: code, MhLength: ln}
				if protoDomain(p) {
					cases = append(cases, Case{V: v, Proto: p, Impl: "basic-any"})
				}
			}
		}
	}
	return cases
}

func Main(r *core.Run) {
	cases := Universe(r.Quick())
	r.Rule("values (trees ≤3/≤4 over 13 leaves + every alphabet scalar at every position kind + all permutations of key sets ≤3) × every registered codec within its domain × prototypes {sha2-256 full/32/20/1, sha2-512 full/32, identity} × {basicnode Any, kind prototypes, foreign refnode}; every registered hash function × digest length {full,20,1,64} on three values; typed (bindnode) nodes stored and linked through the same system (Store = ComputeLink = link of Encode(node)); explicit-state search over store/compute/load histories keyed by (stored set, last operation) to fixpoint, plus every operation sequence to depth 3/4. Non-trivial = map with ≥2 entries or truncated/identity digest or history with ≥2 operations; distinct by (value, order, proto, impl) / by history.")
	r.Assume("dag-json/json domain excludes integral floats: their kind change is the recorded C04 finding, not re-reported here")
	r.Assume("hand-assembled reference CIDs for sha2-256, sha2-512, identity (crypto/sha256, crypto/sha512); other hash functions: store=compute=load self-consistency")
	r.Set("registered_hashers", len(AllHashers()))
	core.ParallelFor(len(cases), func(i int) {
		c := cases[i]
		fs, outcome := Check(c)
		r.States.Add(1)
		r.Transitions.Add(6)
		r.Traces.Add(1)
		r.Evals.Add(1)
		r.Outcome(outcome)
		if c.V.K == ref.KMap && len(c.V.M) >= 2 || c.Proto.MhLength >= 0 || c.Proto.MhType == mh.IDENTITY {
			r.Nontrivial(c.Impl + c.Proto.String() + c.V.Key())
		}
		r.Report("value", c, fs)
	})
	r.Sample(map[string]any{"value": cases[len(cases)/3].V.String(), "proto": cases[len(cases)/2].Proto.String(), "impl": cases[len(cases)/2].Impl})
	r.Set("value_cases", len(cases))
	histories(r)
	libraryStores(r)
}

func Replay(r *core.Run, mode string, raw json.RawMessage) {
	switch mode {
	case "value":
		var c Case
		if err := json.Unmarshal(raw, &c); err != nil {
			panic(err)
		}
		fs, _ := Check(c)
		r.Report("value", c, fs)
	case "library-store":
		var c LibCase
		if err := json.Unmarshal(raw, &c); err != nil {
			panic(err)
		}
		r.Report("library-store", c, CheckLibStore(c))
	case "history":
		var h History
		if err := json.Unmarshal(raw, &h); err != nil {
			panic(err)
		}
		r.Report("history", h, runHistory(h, nil))
	}
}

var _ = strings.Repeat

func hasAbsent(v ref.Val) bool {
	if v.K == ref.KAbsent {
		return true
	}
	for _, c := range v.L {
		if hasAbsent(c) {
			return true
		}
	}
	for _, e := range v.M {
		if hasAbsent(e.V) {
			return true
		}
	}
	return false
}
