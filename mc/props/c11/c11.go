// Package c11: a finished node never changes, and reading it is repeatable. Every sequence of
// post-build operations (to a depth bound) is executed on nodes from every producer; after every
// step every tracked node must still read exactly as in the snapshot taken right after it was built.
package c11

import (
	"bytes"
	"encoding/json"
	"fmt"
	"io"
	"strings"

	"github.com/ipld/go-ipld-prime/codec/dagcbor"
	"github.com/ipld/go-ipld-prime/codec/dagjson"
	"github.com/ipld/go-ipld-prime/datamodel"
	"github.com/ipld/go-ipld-prime/linking"
	"github.com/ipld/go-ipld-prime/node/basicnode"
	"github.com/ipld/go-ipld-prime/traversal"
	mh "github.com/multiformats/go-multihash"

	"verif/mc/core"
	"verif/mc/lsx"
	"verif/mc/ref"
	"verif/mc/trav"
)

type tracked struct {
	name  string
	n     datamodel.Node
	snap  ref.Val
	typed bool // read through both views with the typed observer
}

type world struct {
	nodes   []tracked
	builder datamodel.NodeBuilder // the builder that produced nodes[0], if any
	raw     []byte                // raw block handed back by LoadPlusRaw, if any (never written by the harness)
	typed   bool                  // the product is a typed node
}

func (w *world) track(name string, n datamodel.Node) {
	v, incs := ref.Observe(n)
	if len(incs) > 0 {
		// an inconsistent fresh node is C01's business; still track what it reads as
		_ = incs
	}
	w.nodes = append(w.nodes, tracked{name: name, n: n, snap: v})
}

type producer struct {
	name string
	make func() *world
}

var sampleVals = []ref.Val{
	ref.Map(ref.E("a", ref.List(ref.Int(1), ref.Str("x"))), ref.E("b", ref.Map(ref.E("c", ref.Bytes("\x01\x02"))))),
	ref.List(ref.Map(ref.E("k", ref.Int(1))), ref.List(), ref.Bytes("abc")),
	ref.Bytes("hello world"),
	ref.Str("text"),
	ref.Map(),
	// every kind in one value, a bytes node long enough to be mistaken for scratch space right before a
	// link (encoders handle both through one token)
	ref.List(ref.Bytes(strings.Repeat("0123456789abcdef", 3)), ref.Link(ref.LinksFull()[1]), ref.Float(1.5), ref.Null(), ref.Bool(true),
		ref.Map(ref.E("y", ref.Bytes(strings.Repeat("fedcba9876543210", 4))), ref.E("z", ref.Link(ref.LinksFull()[0])))),
}

func routedWorld(v ref.Val, routes ref.Routes, reuse bool) func() *world {
	return func() *world {
		w := &world{}
		nb := basicnode.Prototype.Any.NewBuilder()
		if reuse {
			ref.Assign(nb, ref.List(ref.Int(0)))
			w.track("first-build-before-reset", nb.Build())
			nb.Reset()
		}
		rtd, err := ref.BuildRouted(basicnode.Prototype.Any, v, routes, false)
		if err != nil {
			panic("harness: " + err.Error())
		}
		_ = rtd
		// build through nb itself so that the producing builder is available for reuse afterwards
		n2, err := buildWith(nb, v, routes)
		if err != nil {
			panic("harness: " + err.Error())
		}
		w.nodes = append([]tracked{{}}, w.nodes...)
		v0, _ := ref.Observe(n2)
		w.nodes[0] = tracked{name: "built", n: n2, snap: v0}
		w.builder = nb
		return w
	}
}

func buildWith(nb datamodel.NodeBuilder, v ref.Val, routes ref.Routes) (datamodel.Node, error) {
	// ref.BuildRouted creates its own builder; emulate with a tiny adapter prototype
	n, err := ref.BuildRouted(protoOf{nb}, v, routes, false)
	return n, err
}

type protoOf struct{ nb datamodel.NodeBuilder }

func (p protoOf) NewBuilder() datamodel.NodeBuilder { return p.nb }

func producers(quick bool) []producer {
	var ps []producer
	for vi, v := range sampleVals {
		ps = append(ps, producer{fmt.Sprintf("basic-default-%d", vi), routedWorld(v, nil, false)})
		ps = append(ps, producer{fmt.Sprintf("basic-reset-reused-%d", vi), routedWorld(v, nil, true)})
		opts := ref.RouteOptions(v)
		for pos, alts := range opts {
			for _, a := range alts {
				if quick && !(a == 1 || a == 5 || a == 6 || a == 2) {
					continue
				}
				ps = append(ps, producer{fmt.Sprintf("basic-route-%d-pos%d:%d", vi, pos, a), routedWorld(v, ref.Routes{pos: a}, false)})
			}
		}
	}
	// shared structure: the prebuilt child is tracked as well as the parent built from it
	ps = append(ps, producer{"basic-assignnode-shared-child", func() *world {
		w := &world{}
		child := ref.Basic(ref.Map(ref.E("x", ref.Int(1))))
		nb := basicnode.Prototype.Map.NewBuilder()
		ma, _ := nb.BeginMap(2)
		va, _ := ma.AssembleEntry("c1")
		va.AssignNode(child)
		va, _ = ma.AssembleEntry("c2")
		va.AssignNode(child)
		ma.Finish()
		w.track("parent", nb.Build())
		w.track("shared-child", child)
		w.builder = nb
		return w
	}})
	ps = append(ps, producer{"basic-root-assignnode-shortcut", func() *world {
		w := &world{}
		src := ref.Basic(ref.Map(ref.E("x", ref.Int(1)), ref.E("y", ref.List(ref.Int(2)))))
		nb := basicnode.Prototype.Map.NewBuilder()
		nb.AssignNode(src)
		w.track("copy", nb.Build())
		w.track("source", src)
		w.builder = nb
		return w
	}})
	// decoders
	for vi, v := range sampleVals {
		v := v
		ps = append(ps, producer{fmt.Sprintf("dagcbor-decode-%d", vi), func() *world {
			enc, _ := ref.CborEncode(v)
			nb := basicnode.Prototype.Any.NewBuilder()
			if err := dagcbor.Decode(nb, bytes.NewReader(enc)); err != nil {
				panic(err)
			}
			w := &world{builder: nb}
			w.track("decoded", nb.Build())
			return w
		}})
		ps = append(ps, producer{fmt.Sprintf("dagjson-decode-%d", vi), func() *world {
			var buf bytes.Buffer
			dagjson.Encode(ref.Basic(v), &buf)
			nb := basicnode.Prototype.Any.NewBuilder()
			if err := dagjson.Decode(nb, bytes.NewReader(buf.Bytes())); err != nil {
				panic(err)
			}
			w := &world{builder: nb}
			w.track("decoded", nb.Build())
			return w
		}})
	}
	for _, codec := range []uint64{0x55, 0x71} {
		codec := codec
		for _, fn := range []string{"Load", "LoadPlusRaw"} {
			fn := fn
			ps = append(ps, producer{fmt.Sprintf("%s-codec0x%x", fn, codec), func() *world {
				st := lsx.NewStore()
				ls := lsx.NewLinkSystem(st)
				var v ref.Val = ref.Bytes("raw block bytes")
				if codec == 0x71 {
					v = sampleVals[0]
				}
				p := lsx.Proto{Version: 1, Codec: codec, MhType: mh.SHA2_256, MhLength: -1}
				l, err := ls.Store(linking.LinkContext{}, p.LP(), ref.Basic(v))
				if err != nil {
					panic(err)
				}
				w := &world{}
				if fn == "Load" {
					n, err := ls.Load(linking.LinkContext{}, l, basicnode.Prototype.Any)
					if err != nil {
						panic(err)
					}
					w.track("loaded", n)
				} else {
					n, raw, err := ls.LoadPlusRaw(linking.LinkContext{}, l, basicnode.Prototype.Any)
					if err != nil {
						panic(err)
					}
					w.track("loaded", n)
					w.raw = raw
				}
				return w
			}})
		}
	}
	ps = append(ps, producer{"bytes-from-reader", func() *world {
		w := &world{}
		w.track("stream", basicnode.NewBytesFromReader(bytes.NewReader([]byte("streamed content"))))
		return w
	}})
	ps = append(ps, producer{"bytes-builder-assignnode-largebytes", func() *world {
		w := &world{}
		nb := basicnode.Prototype.Bytes.NewBuilder()
		src := ref.LargeNode(ref.Bytes("large bytes source"))
		nb.AssignNode(src)
		w.track("built-from-large", nb.Build())
		w.builder = nb
		return w
	}})
	// selector matches, incl. subset matches over plain and reader-backed bytes and strings
	for _, target := range []string{"plain-bytes", "large-bytes", "string"} {
		for _, sub := range [][2]int64{{0, 3}, {2, -1}, {-3, 100}} {
			target, sub := target, sub
			ps = append(ps, producer{fmt.Sprintf("subset-match-%s-%d:%d", target, sub[0], sub[1]), func() *world {
				w := &world{}
				var leaf datamodel.Node
				switch target {
				case "plain-bytes":
					leaf = basicnode.NewBytes([]byte("0123456789"))
				case "large-bytes":
					leaf = basicnode.NewBytesFromReader(bytes.NewReader([]byte("0123456789")))
				default:
					leaf = basicnode.NewString("0123456789")
				}
				nb := basicnode.Prototype.List.NewBuilder()
				la, _ := nb.BeginList(1)
				la.AssembleValue().AssignNode(leaf)
				la.Finish()
				root := nb.Build()
				sel, err := trav.All(trav.Sub(sub[0], sub[1])).Compile()
				if err != nil {
					panic(err)
				}
				traversal.WalkMatching(root, sel, func(p traversal.Progress, n datamodel.Node) error {
					w.track("match", n)
					return nil
				})
				w.track("walked-root", root)
				return w
			}})
		}
	}
	// transform results
	ps = append(ps, producer{"focused-transform-result", func() *world {
		w := &world{}
		root := ref.Basic(sampleVals[0])
		res, err := traversal.FocusedTransform(root, datamodel.ParsePath("a/0"), func(traversal.Progress, datamodel.Node) (datamodel.Node, error) {
			return basicnode.NewInt(42), nil
		}, false)
		if err != nil {
			panic(err)
		}
		w.track("result", res)
		w.track("input", root)
		return w
	}})
	ps = append(ps, producer{"walk-transform-result", func() *world {
		w := &world{}
		root := ref.Basic(sampleVals[1])
		sel, _ := trav.Idx(0, trav.M()).Compile()
		res, err := traversal.WalkTransforming(root, sel, func(p traversal.Progress, n datamodel.Node) (datamodel.Node, error) {
			return basicnode.NewString("replaced"), nil
		})
		if err != nil {
			panic(err)
		}
		w.track("result", res)
		w.track("input", root)
		return w
	}})
	return ps
}

// ---- operations ----

type operation struct {
	name string
	run  func(w *world)
}

func firstContainer(w *world) (datamodel.Node, bool) {
	n := w.nodes[0].n
	return n, n.Kind() == datamodel.Kind_Map || n.Kind() == datamodel.Kind_List
}

func operations() []operation {
	ops := []operation{
		{"observe", func(w *world) { ref.Observe(w.nodes[0].n) }},
		{"encode-dagcbor", func(w *world) { dagcbor.Encode(w.nodes[0].n, io.Discard) }},
		{"encode-dagjson", func(w *world) { dagjson.Encode(w.nodes[0].n, io.Discard) }},
		{"deepequal-self", func(w *world) { datamodel.DeepEqual(w.nodes[0].n, w.nodes[0].n) }},
		{"largebytes-partial-read", func(w *world) {
			for _, t := range w.nodes {
				if lb, ok := t.n.(datamodel.LargeBytesNode); ok && t.n.Kind() == datamodel.Kind_Bytes {
					if rs, err := lb.AsLargeBytes(); err == nil {
						rs.Read(make([]byte, 2))
					}
				}
			}
		}},
		{"largebytes-seek-end", func(w *world) {
			for _, t := range w.nodes {
				if lb, ok := t.n.(datamodel.LargeBytesNode); ok && t.n.Kind() == datamodel.Kind_Bytes {
					if rs, err := lb.AsLargeBytes(); err == nil {
						rs.Seek(0, io.SeekEnd)
					}
				}
			}
		}},
		{"two-iterators-interleaved", func(w *world) {
			n := w.nodes[0].n
			switch n.Kind() {
			case datamodel.Kind_Map:
				a, b := n.MapIterator(), n.MapIterator()
				for !a.Done() {
					a.Next()
					if !b.Done() {
						b.Next()
						if !b.Done() {
							b.Next()
						}
					}
				}
			case datamodel.Kind_List:
				a, b := n.ListIterator(), n.ListIterator()
				for !a.Done() {
					a.Next()
					if !b.Done() {
						b.Next()
					}
				}
			}
		}},
		{"copy-into-any-then-extend", func(w *world) {
			// a new list whose first element is the node, then extended
			nb := basicnode.Prototype.Any.NewBuilder()
			la, _ := nb.BeginList(1)
			la.AssembleValue().AssignNode(w.nodes[0].n)
			la.AssembleValue().AssignInt(7)
			la.Finish()
			w.track("list-around", nb.Build())
		}},
		{"assignnode-into-kind-builder-then-reuse", func(w *world) {
			n := w.nodes[0].n
			nb := ref.KindProto(kindOf(n)).NewBuilder()
			if err := nb.AssignNode(n); err != nil {
				return
			}
			w.track("kind-copy", nb.Build())
			// reuse that builder for something else of the same kind
			nb.Reset()
			switch n.Kind() {
			case datamodel.Kind_Map:
				ma, _ := nb.BeginMap(1)
				va, _ := ma.AssembleEntry("zz")
				va.AssignInt(1)
				ma.Finish()
			case datamodel.Kind_List:
				la, _ := nb.BeginList(1)
				la.AssembleValue().AssignInt(1)
				la.Finish()
			case datamodel.Kind_Bytes:
				nb.AssignBytes([]byte("other"))
			case datamodel.Kind_String:
				nb.AssignString("other")
			default:
				return
			}
			w.track("kind-builder-second-product", nb.Build())
		}},
		{"datamodel-copy-into-foreign-shaped-builder", func(w *world) {
			nb := basicnode.Prototype.Any.NewBuilder()
			if err := datamodel.Copy(w.nodes[0].n, nb); err == nil {
				w.track("copy", nb.Build())
			}
		}},
		{"reset-and-reuse-producing-builder", func(w *world) {
			if w.builder == nil {
				return
			}
			core.Guard(func() {
				w.builder.Reset()
				ma, err := w.builder.BeginMap(3)
				if err != nil {
					// kind-specific producing builder: build what it can hold
					if la, err := w.builder.BeginList(2); err == nil {
						la.AssembleValue().AssignInt(9)
						la.Finish()
						w.track("builder-second-product", w.builder.Build())
					} else if err := w.builder.AssignBytes([]byte("zzz")); err == nil {
						w.track("builder-second-product", w.builder.Build())
					}
					return
				}
				va, _ := ma.AssembleEntry("a")
				va.AssignString("different")
				va, _ = ma.AssembleEntry("new")
				va.AssignInt(1)
				ma.Finish()
				w.track("builder-second-product", w.builder.Build())
			})
		}},
		{"linksystem-loads-other-blocks", func(w *world) {
			// another link system stores and loads other (shorter) blocks with every load function
			st := lsx.NewStore()
			ls := lsx.NewLinkSystem(st)
			for _, blk := range []string{"OTHERBLK", "x", "another block, a longer one, of raw bytes"} {
				for _, codec := range []uint64{0x55, 0x71} {
					p := lsx.Proto{Version: 1, Codec: codec, MhType: mh.SHA2_256, MhLength: -1}
					l, err := ls.Store(linking.LinkContext{}, p.LP(), ref.Basic(ref.Bytes(blk)))
					if err != nil {
						continue
					}
					ls.LoadRaw(linking.LinkContext{}, l)
					ls.LoadPlusRaw(linking.LinkContext{}, l, basicnode.Prototype.Any)
					ls.Load(linking.LinkContext{}, l, basicnode.Prototype.Any)
				}
			}
		}},
		{"walk-all", func(w *world) {
			sel, _ := trav.Rec(-1, trav.Un(trav.M(), trav.All(trav.Edge()))).Compile()
			traversal.WalkAdv(w.nodes[0].n, sel, func(traversal.Progress, datamodel.Node, traversal.VisitReason) error { return nil })
		}},
		{"walk-subset-matching", func(w *world) {
			sel, _ := trav.Rec(-1, trav.Un(trav.Sub(1, 3), trav.All(trav.Edge()))).Compile()
			traversal.WalkMatching(w.nodes[0].n, sel, func(p traversal.Progress, n datamodel.Node) error {
				w.track("submatch", n)
				return nil
			})
		}},
		{"focused-transform-first-child", func(w *world) {
			n, ok := firstContainer(w)
			if !ok || n.Length() == 0 {
				return
			}
			var seg datamodel.PathSegment
			if n.Kind() == datamodel.Kind_Map {
				k, _, _ := n.MapIterator().Next()
				s, _ := k.AsString()
				seg = datamodel.PathSegmentOfString(s)
			} else {
				seg = datamodel.PathSegmentOfInt(0)
			}
			res, err := traversal.FocusedTransform(n, datamodel.NewPath([]datamodel.PathSegment{seg}), func(traversal.Progress, datamodel.Node) (datamodel.Node, error) {
				return basicnode.NewString("T"), nil
			}, false)
			if err == nil {
				w.track("transformed", res)
			}
		}},
		{"focused-transform-append", func(w *world) {
			n, ok := firstContainer(w)
			if !ok {
				return
			}
			p := "zz"
			if n.Kind() == datamodel.Kind_List {
				p = "-"
			}
			res, err := traversal.FocusedTransform(n, datamodel.ParsePath(p), func(traversal.Progress, datamodel.Node) (datamodel.Node, error) {
				return basicnode.NewInt(5), nil
			}, false)
			if err == nil {
				w.track("appended", res)
			}
		}},
		{"walk-transform-all-ints", func(w *world) {
			sel, _ := trav.Rec(-1, trav.Un(trav.M(), trav.All(trav.Edge()))).Compile()
			res, err := traversal.WalkTransforming(w.nodes[0].n, sel, func(p traversal.Progress, n datamodel.Node) (datamodel.Node, error) {
				if n.Kind() == datamodel.Kind_Int {
					return basicnode.NewInt(0), nil
				}
				return n, nil
			})
			if err == nil {
				w.track("walk-transformed", res)
			}
		}},
	}
	return ops
}

func kindOf(n datamodel.Node) ref.Kind {
	switch n.Kind() {
	case datamodel.Kind_Map:
		return ref.KMap
	case datamodel.Kind_List:
		return ref.KList
	case datamodel.Kind_Bytes:
		return ref.KBytes
	case datamodel.Kind_String:
		return ref.KString
	case datamodel.Kind_Int:
		return ref.KInt
	}
	return ref.KNull
}

type Case struct {
	Producer string   `json:"producer"`
	Ops      []string `json:"ops"`
}

func producerClass(name string) string {
	// strip indices so that signatures name the class of producer
	for i, c := range name {
		if c >= '0' && c <= '9' {
			return strings.TrimRight(name[:i], "-")
		}
	}
	return name
}

// RunCase executes one history and checks the invariant after every step.
func RunCase(p producer, ops []operation) (fs []core.Finding, steps int) {
	var w *world
	if pan := core.Guard(func() { w = p.make() }); pan != "" {
		return []core.Finding{core.F("producer-panic("+producerClass(p.name)+")", "%s: %s", p.name, pan)}, 0
	}
	check := func(after string) bool {
		for _, t := range w.nodes {
			for round := 0; round < 2; round++ {
				var got ref.Val
				var incs []ref.Inc
				pan := core.Guard(func() {
					if t.typed {
						got, incs = typedViewIncs(t.n)
					} else {
						got, incs = ref.Observe(t.n)
					}
				})
				if pan != "" {
					fs = append(fs, core.F(fmt.Sprintf("read-panic-after(%s|%s/%s)", after, producerClass(p.name), t.name), "producer %s: %s", p.name, pan))
					return false
				}
				for _, inc := range incs {
					if strings.HasPrefix(inc.Cause, "second-read-differs") || strings.HasPrefix(inc.Cause, "largebytes") {
						fs = append(fs, core.F(fmt.Sprintf("%s(%s/%s)", inc.Cause, producerClass(p.name), t.name), "producer %s after %s: %s", p.name, after, inc.Detail))
						return false
					}
				}
				if !ref.Equal(got, t.snap) {
					fs = append(fs, core.F(fmt.Sprintf("changed-after(%s|%s/%s)", after, producerClass(p.name), t.name), "producer %s: node %q read %s right after it was made, now reads %s", p.name, t.name, t.snap, got))
					return false
				}
			}
		}
		return true
	}
	if !check("nothing") {
		return fs, 0
	}
	var names []string
	for _, o := range ops {
		names = append(names, o.name)
		pan := core.Guard(func() { o.run(w) })
		steps++
		if pan != "" && !w.typed {
			fs = append(fs, core.F(fmt.Sprintf("op-panic(%s|%s)", o.name, producerClass(p.name)), "producer %s ops %v: %s", p.name, names, pan))
			return fs, steps
		}
		// (a generic operation a typed node refuses by panicking is C08/C12's business; what it left behind is checked here)
		if !check(o.name) {
			return fs, steps
		}
	}
	return nil, steps
}

func Main(r *core.Run) {
	quick := r.Quick()
	ps := append(producers(quick), typedProducers()...)
	ops := append(operations(), typedOperations()...)
	depth := 2
	if !quick {
		depth = 3
	}
	r.Rule(fmt.Sprintf("%d producers (every basicnode builder route class incl. AssignNode shortcuts, oversize hints, Reset-reused builders; dag-cbor/dag-json decoders; Load/LoadPlusRaw with raw and dag-cbor; NewBytesFromReader; bytes builder fed a large-bytes node; subset matches over plain/reader-backed bytes and strings; focused and walking transform results and their inputs; bindnode nodes of one type per representation strategy made by the type-level builder, the representation builder and the decoder, and nodes of the checked-in generated package, tracked through both views) × every sequence of ≤%d operations out of %d (complete read, encode ×2, DeepEqual, partial/seeked large-bytes reads, interleaved iterators, copy/AssignNode into other builders that are then extended or reused, Reset+reuse of the producing builder, stores and loads of other blocks through another link system, walks, subset-matching walks, transforms); after every step every tracked node (the product and everything derived from or sharing structure with it) is read completely twice and compared with its snapshot. Non-trivial = sequences of ≥2 operations; distinct by (producer, sequence).", len(ps), depth, len(ops)))
	r.Assume("the harness never writes into byte slices it passed in or was handed back")
	var seqs [][]int
	var rec func(cur []int)
	rec = func(cur []int) {
		if len(cur) > 0 {
			seqs = append(seqs, append([]int(nil), cur...))
		}
		if len(cur) == depth {
			return
		}
		for i := range ops {
			rec(append(cur, i))
		}
	}
	rec(nil)
	core.ParallelFor(len(ps), func(pi int) {
		var lc core.LocalCounters
		var nt int64
		for _, seq := range seqs {
			var os []operation
			var names []string
			for _, i := range seq {
				os = append(os, ops[i])
				names = append(names, ops[i].name)
			}
			fs, steps := RunCase(ps[pi], os)
			lc.Transitions += int64(steps)
			lc.Traces++
			lc.Evals++
			lc.States++
			if len(seq) >= 2 {
				nt++
			}
			r.Report("history", Case{ps[pi].name, names}, fs)
		}
		r.Merge(&lc)
		r.NontrivialN(nt)
		r.Outcome(producerClass(ps[pi].name))
	})
	r.Set("producers", len(ps))
	r.Set("sequences_per_producer", len(seqs))
	r.Sample(Case{ps[0].name, []string{"copy-into-any-then-extend", "reset-and-reuse-producing-builder", "observe"}})
	r.Sample(Case{"subset-match-large-bytes-2:-1", []string{"largebytes-partial-read", "walk-subset-matching"}})
}

func Replay(r *core.Run, raw json.RawMessage) {
	var c Case
	if err := json.Unmarshal(raw, &c); err != nil {
		panic(err)
	}
	all := append(operations(), typedOperations()...)
	var os []operation
	for _, n := range c.Ops {
		for _, o := range all {
			if o.name == n {
				os = append(os, o)
			}
		}
	}
	for _, p := range append(producers(false), typedProducers()...) {
		if p.name == c.Producer {
			fs, _ := RunCase(p, os)
			r.Report("history", c, fs)
		}
	}
}
