package c11

import (
	"bytes"
	"fmt"

	"github.com/ipld/go-ipld-prime/codec/dagcbor"
	"github.com/ipld/go-ipld-prime/datamodel"
	"github.com/ipld/go-ipld-prime/node/gendemo"
	"github.com/ipld/go-ipld-prime/schema"

	"verif/mc/ref"
	"verif/mc/rs"
	"verif/mc/typed"
)

// Typed producers: nodes made by the reflection binding's builders (type level, representation
// level, decoder into the representation prototype) for one type of each strategy, and by the
// checked-in generated package. They are tracked through both views.

type typedPick struct {
	fam, typ string
	nth      int // which value of V(T), counted from the end (the richest values come last)
}

var typedPicks = []typedPick{
	{"fam01", "SM05", 0}, {"fam01", "SM15", 1}, // struct/map with optional and nullable fields, renamed
	{"fam07", "ListPt", 0}, {"fam07", "MapSPt", 0}, {"fam07", "ListNPt", 0}, {"fam07", "MapL", 0}, {"fam07", "ListL", 0},
	{"fam05", "UK", 0}, {"fam05", "HasU", 0}, {"fam03", "SJ2", 0},
	{"fam09", "HasAny", 0}, {"fam09", "MapAny", 0},
}

func typedView(n datamodel.Node) ref.Val {
	v, _ := typedViewIncs(n)
	return v
}

func typedViewIncs(n datamodel.Node) (ref.Val, []ref.Inc) {
	tv, incs := ref.ObserveTyped(n)
	if tn, ok := n.(schema.TypedNode); ok {
		rv, rincs := ref.ObserveTyped(tn.Representation())
		return ref.List(tv, rv), append(incs, rincs...)
	}
	return ref.List(tv), incs
}

func (w *world) trackTyped(name string, n datamodel.Node) {
	w.nodes = append(w.nodes, tracked{name: name, n: n, snap: typedView(n), typed: true})
}

func typedProducers() []producer {
	var ps []producer
	eng := typed.NewBindEngine()
	fams := map[string]*rs.Schema{}
	for _, s := range rs.Families(true) {
		fams[s.Name] = s
	}
	for _, pk := range typedPicks {
		s := fams[pk.fam]
		if s == nil || s.T(pk.typ) == nil {
			panic("harness: no type " + pk.fam + "." + pk.typ)
		}
		t := s.T(pk.typ)
		vals := s.Values(t, 0)
		if len(vals) == 0 {
			panic("harness: no values for " + pk.typ)
		}
		v := vals[len(vals)-1-pk.nth%len(vals)]
		repr, ok := s.Repr(t, v)
		if !ok {
			panic("harness: no representation for " + v.String())
		}
		feed := s.FeedType(t, v)
		name := pk.fam + "." + pk.typ
		ps = append(ps, producer{"typed-bindnode-typebuilder:" + name, func() *world {
			w := &world{typed: true}
			nb := eng.Proto(s, t.Name, false).NewBuilder()
			if err := ref.Assign(nb, feed); err != nil {
				panic(fmt.Sprintf("harness: %s: %v", name, err))
			}
			w.trackTyped("built", nb.Build())
			return w
		}})
		ps = append(ps, producer{"typed-bindnode-reprbuilder:" + name, func() *world {
			w := &world{typed: true}
			nb := eng.Proto(s, t.Name, true).NewBuilder()
			if err := ref.Assign(nb, repr); err != nil {
				panic(fmt.Sprintf("harness: %s: %v", name, err))
			}
			w.trackTyped("built", nb.Build())
			return w
		}})
		ps = append(ps, producer{"typed-bindnode-decoded:" + name, func() *world {
			w := &world{typed: true}
			enc, err := ref.CborEncode(repr)
			if err != nil {
				panic(err)
			}
			nb := eng.Proto(s, t.Name, true).NewBuilder()
			if err := dagcbor.Decode(nb, bytes.NewReader(enc)); err != nil {
				panic(fmt.Sprintf("harness: %s: %v", name, err))
			}
			w.trackTyped("decoded", nb.Build())
			return w
		}})
	}
	ps = append(ps, producer{"typed-generated:gendemo.Msg3", func() *world {
		w := &world{typed: true}
		nb := gendemo.Type.Msg3.NewBuilder()
		if err := ref.Assign(nb, ref.Map(ref.E("whee", ref.Int(1)), ref.E("woot", ref.Int(2)), ref.E("waga", ref.Int(3)))); err != nil {
			panic(err)
		}
		w.trackTyped("built", nb.Build())
		w.builder = nb
		return w
	}})
	ps = append(ps, producer{"typed-generated:gendemo.Map__String__Msg3", func() *world {
		w := &world{typed: true}
		nb := gendemo.Type.Map__String__Msg3.NewBuilder()
		m := ref.Map(ref.E("whee", ref.Int(1)), ref.E("woot", ref.Int(2)), ref.E("waga", ref.Int(3)))
		if err := ref.Assign(nb, ref.Map(ref.E("k1", m), ref.E("k2", m))); err != nil {
			panic(err)
		}
		w.trackTyped("built", nb.Build())
		w.builder = nb
		return w
	}})
	return ps
}

// typedOperations: what makes sense only with a typed product.
func typedOperations() []operation {
	return []operation{
		{"assignnode-into-own-prototype-builder", func(w *world) {
			n := w.nodes[0].n
			nb := n.Prototype().NewBuilder()
			if err := nb.AssignNode(n); err != nil {
				return
			}
			if w.typed {
				w.trackTyped("own-proto-copy", nb.Build())
			} else {
				w.track("own-proto-copy", nb.Build())
			}
		}},
		{"copy-representation-into-own-repr-builder", func(w *world) {
			tn, ok := w.nodes[0].n.(schema.TypedNode)
			if !ok {
				return
			}
			rp := tn.Representation().Prototype()
			nb := rp.NewBuilder()
			if err := datamodel.Copy(tn.Representation(), nb); err != nil {
				return
			}
			w.trackTyped("repr-copy", nb.Build())
		}},
		{"encode-representation", func(w *world) {
			if tn, ok := w.nodes[0].n.(schema.TypedNode); ok {
				var buf bytes.Buffer
				dagcbor.Encode(tn.Representation(), &buf)
			}
		}},
	}
}
