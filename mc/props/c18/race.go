package c18

import (
	"bytes"
	"context"
	"fmt"
	"os"
	"os/exec"
	"path/filepath"
	"strings"
	"sync"

	"github.com/ipld/go-ipld-prime/storage/fsstore"

	"verif/mc/core"
	"verif/mc/props/c20"
)

// The cooperative scheduler interleaves the store's operations at its filesystem calls; what the
// store does between two calls (mapping a key to a path, its scratch state) runs atomically under it
// and its hand-offs are happens-before edges that blind a race detector. So the same thread bodies
// run once more free (real goroutines, the real os package with no controller in between) in a
// -race build: every harness, several repetitions, with a final audit of the directory.

// RaceWorker runs in the race-instrumented binary. stderr carries "PAIR <harness>" markers between
// which the detector's reports are attributed; "AUDIT <harness> <detail>" lines carry audit failures.
func RaceWorker(reps int) {
	ctx := context.Background()
	for _, h := range harnesses(false) {
		fmt.Fprintf(os.Stderr, "\nPAIR %s - %d\n", h.Name, len(h.Threads))
		for rep := 0; rep < reps; rep++ {
			tmp, err := os.MkdirTemp(core.TmpRoot(), "c18race-")
			if err != nil {
				panic(err)
			}
			base := filepath.Join(tmp, "base")
			os.Mkdir(base, 0o777)
			nst := h.Stores
			if nst < 1 {
				nst = 1
			}
			var stores []*fsstore.Store
			for i := 0; i < nst; i++ {
				st := &fsstore.Store{}
				if err := st.InitDefaults(base); err != nil {
					panic(err)
				}
				stores = append(stores, st)
			}
			var wg sync.WaitGroup
			var mu sync.Mutex
			acked := map[string]bool{}
			var bad []string
			start := make(chan struct{})
			for ti, ops := range h.Threads {
				ops := ops
				s := stores[ti%len(stores)]
				wg.Add(1)
				go func() {
					defer wg.Done()
					defer func() {
						if p := recover(); p != nil {
							mu.Lock()
							bad = append(bad, fmt.Sprintf("panic: %v", p))
							mu.Unlock()
						}
					}()
					<-start
					for _, op := range ops {
						want := contentOf(op.Key)
						switch op.Kind {
						case "put2":
							if s.Put(ctx, op.Key, altContentOf(op.Key)) == nil {
								mu.Lock()
								acked[op.Key] = true
								mu.Unlock()
							}
						case "put":
							if s.Put(ctx, op.Key, append([]byte(nil), want...)) == nil {
								mu.Lock()
								acked[op.Key] = true
								mu.Unlock()
							}
						case "stream2":
							wr, commit, err := s.PutStream(ctx)
							if err != nil {
								continue
							}
							wr.Write(want[:len(want)/2])
							wr.Write(want[len(want)/2:])
							if commit(op.Key) == nil {
								mu.Lock()
								acked[op.Key] = true
								mu.Unlock()
							}
						case "get":
							if got, err := s.Get(ctx, op.Key); err == nil && !isContentOf(op.Key, got) {
								mu.Lock()
								bad = append(bad, fmt.Sprintf("Get(%q) returned %q, not its content", op.Key, got))
								mu.Unlock()
							}
						case "has":
							s.Has(ctx, op.Key)
						}
					}
				}()
			}
			close(start)
			wg.Wait()
			// audit with a fresh store on the same directory
			s2 := &fsstore.Store{}
			if err := s2.InitDefaults(base); err != nil {
				bad = append(bad, "re-open failed: "+err.Error())
			} else {
				for _, k := range allKeys {
					got, err := s2.Get(ctx, k)
					switch {
					case err != nil && acked[k]:
						bad = append(bad, fmt.Sprintf("acknowledged key %q is absent afterwards", k))
					case err == nil && !isContentOf(k, got):
						bad = append(bad, fmt.Sprintf("key %q holds %q afterwards", k, got))
					}
				}
			}
			for _, b := range bad {
				fmt.Fprintf(os.Stderr, "\nAUDIT %s %s\n", h.Name, strings.ReplaceAll(b, "\n", " "))
			}
			os.RemoveAll(tmp)
		}
	}
	fmt.Fprintf(os.Stderr, "\nPAIR done done 0\n")
}

func racePass(r *core.Run, quick bool) {
	bin := filepath.Join(core.VerifDir, ".work", "bin", "mcrace")
	if _, err := os.Stat(bin); err != nil {
		fmt.Fprintf(os.Stderr, "CHECK-BROKEN: race-instrumented binary missing: %v\n", err)
		os.Exit(2)
	}
	reps := 20
	if !quick {
		reps = 200
	}
	cmd := exec.Command(bin, "C18-race", fmt.Sprint(reps))
	cmd.Env = append(os.Environ(), "GORACE=halt_on_error=0")
	var stderr bytes.Buffer
	cmd.Stderr = &stderr
	err := cmd.Run()
	out := stderr.String()
	if !strings.Contains(out, "PAIR done done") {
		fmt.Fprintf(os.Stderr, "CHECK-BROKEN: C18 race worker failed: %v: %s\n", err, out[:min(len(out), 600)])
		os.Exit(2)
	}
	var races, audits, runs int64
	for _, sec := range strings.Split(out, "\nPAIR ")[1:] {
		nl := strings.Index(sec, "\n")
		if nl < 0 {
			continue
		}
		hdr := strings.Fields(sec[:nl])
		if len(hdr) < 3 || hdr[0] == "done" {
			continue
		}
		runs++
		r.Traces.Add(int64(reps))
		r.Transitions.Add(int64(reps))
		r.States.Add(1)
		body := sec[nl:]
		c := SCase{Name: hdr[0]}
		for _, line := range strings.Split(body, "\n") {
			if strings.HasPrefix(line, "AUDIT ") {
				audits++
				r.Report("race", c, []core.Finding{core.F("free-run-audit("+hdr[0]+")", "%s", line)})
			}
		}
		for strings.Contains(body, "WARNING: DATA RACE") {
			sig, blk := c20.RaceSignature(body)
			if sig == "" {
				break
			}
			races++
			r.Report("race", c, []core.Finding{core.F("race("+sig+")", "harness %s, free run: %s", hdr[0], strings.ReplaceAll(blk[:min(len(blk), 900)], "\n", " | "))})
			body = body[strings.Index(body, "WARNING: DATA RACE")+10:]
		}
	}
	r.Set("race_pass", map[string]any{"harnesses": runs, "repetitions": reps, "race_reports": races, "audit_failures": audits})
	r.Outcome(fmt.Sprintf("race-pass:%d-harnesses", runs))
}
