package c18

import (
	"encoding/base32"
	"context"
	"fmt"
	"os"
	"path/filepath"
	"strings"

	"github.com/ipld/go-ipld-prime/storage/fsstore"
	"github.com/ipld/go-ipld-prime/zzverif/vos"
	"github.com/ipld/go-ipld-prime/zzverif/vrand"

	"verif/mc/core"
)

// TOp is one operation of a thread in a schedule harness.
type TOp struct {
	Kind string `json:"op"` // put | stream2 | get | has
	Key  string `json:"key"`
}

type SCase struct {
	Name     string  `json:"harness"`
	Threads  [][]TOp `json:"threads"`
	Schedule []int   `json:"schedule"`
	Stores   int     `json:"stores,omitempty"` // Store values opened on the one directory (thread i uses store i mod Stores); 0 = 1
}

type schedResult struct {
	x   *core.Execution
	fs  []core.Finding
	obs string
}

func observer(w *world, fs *[]core.Finding, name string) func(step, last int) {
	return func(step, last int) {
		filepath.Walk(w.base, func(p string, fi os.FileInfo, err error) error {
			if err != nil || fi.IsDir() || strings.Contains(p, "/.temp/") {
				return nil
			}
			b, _ := os.ReadFile(p)
			ok := false
			for _, k := range allKeys {
				if isContentOf(k, b) {
					ok = true
				}
			}
			if !ok && len(*fs) < 4 {
				*fs = append(*fs, core.F("partial-visible(schedule:"+name+")", "after step %d (thread %d): %s holds %q", step, last, shortPath(p), b))
			}
			return nil
		})
	}
}

func runSchedule(c SCase) schedResult {
	w := newWorld(nil)
	defer w.close()
	// the store is opened before the threads start (Init is not part of the race)
	nst := c.Stores
	if nst < 1 {
		nst = 1
	}
	var stores []*fsstore.Store
	for i := 0; i < nst; i++ {
		st := &fsstore.Store{}
		if err := st.InitDefaults(w.base); err != nil {
			panic(err)
		}
		stores = append(stores, st)
	}
	sc := core.NewSched()
	w.ctl.sched = sc
	var fs []core.Finding
	results := make([][]string, len(c.Threads))
	var bodies []func()
	ctx := context.Background()
	for ti, ops := range c.Threads {
		ti, ops := ti, ops
		bodies = append(bodies, func() {
			s := stores[ti%len(stores)]
			for _, op := range ops {
				want := contentOf(op.Key)
				switch op.Kind {
				case "put":
					err := s.Put(ctx, op.Key, append([]byte(nil), want...))
					results[ti] = append(results[ti], fmt.Sprintf("put:%v", err == nil))
				case "put2":
					err := s.Put(ctx, op.Key, altContentOf(op.Key))
					results[ti] = append(results[ti], fmt.Sprintf("put:%v", err == nil))
				case "stream2":
					wr, commit, err := s.PutStream(ctx)
					if err != nil {
						results[ti] = append(results[ti], "stream:open-error")
						continue
					}
					wr.Write(want[:len(want)/2])
					wr.Write(want[len(want)/2:])
					err = commit(op.Key)
					results[ti] = append(results[ti], fmt.Sprintf("stream:%v", err == nil))
				case "get":
					got, err := s.Get(ctx, op.Key)
					switch {
					case err != nil:
						results[ti] = append(results[ti], "get:absent")
					case isContentOf(op.Key, got):
						results[ti] = append(results[ti], "get:complete")
					default:
						results[ti] = append(results[ti], "get:PARTIAL")
						fs = append(fs, core.F("reader-saw-partial(schedule:"+c.Name+")", "thread %d Get(%q) returned %q (%d of %d bytes)", ti, op.Key, got, len(got), len(want)))
					}
				case "has":
					h, _ := s.Has(ctx, op.Key)
					results[ti] = append(results[ti], fmt.Sprintf("has:%v", h))
				}
			}
		})
	}
	x := sc.Run(c.Schedule, bodies, 400, observer(w, &fs, c.Name), func(p any) bool { _, ok := p.(vos.Crashed); return ok })
	w.ctl.sched = nil
	for t, p := range x.Panics {
		fs = append(fs, core.F("panic(schedule:"+c.Name+")", "thread %d: %s", t, p))
	}
	if x.Horizon {
		fs = append(fs, core.F("horizon-reached(schedule:"+c.Name+")", "an execution did not finish within 400 steps (livelock?)"))
	}
	// after all threads are done: every key absent or complete; every acknowledged put present
	must := map[string]bool{}
	for ti, ops := range c.Threads {
		for oi, op := range ops {
			if oi < len(results[ti]) && (results[ti][oi] == "put:true" || results[ti][oi] == "stream:true") {
				must[op.Key] = true
			}
		}
	}
	for _, f := range audit(w, must, "schedule:"+c.Name) {
		f.Detail = fmt.Sprintf("schedule %v: %s", x.Choices, f.Detail)
		fs = append(fs, f)
	}
	return schedResult{x, fs, fmt.Sprint(results)}
}

func harnesses(quick bool) []SCase {
	hs := []SCase{
		{Name: "writer-writer-same-key", Threads: [][]TOp{{{"put", "k1"}}, {{"put", "k1"}}}},
		{Name: "writer-writer-same-shard-fresh", Threads: [][]TOp{{{"put", "k1"}}, {{"put", "AAAAAk1"}}}},
		{Name: "writer-reader", Threads: [][]TOp{{{"put", "k1"}}, {{"get", "k1"}, {"get", "k1"}}}},
		{Name: "stream-writer-reader-has", Threads: [][]TOp{{{"stream2", "k1"}}, {{"has", "k1"}, {"get", "k1"}}}},
		{Name: "writer-writer-different-shards", Threads: [][]TOp{{{"put", "k1"}}, {{"put", "k2"}}}},
		// two Store values opened on the one directory (two handles in a process, or two processes)
		// the same key written again with another (shorter) content while it is read
		{Name: "rewriter-reader", Threads: [][]TOp{{{"put", "k1"}, {"put2", "k1"}}, {{"get", "k1"}, {"get", "k1"}}}},
		{Name: "two-stores-stream-writers", Stores: 2, Threads: [][]TOp{{{"stream2", "k1"}}, {{"stream2", "k2"}}}},
		{Name: "two-stores-writer-writer-same-key", Stores: 2, Threads: [][]TOp{{{"put", "k1"}}, {{"stream2", "k1"}}}},
	}
	if !quick {
		hs = append(hs,
			SCase{Name: "three-threads", Threads: [][]TOp{{{"put", "k1"}}, {{"stream2", "k1"}}, {{"get", "k1"}}}},
			SCase{Name: "writer2-reader", Threads: [][]TOp{{{"put", "k1"}, {"put", "k2"}}, {{"get", "k2"}, {"get", "k1"}}}},
		)
	}
	return hs
}

func schedules(r *core.Run, quick bool) {
	bound := 3
	var cap int64 = 60000
	if !quick {
		bound = 4
		cap = 1500000
	}
	// the same-shard pair must really share a shard directory under the default escaping + sharding
	if a, b := b32tail("k1"), b32tail("AAAAAk1"); a != b {
		panic("harness: k1 and AAAAAk1 do not share a shard directory: " + a + " vs " + b)
	}
	hs := harnesses(quick)
	core.ParallelFor(len(hs), func(i int) {
		h := hs[i]
		b := bound
		if !quick && len(h.Threads) == 2 && len(h.Threads[0])+len(h.Threads[1]) <= 3 {
			b = -1 // unbounded: every interleaving of the two operations
		}
		outcomes := map[string]int{}
		st := core.ExploreSchedules(b, cap, func(prefix []int) *core.Execution {
			c := h
			c.Schedule = prefix
			res := runSchedule(c)
			r.Traces.Add(1)
			if len(res.fs) > 0 {
				c.Schedule = res.x.Choices
				r.Report("schedule", c, res.fs)
			}
			outcomes[res.obs]++
			return res.x
		}, func(x *core.Execution) {})
		r.States.Add(st.Schedules)
		r.Transitions.Add(st.Steps)
		r.Evals.Add(st.Schedules)
		r.NontrivialN(st.Schedules - 1)
		r.Set("schedules_"+h.Name, map[string]any{"schedules": st.Schedules, "steps": st.Steps, "max_points": st.MaxPoints, "preemption_bound": b, "capped": st.Capped, "distinct_thread_observations": len(outcomes)})
		if st.Capped {
			r.Capped(fmt.Sprintf("schedule exploration of %s stopped at %d schedules (preemption bound %d not completed)", h.Name, st.Schedules, b))
		}
		for o := range outcomes {
			r.Outcome("schedule:" + h.Name + ":" + o)
		}
	})
	// determinism: the same schedule twice gives identical observations
	c := hs[0]
	c.Schedule = []int{0, 0, 1, 1, 0, 1}
	a, b := runSchedule(c), runSchedule(c)
	if a.obs != b.obs || fmt.Sprint(a.x.Choices) != fmt.Sprint(b.x.Choices) {
		fmt.Fprintf(os.Stderr, "CHECK-BROKEN: replaying one schedule twice gave different observations: %s vs %s\n", a.obs, b.obs)
		os.Exit(2)
	}
	r.Sample(SCase{Name: c.Name, Threads: c.Threads, Schedule: a.x.Choices})
}

// collisions: the staging-name generator is forced to collide with an existing staging file.
func collisions(r *core.Run) {
	collMu.Lock()
	defer collMu.Unlock()
	for _, repeats := range []int{1, 2, 3} {
		w := newWorld(nil)
		s := &fsstore.Store{}
		if err := s.InitDefaults(w.base); err != nil {
			panic(err)
		}
		calls := 0
		vrand.SetSource(func(p []byte) {
			calls++
			for i := range p {
				p[i] = 0xAA
			}
			if calls > 2*repeats {
				p[0] = byte(calls)
			}
		})
		ctx := context.Background()
		// first writer takes the name and is still open
		w1, commit1, err1 := s.PutStream(ctx)
		var fs []core.Finding
		if err1 != nil {
			fs = append(fs, core.F("staging-collision/first-open-error", "%v", err1))
		} else {
			w1.Write(contentOf("k1")[:3])
			// second writer draws the same name `repeats` times
			err2 := s.Put(ctx, "k2", contentOf("k2"))
			w1.Write(contentOf("k1")[3:])
			errc := commit1("k1")
			if err2 != nil || errc != nil {
				fs = append(fs, core.F("staging-collision/write-failed", "repeats %d: put err %v, commit err %v", repeats, err2, errc))
			}
			fs = append(fs, audit(w, map[string]bool{"k1": true, "k2": true}, "staging-collision")...)
		}
		vrand.SetSource(nil)
		r.States.Add(1)
		r.Transitions.Add(int64(w.ctl.n))
		r.Traces.Add(1)
		r.NontrivialN(1)
		r.Outcome("staging-collision")
		r.Report("collision", map[string]int{"repeats": repeats}, fs)
		w.close()
	}
}

func b32tail(k string) string {
	e := base32.StdEncoding.WithPadding(base32.NoPadding).EncodeToString([]byte(k))
	return e[len(e)-3 : len(e)-1]
}
