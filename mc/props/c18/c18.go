// Package c18: filesystem store writes are atomic — a key is absent or complete, never partial.
// Real fsstore code (os/crypto-rand imports rewritten to shims by the overlay) on a real temporary
// directory per execution: every crash point, every single (thorough: double) fault, and every
// interleaving of concurrent writers/readers up to a preemption bound.
package c18

import (
	"bytes"
	"context"
	"encoding/json"
	"fmt"
	"io"
	"os"
	"path/filepath"
	"strings"
	"sync"

	"github.com/ipld/go-ipld-prime/datamodel"
	"github.com/ipld/go-ipld-prime/linking"
	cidlink "github.com/ipld/go-ipld-prime/linking/cid"
	"github.com/ipld/go-ipld-prime/node/basicnode"
	"github.com/ipld/go-ipld-prime/storage"
	"github.com/ipld/go-ipld-prime/storage/fsstore"
	cid "github.com/ipfs/go-cid"
	_ "github.com/ipld/go-ipld-prime/codec/dagcbor"
	"github.com/ipld/go-ipld-prime/zzverif/vos"

	"verif/mc/core"
)

// WOp is one write operation of a history.
type WOp struct {
	Kind   string `json:"op"`     // put | stream | putvec (storage.PutVec helper, Chunks segments) | helper-stream (storage.PutStream helper)
	Key    string `json:"key"`
	Chunks int    `json:"chunks"` // stream: number of Write calls
	End    string `json:"end"`    // stream: commit | abandon | forget (never call the committer)
}

var contents = map[string][]byte{
	"k1":     []byte("content-of-k1-0123456789"),
	"k2":     []byte("K2"),
	"AAAAAk1":   bytes.Repeat([]byte("Z"), 40), // shares the shard directory of nothing by default; see keys below
	"samesh": []byte("same shard as k1?"),
}

// altContentOf is a second, shorter content a key may be re-put with (a store is not told that keys
// are content addresses); isContentOf: b is one of the complete contents ever committed for k.
func altContentOf(k string) []byte { return []byte("v2/" + k) }

func isContentOf(k string, b []byte) bool {
	return bytes.Equal(b, contentOf(k)) || bytes.Equal(b, altContentOf(k))
}

func contentOf(k string) []byte {
	if c, ok := contents[k]; ok {
		return c
	}
	return []byte("content:" + k)
}

var allKeys = []string{"k1", "k2", "AAAAAk1", "samesh"}

// Blocks written through a link system whose write storage is the store (LinkSystem.Store: encode,
// hash, PutStream/commit under the link's binary form): two values; key = the link, content = the block.
var lsProto = cidlink.LinkPrototype{Prefix: cid.Prefix{Version: 1, Codec: 0x71, MhType: 0x12, MhLength: 32}}
var lsNodes = map[string]datamodel.Node{}
var lsKeys []string

func init() {
	mk := func(build func(na datamodel.NodeAssembler)) {
		nb := basicnode.Prototype.Any.NewBuilder()
		build(nb)
		n := nb.Build()
		ls := cidlink.DefaultLinkSystem()
		var buf bytes.Buffer
		ls.StorageWriteOpener = func(linking.LinkContext) (io.Writer, linking.BlockWriteCommitter, error) {
			return &buf, func(datamodel.Link) error { return nil }, nil
		}
		l, err := ls.Store(linking.LinkContext{}, lsProto, n)
		if err != nil {
			panic("harness: " + err.Error())
		}
		k := l.Binary()
		lsNodes[k], contents[k] = n, append([]byte(nil), buf.Bytes()...)
		lsKeys = append(lsKeys, k)
		allKeys = append(allKeys, k)
	}
	mk(func(na datamodel.NodeAssembler) {
		ma, _ := na.BeginMap(2)
		va, _ := ma.AssembleEntry("alpha")
		va.AssignString("the first entry is written before the second one fails")
		va, _ = ma.AssembleEntry("beta")
		va.AssignInt(2)
		ma.Finish()
	})
	mk(func(na datamodel.NodeAssembler) {
		la, _ := na.BeginList(2)
		la.AssembleValue().AssignString("x")
		la.AssembleValue().AssignString("y")
		la.Finish()
	})
}

// failingMap: a map node whose iterator fails at its second entry (an encode of it emits the map head
// and the first entry, then returns the error).
type failingMap struct{ datamodel.Node }

func (n failingMap) MapIterator() datamodel.MapIterator { return &failingIter{n.Node.MapIterator(), 0} }

type failingIter struct {
	datamodel.MapIterator
	n int
}

func (it *failingIter) Next() (datamodel.Node, datamodel.Node, error) {
	it.n++
	if it.n == 2 {
		return nil, nil, fmt.Errorf("harness: the node cannot be read any further")
	}
	return it.MapIterator.Next()
}

type Fault struct {
	At    int    `json:"at_call"` // index of the filesystem call (in the writer's call sequence)
	Kind  string `json:"kind"`    // crash-before | crash-after | torn | EIO | ENOSPC | EEXIST | ENOENT | EACCES | short
	Torn  int    `json:"torn_bytes,omitempty"`
}

type Case struct {
	History []WOp   `json:"history"`
	Faults  []Fault `json:"faults"`
}

// controller: counts calls, applies faults.
type controller struct {
	mu     sync.Mutex
	n      int
	faults []Fault
	log    []string
	sched  *core.Sched
	cancel func() // cancels the writer's context (fault kind "cancel")
}

func (c *controller) Before(ev vos.Event) vos.Verdict {
	if c.sched != nil {
		c.sched.Point(ev.Op + " " + filepath.Base(ev.Path))
	}
	c.mu.Lock()
	i := c.n
	c.n++
	c.log = append(c.log, fmt.Sprintf("%d:%s %s", i, ev.Op, shortPath(ev.Path)))
	var f *Fault
	for k := range c.faults {
		if c.faults[k].At == i {
			f = &c.faults[k]
		}
	}
	c.mu.Unlock()
	v := vos.Verdict{Partial: -1}
	if f == nil {
		return v
	}
	switch f.Kind {
	case "cancel":
		// the caller's context is cancelled right before this call; the call itself is answered normally
		if c.cancel != nil {
			c.cancel()
		}
	case "crash-before":
		v.Crash = true
	case "crash-after":
		v.CrashAfter = true
	case "torn":
		if ev.Op == "Write" {
			v.Partial = f.Torn
		} else {
			v.Crash = true
		}
	case "short":
		if ev.Op == "Write" {
			v.Err = io.ErrShortWrite
		} else {
			v.Err = vos.Errno("EIO", ev.Op, ev.Path)
		}
	default:
		if f.Kind == "EEXIST" && ev.Op == "Rename" {
			// rename(2) reports "exists" only when the destination is really there (platforms that do not
			// overwrite): answering EEXIST for an absent destination is not an environment that can occur
			if _, err := os.Stat(ev.Path2); err != nil {
				return v
			}
		}
		v.Err = vos.Errno(f.Kind, ev.Op, ev.Path)
	}
	return v
}

func shortPath(p string) string {
	if i := strings.Index(p, "/base"); i >= 0 {
		return p[i+1:]
	}
	return p
}

type world struct {
	tmp, base string
	ctl       *controller
	unreg     func()
}

func newWorld(faults []Fault) *world {
	tmp, err := os.MkdirTemp(core.TmpRoot(), "c18-")
	if err != nil {
		panic(err)
	}
	w := &world{tmp: tmp, base: filepath.Join(tmp, "base"), ctl: &controller{faults: faults}}
	os.Mkdir(w.base, 0o777)
	w.unreg = vos.Register(tmp, w.ctl)
	return w
}

func (w *world) close() {
	w.unreg()
	os.RemoveAll(w.tmp)
}

func (w *world) store() (*fsstore.Store, error) {
	s := &fsstore.Store{}
	return s, s.InitDefaults(w.base)
}

// runHistory performs the writer's history; returns per-op acknowledgement (nil error) and whether the process died.
func runHistory(s *fsstore.Store, h []WOp, ctl *controller) (acked []bool, errs []error, died bool) {
	ctx, cancel := context.WithCancel(context.Background())
	defer cancel()
	if ctl != nil {
		ctl.mu.Lock()
		ctl.cancel = cancel
		ctl.mu.Unlock()
	}
	acked = make([]bool, len(h))
	errs = make([]error, len(h))
	defer func() {
		if p := recover(); p != nil {
			if _, ok := p.(vos.Crashed); ok {
				died = true
				return
			}
			panic(p)
		}
	}()
	for i, op := range h {
		c := contentOf(op.Key)
		switch op.Kind {
		case "put":
			errs[i] = s.Put(ctx, op.Key, append([]byte(nil), c...))
			acked[i] = errs[i] == nil
		case "putvec":
			var vec [][]byte
			for part := 0; part < op.Chunks; part++ {
				lo, hi := len(c)*part/op.Chunks, len(c)*(part+1)/op.Chunks
				vec = append(vec, append([]byte(nil), c[lo:hi]...))
			}
			errs[i] = storage.PutVec(ctx, s, op.Key, vec)
			acked[i] = errs[i] == nil
		case "helper-put":
			errs[i] = storage.Put(ctx, s, op.Key, append([]byte(nil), c...))
			acked[i] = errs[i] == nil
		case "ls-store":
			ls := cidlink.DefaultLinkSystem()
			ls.SetWriteStorage(s)
			bin := lsKeys[int(op.Key[2]-'0')] // "ls0", "ls1": the prepared blocks (their keys are binary links)
			n := lsNodes[bin]
			if op.End == "encode-fails" {
				n = failingMap{n}
			}
			var l datamodel.Link
			l, errs[i] = ls.Store(linking.LinkContext{Ctx: ctx}, lsProto, n)
			acked[i] = errs[i] == nil
			if acked[i] && l.Binary() != bin {
				panic("harness: LinkSystem.Store computed another link than the prepared one")
			}
		case "stream", "helper-stream":
			var w io.Writer
			var commit func(string) error
			var err error
			if op.Kind == "stream" {
				w, commit, err = s.PutStream(ctx)
			} else {
				w, commit, err = storage.PutStream(ctx, s)
			}
			if err != nil {
				errs[i] = err
				continue
			}
			failed := false
			for part := 0; part < op.Chunks; part++ {
				lo, hi := len(c)*part/op.Chunks, len(c)*(part+1)/op.Chunks
				if _, err := w.Write(c[lo:hi]); err != nil {
					errs[i] = err
					failed = true
					break
				}
			}
			switch {
			case failed || op.End == "abandon":
				commit("")
			case op.End == "commit":
				errs[i] = commit(op.Key)
				acked[i] = errs[i] == nil
			}
		}
	}
	return
}

// audit: after recovery (a new process: every in-memory object dropped) check the invariant.
func audit(w *world, mustHave map[string]bool, tag string) (fs []core.Finding) {
	vos.Revive(w.tmp)
	w.ctl.mu.Lock()
	w.ctl.faults = nil
	w.ctl.mu.Unlock()
	ctx := context.Background()
	s, err := w.store()
	if err != nil {
		return []core.Finding{core.F("store-unusable-after("+tag+")/init", "re-opening the store failed: %v", err)}
	}
	for _, k := range allKeys {
		want := contentOf(k)
		has, herr := s.Has(ctx, k)
		got, gerr := s.Get(ctx, k)
		switch {
		case gerr == nil && !isContentOf(k, got):
			cause := "partial-visible"
			if len(got) > 0 && !bytes.HasPrefix(want, got) {
				cause = "mixed-content"
			}
			fs = append(fs, core.F(cause+"("+tag+")", "key %q reads %q (%d bytes), committed content is %d bytes", k, got, len(got), len(want)))
		case gerr != nil && has && herr == nil:
			fs = append(fs, core.F("has-but-unreadable("+tag+")", "key %q: Has=true, Get: %v", k, gerr))
		case gerr == nil && !has:
			fs = append(fs, core.F("readable-but-has-false("+tag+")", "key %q", k))
		}
		if mustHave[k] && gerr != nil {
			fs = append(fs, core.F("acknowledged-write-lost("+tag+")", "key %q was acknowledged before the fault, now: %v", k, gerr))
		}
	}
	// nothing outside .temp is partial
	filepath.Walk(w.base, func(p string, fi os.FileInfo, err error) error {
		if err != nil || fi.IsDir() || strings.Contains(p, "/.temp/") {
			return nil
		}
		b, _ := os.ReadFile(p)
		ok := false
		for _, k := range allKeys {
			if isContentOf(k, b) {
				ok = true
			}
		}
		if !ok {
			fs = append(fs, core.F("partial-file-outside-staging("+tag+")", "%s holds %q", shortPath(p), b))
		}
		return nil
	})
	// the store is still usable by a new process
	for _, k := range allKeys {
		if err := s.Put(ctx, k, contentOf(k)); err != nil {
			fs = append(fs, core.F("store-unusable-after("+tag+")/put", "Put(%q) after recovery: %v", k, err))
			continue
		}
		if got, err := s.Get(ctx, k); err != nil || !bytes.Equal(got, contentOf(k)) {
			fs = append(fs, core.F("store-unusable-after("+tag+")/get", "Get(%q) after recovery+Put: %v %q", k, err, got))
		}
	}
	return fs
}

func callClass(log []string, at int) string {
	if at < len(log) {
		f := strings.Fields(log[at][strings.Index(log[at], ":")+1:])
		cls := f[0]
		if len(f) > 1 && strings.Contains(f[1], ".temp") {
			cls += "(staging)"
		}
		return cls
	}
	return "?"
}

// RunCase: one history with the given faults.
func RunCase(c Case) (fs []core.Finding, calls int, log []string) {
	w := newWorld(c.Faults)
	defer w.close()
	var s *fsstore.Store
	var err error
	initDied := false
	func() {
		defer func() {
			if p := recover(); p != nil {
				if _, ok := p.(vos.Crashed); !ok {
					panic(p)
				}
				initDied = true
			}
		}()
		s, err = w.store()
	}()
	if err != nil || initDied {
		// a fault during Init: the store never opened; the directory must still be usable afterwards
		return audit(w, nil, "init-fault"), w.ctl.n, w.ctl.log
	}
	var acked []bool
	var errs []error
	var died bool
	pan := core.Guard(func() { acked, errs, died = runHistory(s, c.History, w.ctl) })
	if pan != "" {
		return []core.Finding{core.F("panic("+core.Class(pan)+")", "history %v faults %v: %s", c.History, c.Faults, pan)}, w.ctl.n, w.ctl.log
	}
	must := map[string]bool{}
	for i, a := range acked {
		if a {
			k := c.History[i].Key
			if c.History[i].Kind == "ls-store" {
				k = lsKeys[int(k[2]-'0')]
			}
			must[k] = true
		}
	}
	tag := "none"
	if len(c.Faults) > 0 {
		f := c.Faults[0]
		tag = f.Kind + "@" + callClass(w.ctl.log, f.At)
		if len(c.Faults) > 1 {
			tag += "+" + c.Faults[1].Kind + "@" + callClass(w.ctl.log, c.Faults[1].At)
		}
	}
	_ = died
	_ = errs
	for _, f := range audit(w, must, tag) {
		f.Detail = fmt.Sprintf("history %v faults %v: %s; calls: %v", c.History, c.Faults, f.Detail, w.ctl.log)
		fs = append(fs, f)
	}
	return fs, w.ctl.n, w.ctl.log
}

func histories(quick bool) [][]WOp {
	put := func(k string) WOp { return WOp{Kind: "put", Key: k} }
	st := func(k string, chunks int, end string) WOp { return WOp{"stream", k, chunks, end} }
	hs := [][]WOp{
		{put("k1")},
		{st("k1", 1, "commit")},
		{st("k1", 3, "commit")},
		{st("k1", 2, "abandon")},
		{st("k1", 2, "forget")},
		{put("k1"), put("k1")},
		{put("k1"), put("k2")},
		{put("k1"), st("AAAAAk1", 2, "commit")},
		{st("k2", 2, "abandon"), put("k2")},
		{put("k2"), st("k2", 2, "commit")},
		// through the storage.* helper functions (what a link system and most callers use)
		{WOp{"putvec", "k1", 3, ""}},
		{WOp{"putvec", "k1", 1, ""}},
		{WOp{"helper-stream", "k1", 2, "commit"}},
		{WOp{"helper-put", "k2", 0, ""}, WOp{"putvec", "k2", 2, ""}},
		// through LinkSystem.Store with the store as write storage; an encode that fails midway is one
		// more way for a streaming write to fail
		{WOp{"ls-store", "ls0", 0, ""}, WOp{"ls-store", "ls1", 0, ""}},
		{WOp{"ls-store", "ls0", 0, "encode-fails"}, WOp{"ls-store", "ls1", 0, ""}},
		{WOp{"ls-store", "ls0", 0, "encode-fails"}, WOp{"ls-store", "ls0", 0, ""}},
	}
	if !quick {
		hs = append(hs,
			[]WOp{put("k1"), put("k2"), put("samesh")},
			[]WOp{put("k1"), st("k1", 3, "commit"), put("AAAAAk1")},
			[]WOp{st("k1", 3, "forget"), st("k1", 3, "commit"), put("k1")},
			[]WOp{put("samesh"), st("k2", 1, "abandon"), st("samesh", 2, "commit")},
		)
	}
	return hs
}

var collMu sync.Mutex

var errnos = []string{"EIO", "ENOSPC", "EEXIST", "ENOENT", "EACCES", "short", "cancel"}

func Main(r *core.Run) {
	quick := r.Quick()
	hs := histories(quick)
	r.Rule("real fsstore on a real directory per execution; for every history (1–3 writes: Put, PutStream with 1–3 chunk writes then commit / abandon / never commit, the storage.Put / PutStream / PutVec helpers with 1–3 segments, same key twice, keys with and without shared shard directories, first write into a fresh store): the process dies before and after every filesystem call of the history and after every prefix of every Write (quick: 0,1,n/2,n-1 bytes); every filesystem call answered with each of EIO/ENOSPC/EEXIST/ENOENT/EACCES/short write, or preceded by the cancellation of the writer's context (thorough: every pair of faults); then a new process re-opens the directory: every key absent or complete, Has agrees, acknowledged writes present, no partial file outside the staging directory, Put+Get of every key works. Schedules: 2–3 threads (writer/writer same key, different keys same/different shard, writer/reader, writer/Has, and writers on two Store values opened on the one directory) with a scheduling point before every filesystem call, all interleavings up to the preemption bound, invariant evaluated by a raw-os observer after every step; the same thread bodies once more free-running in a -race build (no controller between the store and the os package), with a final audit. Non-trivial = a fault or a preemption was applied; distinct by (history, fault set) / by schedule.")
	r.Assume("power loss (unsynced page cache) is not modelled: the property speaks of process death")
	type job struct {
		c Case
	}
	var jobs []Case
	for _, h := range hs {
		// clean run: how many filesystem calls, and which are writes of what size
		_, n, log := RunCase(Case{History: h})
		if n == 0 {
			panic("harness: history made no filesystem calls")
		}
		// Init's own calls come first; faults are injected from call 0 so that a half-initialised directory is covered too
		for i := 0; i < n; i++ {
			jobs = append(jobs, Case{h, []Fault{{At: i, Kind: "crash-before"}}}, Case{h, []Fault{{At: i, Kind: "crash-after"}}})
			if strings.Contains(log[i], ":Write ") {
				for _, t := range []int{0, 1, 2, 7, 12, 23} {
					jobs = append(jobs, Case{h, []Fault{{At: i, Kind: "torn", Torn: t}}})
				}
			}
			for _, e := range errnos {
				jobs = append(jobs, Case{h, []Fault{{At: i, Kind: e}}})
			}
		}
		if !quick && len(h) <= 2 {
			for i := 0; i < n; i++ {
				for j := i + 1; j < n+2; j++ {
					for _, e1 := range []string{"EIO", "EEXIST", "ENOENT"} {
						for _, e2 := range []string{"EIO", "EEXIST", "ENOENT", "crash-before"} {
							jobs = append(jobs, Case{h, []Fault{{At: i, Kind: e1}, {At: j, Kind: e2}}})
						}
					}
				}
			}
		}
	}
	core.ParallelFor(len(jobs), func(i int) {
		fs, n, _ := RunCase(jobs[i])
		r.States.Add(1)
		r.Transitions.Add(int64(n))
		r.Traces.Add(1)
		r.Evals.Add(1)
		r.NontrivialN(1)
		r.Outcome("fault:" + jobs[i].Faults[0].Kind)
		r.Report("fault", jobs[i], fs)
	})
	r.Set("fault_cases", len(jobs))
	r.Sample(jobs[len(jobs)/2])
	collisions(r)
	schedules(r, quick)
	racePass(r, quick)
}

func Replay(r *core.Run, mode string, raw json.RawMessage) {
	switch mode {
	case "fault":
		var c Case
		if err := json.Unmarshal(raw, &c); err != nil {
			panic(err)
		}
		fs, _, _ := RunCase(c)
		r.Report("fault", c, fs)
	case "race":
		racePass(r, true)
	case "schedule":
		var c SCase
		if err := json.Unmarshal(raw, &c); err != nil {
			panic(err)
		}
		r.Report("schedule", c, runSchedule(c).fs)
	}
}
