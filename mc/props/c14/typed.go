package c14

import (
	"strings"
	"sort"
	"fmt"

	"github.com/ipld/go-ipld-prime/datamodel"
	"github.com/ipld/go-ipld-prime/schema"
	"github.com/ipld/go-ipld-prime/traversal"

	"verif/mc/core"
	"verif/mc/ref"
	"verif/mc/rs"
	"verif/mc/trav"
	"verif/mc/typed"
)

// Typed nodes as the thing walked: for every root type of the schema families and its richest values
// (reflection binding), both views are walked (match-everything recursion, and WalkLocal); every
// visit's path must resolve, by Get and one segment at a time, to a node that reads as the visited one.

type TCase struct {
	Schema string  `json:"schema"`
	Type   string  `json:"type"`
	Value  ref.Val `json:"value"`
	View   string  `json:"view"` // type, repr
}

const typedValuesCap = 25

func readTyped(n datamodel.Node) ref.Val { return ref.ReadTyped(n) }

func checkTypedWalk(root datamodel.Node, where string, site string) (fs []core.Finding, n int) {
	type visit struct {
		p datamodel.Path
		v ref.Val
	}
	var visits []visit
	sel, _ := trav.Rec(-1, trav.Un(trav.M(), trav.All(trav.Edge()))).Compile()
	for _, mode := range []string{"walk", "local"} {
		visits = visits[:0]
		pan := core.Guard(func() {
			if mode == "walk" {
				traversal.WalkAdv(root, sel, func(p traversal.Progress, n datamodel.Node, _ traversal.VisitReason) error {
					visits = append(visits, visit{p.Path, readTyped(n)})
					return nil
				})
			} else {
				traversal.WalkLocal(root, func(p traversal.Progress, n datamodel.Node) error {
					if n.Kind() == datamodel.Kind_Link {
						return nil // WalkLocal does not cross links; Get would (there is no link system here)
					}
					visits = append(visits, visit{p.Path, readTyped(n)})
					return nil
				})
			}
		})
		if pan != "" {
			fs = append(fs, core.F("typed-visit/"+site+"/walk-panic("+core.Class(pan)+")", "%s (%s): %s", where, mode, pan))
			continue
		}
		for _, v := range visits {
			n++
			var got datamodel.Node
			var err error
			if pan := core.Guard(func() { got, err = traversal.Get(root, v.p) }); pan != "" {
				fs = append(fs, core.F("typed-visit/"+site+"/get-panic("+core.Class(pan)+")", "%s (%s): Get(%q): %s", where, mode, v.p.String(), pan))
				continue
			}
			if err != nil {
				fs = append(fs, core.F("typed-visit/"+site+"/path-does-not-resolve", "%s (%s): visit at %q (%s): %v", where, mode, v.p.String(), v.v, err))
				continue
			}
			if gv := readTyped(got); !ref.Equal(gv, v.v) {
				fs = append(fs, core.F("typed-visit/"+site+"/path-resolves-to-other-node", "%s (%s): visit at %q saw %s, Get returns %s", where, mode, v.p.String(), v.v, gv))
				continue
			}
			// one segment at a time
			cur := root
			ok := true
			core.Guard(func() {
				for _, seg := range v.p.Segments() {
					c, err := cur.LookupBySegment(seg)
					if err != nil || c == nil {
						ok = false
						return
					}
					cur = c
				}
			})
			if !ok || !ref.Equal(readTyped(cur), v.v) {
				fs = append(fs, core.F("typed-visit/"+site+"/stepwise-differs", "%s (%s): visit at %q saw %s, stepwise lookup gives %s (found=%v)", where, mode, v.p.String(), v.v, readTyped(cur), ok))
			}
		}
	}
	if len(fs) > 3 {
		fs = fs[:3]
	}
	return
}

func CheckTyped(c TCase) (fs []core.Finding, n int) {
	eng := typed.NewBindEngine()
	for _, s := range rs.Families(false) {
		if s.Name != c.Schema || s.T(c.Type) == nil {
			continue
		}
		t := s.T(c.Type)
		var root datamodel.Node
		var err error
		if pan := core.Guard(func() {
			if s.ComplexKeys(t) {
				r, _ := s.Repr(t, c.Value)
				nb := eng.Proto(s, t.Name, true).NewBuilder()
				if err = ref.Assign(nb, r); err == nil {
					root = nb.Build()
				}
				return
			}
			nb := eng.Proto(s, t.Name, false).NewBuilder()
			if err = ref.Assign(nb, s.FeedType(t, c.Value)); err == nil {
				root = nb.Build()
			}
		}); pan != "" || err != nil || root == nil {
			return nil, 0 // a value the engine cannot build is C08's finding
		}
		if c.View == "repr" {
			root = root.(schema.TypedNode).Representation()
		}
		where := fmt.Sprintf("bindnode %s.%s value %s, %s view", s.Name, t.Name, c.Value, c.View)
		fs, n = checkTypedWalk(root, where, rs.Strategy(t)+"/"+c.View)
		if c.View == "type" && len(fs) == 0 {
			// the walk names the positions as the schema does (fields by name, members by type name, map
			// entries by the representation string of their key): the set of visited paths is that set
			const limit = 400
			pos := s.Positions(t, c.Value, limit)
			if len(pos) < limit {
				want := map[string]bool{}
				for _, p := range pos {
					want[strings.Join(p.Segs, "/")] = true
				}
				got := map[string]bool{}
				core.Guard(func() {
					traversal.WalkLocal(root, func(p traversal.Progress, nd datamodel.Node) error {
						if !nd.IsAbsent() {
							got[p.Path.String()] = true
						}
						return nil
					})
				})
				for k := range want {
					if !got[k] && !strings.Contains(k, "//") && !strings.HasSuffix(k, "/") {
						fs = append(fs, core.F("typed-visit/"+rs.Strategy(t)+"/position-not-visited-under-its-schema-name", "%s: no visit at %q; visited: %v", where, k, keys(got)))
						break
					}
				}
				for k := range got {
					if !want[k] && len(fs) == 0 {
						fs = append(fs, core.F("typed-visit/"+rs.Strategy(t)+"/visit-at-a-path-the-schema-does-not-name", "%s: visit at %q; the schema names %v", where, k, keys(want)))
						break
					}
				}
			}
		}
		return fs, n
	}
	return nil, 0
}

func typedVisits(r *core.Run) {
	type job struct {
		s *rs.Schema
		t *rs.Type
	}
	var jobs []job
	for _, s := range rs.Families(r.Quick()) {
		for _, tn := range s.Roots {
			jobs = append(jobs, job{s, s.T(tn)})
		}
	}
	core.ParallelFor(len(jobs), func(i int) {
		s, t := jobs[i].s, jobs[i].t
		vals := s.Values(t, 0)
		if len(vals) > typedValuesCap {
			vals = vals[len(vals)-typedValuesCap:]
		}
		var lc core.LocalCounters
		var nt int64
		for _, v := range vals {
			for _, view := range []string{"type", "repr"} {
				c := TCase{s.Name, t.Name, v, view}
				fs, n := CheckTyped(c)
				lc.States++
				lc.Transitions += int64(n)
				lc.Evals += int64(n)
				lc.Traces++
				if n > 1 {
					nt++
				}
				r.Report("typed", c, fs)
			}
		}
		r.Merge(&lc)
		r.NontrivialN(nt)
	})
	r.Set("typed_visits", map[string]any{"root_types": len(jobs), "values_per_type_cap": typedValuesCap})
	r.Outcome("typed-visits")
}

func keys(m map[string]bool) []string {
	var out []string
	for k := range m {
		out = append(out, k)
	}
	sort.Strings(out)
	return out
}
