// Package c14: paths address what was visited — walk paths, focus/get and stepwise lookup agree.
package c14

import (
	"encoding/json"
	"fmt"
	"strconv"
	"strings"

	"github.com/ipld/go-ipld-prime/datamodel"
	"github.com/ipld/go-ipld-prime/linking"
	"github.com/ipld/go-ipld-prime/node/basicnode"
	"github.com/ipld/go-ipld-prime/traversal"

	"verif/mc/core"
	"verif/mc/ref"
	"verif/mc/trav"
)

type Case struct {
	Mode  string         `json:"mode"` // "visit", "position", "path", "segments"
	Graph trav.GraphSpec `json:"graph"`
	Sel   *trav.Sel      `json:"selector,omitempty"`
	Segs  []string       `json:"segments,omitempty"`
	Form  string         `json:"segment_form,omitempty"` // "string", "int", "parsed"
	Local bool           `json:"walk_local,omitempty"`
	Once  bool           `json:"link_visit_only_once,omitempty"` // the walk runs with LinkVisitOnlyOnce
}

func mkPath(segs []string, form string) datamodel.Path {
	if form == "parsed" {
		return datamodel.ParsePath(strings.Join(segs, "/"))
	}
	var ps []datamodel.PathSegment
	for _, s := range segs {
		if form == "int" {
			if i, err := strconv.ParseInt(s, 10, 64); err == nil && i >= 0 && strconv.FormatInt(i, 10) == s {
				ps = append(ps, datamodel.PathSegmentOfInt(i))
				continue
			}
		}
		ps = append(ps, datamodel.PathSegmentOfString(s))
	}
	return datamodel.NewPath(ps)
}

// libGet resolves with Get and with Focus; both must agree.
func libGet(b *trav.Built, p datamodel.Path) (v ref.Val, status string, detail string) {
	var n, n2 datamodel.Node
	var err, err2 error
	pan := core.Guard(func() {
		n, err = traversal.Progress{Cfg: b.Config()}.Get(b.Root, p)
		err2 = traversal.Progress{Cfg: b.Config()}.Focus(b.Root, p, func(_ traversal.Progress, x datamodel.Node) error { n2 = x; return nil })
	})
	if pan != "" {
		return ref.Val{}, "panic", pan
	}
	if (err == nil) != (err2 == nil) {
		return ref.Val{}, "get≠focus", fmt.Sprintf("Get err %v, Focus err %v", err, err2)
	}
	if err != nil {
		return ref.Val{}, "missing", err.Error()
	}
	v, _ = ref.Read1(n)
	v2, _ := ref.Read1(n2)
	if !ref.Equal(v, v2) {
		return v, "get≠focus", fmt.Sprintf("Get %s, Focus %s", v, v2)
	}
	if len(b.Links) == 0 && !strings.Contains(b.Spec.String(), "<") {
		// no links anywhere: the package-level functions (a zero Progress) resolve the same paths
		var n3, n4 datamodel.Node
		var err3, err4 error
		if pan := core.Guard(func() {
			n3, err3 = traversal.Get(b.Root, p)
			err4 = traversal.Focus(b.Root, p, func(_ traversal.Progress, x datamodel.Node) error { n4 = x; return nil })
		}); pan != "" {
			return ref.Val{}, "panic", "package-level Get/Focus: " + pan
		}
		if err3 != nil || err4 != nil {
			return v, "get≠focus", fmt.Sprintf("package-level traversal.Get err %v, traversal.Focus err %v, Progress.Get succeeded", err3, err4)
		}
		v3, _ := ref.Read1(n3)
		v4, _ := ref.Read1(n4)
		if !ref.Equal(v, v3) || !ref.Equal(v, v4) {
			return v, "get≠focus", fmt.Sprintf("Progress.Get %s, package-level traversal.Get %s, traversal.Focus %s", v, v3, v4)
		}
	}
	return v, "ok", ""
}

// stepwise folds LookupBySegment + link load one segment at a time.
func stepwise(b *trav.Built, p datamodel.Path) (v ref.Val, status string) {
	n := b.Root
	status = "ok"
	pan := core.Guard(func() {
		for _, seg := range p.Segments() {
			k := n.Kind()
			if k != datamodel.Kind_Map && k != datamodel.Kind_List {
				status = "missing"
				return
			}
			c, err := n.LookupBySegment(seg)
			if err != nil {
				status = "missing"
				return
			}
			n = c
			for n.Kind() == datamodel.Kind_Link {
				l, _ := n.AsLink()
				x, err := b.LS.Load(linking.LinkContext{}, l, basicnode.Prototype.Any)
				if err != nil {
					status = "missing"
					return
				}
				n = x
			}
		}
	})
	if pan != "" {
		return ref.Val{}, "panic"
	}
	if status == "ok" {
		v, _ = ref.Read1(n)
	}
	return
}

// CheckPath: Get, Focus, stepwise and the reference resolver agree on one path.
func CheckPath(b *trav.Built, c Case) (fs []core.Finding, outcome string) {
	p := mkPath(c.Segs, c.Form)
	where := fmt.Sprintf("path %q (%s) over %s", c.Segs, c.Form, c.Graph)
	gv, gst, gdet := libGet(b, p)
	if gst == "panic" || gst == "get≠focus" {
		return []core.Finding{core.F("resolve/"+gst, "%s: %s", where, gdet)}, "bad"
	}
	sv, sst := stepwise(b, p)
	if sst == "panic" {
		return []core.Finding{core.F("resolve/stepwise-panic", "%s", where)}, "bad"
	}
	if gst != sst || (gst == "ok" && !ref.Equal(gv, sv)) {
		fs = append(fs, core.F("resolve/get≠stepwise", "%s: Get %s %s (%s), stepwise %s %s", where, gst, gv, gdet, sst, sv))
	}
	segs := c.Segs
	if c.Form == "parsed" {
		segs = nil
		for _, s := range strings.Split(strings.Join(c.Segs, "/"), "/") {
			if s != "" {
				segs = append(segs, s)
			}
		}
	}
	rv, rst := trav.Resolve(b.G, segs)
	switch rst {
	case "unspecified":
		return fs, "unspecified-numeral:" + gst
	case "ok":
		if gst != "ok" {
			fs = append(fs, core.F("resolve/error-on-existing-path", "%s: reference finds %s, Get fails: %s", where, rv, gdet))
		} else if !ref.Equal(rv, gv) {
			fs = append(fs, core.F("resolve/wrong-node", "%s: reference %s, Get %s", where, rv, gv))
		}
	case "missing":
		if gst == "ok" {
			fs = append(fs, core.F("resolve/success-on-missing-path", "%s: Get returned %s", where, gv))
		}
	}
	if len(fs) > 0 {
		return fs, "bad"
	}
	return nil, rst
}

// CheckVisits: every visit's reported path resolves to the visited node.
func CheckVisits(b *trav.Built, c Case) (fs []core.Finding, n int, outcome string) {
	var visits []trav.Visit
	where := fmt.Sprintf("%s over %s", c.Sel, c.Graph)
	if c.Local {
		where = "WalkLocal over " + c.Graph.String()
		pan := core.Guard(func() {
			traversal.Progress{Cfg: b.Config()}.WalkLocal(b.Root, func(p traversal.Progress, n datamodel.Node) error {
				if n.Kind() == datamodel.Kind_Link {
					return nil // WalkLocal does not cross links: the link node itself is what sits there
				}
				v, _ := ref.Read1(n)
				visits = append(visits, trav.Visit{Path: p.Path.String(), Reason: 'x', Node: v, P: p.Path.Segments()})
				return nil
			})
		})
		if pan != "" {
			return []core.Finding{core.F("visit/walklocal-panic", "%s: %s", where, pan)}, 0, "bad"
		}
	} else {
		sel, err := c.Sel.Compile()
		if err != nil {
			return nil, 0, "uncompilable"
		}
		o := trav.NoOpts()
		o.Once = c.Once
		if c.Once {
			where += " (LinkVisitOnlyOnce)"
		}
		w := trav.RunWalk(b, b.Root, sel, o)
		visits = w.Visits
	}
	for _, v := range visits {
		for _, form := range []string{"reported", "parsed"} {
			var p datamodel.Path
			if form == "reported" {
				p = datamodel.NewPath(v.P)
			} else {
				p = datamodel.ParsePath(v.Path)
			}
			gv, gst, gdet := libGet(b, p)
			n++
			if gst != "ok" {
				fs = append(fs, core.F("visit/"+form+"-path-does-not-resolve("+gst+")", "%s: visit at %q (%s): %s", where, v.Path, v.Node, gdet))
				continue
			}
			if !ref.Equal(gv, v.Node) {
				fs = append(fs, core.F("visit/"+form+"-path-resolves-to-other-node", "%s: visit at %q saw %s, Get returns %s", where, v.Path, v.Node, gv))
			}
			sv, sst := stepwise(b, p)
			if sst != "ok" || !ref.Equal(sv, v.Node) {
				fs = append(fs, core.F("visit/"+form+"-path-stepwise-differs", "%s: visit at %q saw %s, stepwise %s %s", where, v.Path, v.Node, sst, sv))
			}
		}
	}
	if len(fs) > 0 {
		return fs, n, "bad"
	}
	return nil, n, "ok"
}

func positions(g trav.Graph) [][]string {
	var out [][]string
	var rec func(n ref.Val, path []string, depth int)
	rec = func(n ref.Val, path []string, depth int) {
		for n.K == ref.KLink {
			blk, ok := g.Blocks[n.S]
			if !ok {
				return
			}
			n = blk
		}
		out = append(out, append([]string(nil), path...))
		switch n.K {
		case ref.KList:
			for i, c := range n.L {
				rec(c, append(path, strconv.Itoa(i)), depth+1)
			}
		case ref.KMap:
			for _, e := range n.M {
				rec(e.V, append(path, e.K), depth+1)
			}
		}
	}
	rec(g.Root, nil, 0)
	return out
}

var segAlphabet = []string{"a", "b", "0", "1", "5", "-1", "01", "+1", "x", ""}

func graphs(quick bool) []trav.GraphSpec {
	n, maxCuts := 4, 2
	if !quick {
		n, maxCuts = 5, 3
	}
	var out []trav.GraphSpec
	for _, t := range trav.GraphTrees(n, trav.GraphLeaves(true)[:1]) {
		for _, cuts := range trav.CutSets(t, maxCuts, false) {
			out = append(out, trav.GraphSpec{Tree: t, Cuts: cuts})
		}
	}
	for _, t := range trav.GraphTrees(3, trav.GraphLeaves(true)) {
		for _, cuts := range trav.CutSets(t, 1, true) {
			out = append(out, trav.GraphSpec{Tree: t, Cuts: cuts})
		}
	}
	for _, t := range trav.GraphTrees(3, []ref.Val{ref.Null(), ref.Bool(false)}) {
		out = append(out, trav.GraphSpec{Tree: t})
	}
	// a 12-element list and keys that are string-prefixes of one another
	wide := ref.List()
	for i := 0; i < 12; i++ {
		if i == 1 || i == 10 || i == 11 {
			wide.L = append(wide.L, ref.Map(ref.E("a", ref.Int(int64(i)))))
		} else {
			wide.L = append(wide.L, ref.Int(int64(i)))
		}
	}
	pre := ref.Map(ref.E("a", ref.List(ref.Int(1))), ref.E("ab", ref.List(ref.Int(2), ref.Int(3))), ref.E("abc", ref.Map(ref.E("a", ref.Int(4)))), ref.E("10", wide))
	out = append(out, trav.GraphSpec{Tree: wide}, trav.GraphSpec{Tree: wide, Cuts: []int{2, 12}}, trav.GraphSpec{Tree: pre}, trav.GraphSpec{Tree: pre, Cuts: []int{1, 3}})
	// keys that look like escape sequences of other path syntaxes (JSON pointer ~0 ~1, percent-encoding,
	// backslash, dot segments, query and fragment marks): a path is its segments joined by slashes,
	// nothing is escaped and nothing is unescaped
	esc := ref.Map()
	for i, k := range EscapeLooking {
		var v ref.Val = ref.Int(int64(i))
		if i%3 == 0 {
			v = ref.Map(ref.E(EscapeLooking[(i+1)%len(EscapeLooking)], ref.Int(int64(i))))
		}
		esc.M = append(esc.M, ref.E(k, v))
	}
	out = append(out, trav.GraphSpec{Tree: esc}, trav.GraphSpec{Tree: esc, Cuts: []int{1, 5}})
	// combs: siblings before and after the deep child at every depth, so that a path retained from
	// one visit is resolved after the walk went on to its siblings and their descendants
	depth := 6
	if !quick {
		depth = 18
	}
	for d := 2; d <= depth; d++ {
		for _, list := range []bool{false, true} {
			t := comb(d, list)
			out = append(out, trav.GraphSpec{Tree: t})
			// every second level its own block (containers sit at preorder positions 0,2,4,...)
			var cuts []int
			for k := 1; k < d; k += 2 {
				cuts = append(cuts, 2*k)
			}
			if len(cuts) > 0 {
				out = append(out, trav.GraphSpec{Tree: t, Cuts: cuts})
			}
		}
	}
	leaf := ref.Int(7)
	// a link whose target is itself a link (a block holding only a link): get must follow the chain
	out = append(out, trav.GraphSpec{Tree: ref.Map(ref.E("a", ref.List(leaf, ref.Map(ref.E("0", leaf), ref.E("1", ref.List(leaf)))))), Cuts: []int{1, 3, 5}})
	return out
}

// comb(d): d nested containers, each holding a distinguishable leaf before and after the nested one.
func comb(d int, list bool) ref.Val {
	var rec func(k int) ref.Val
	rec = func(k int) ref.Val {
		a, c := ref.Int(int64(k)), ref.Int(int64(100+k))
		if k == d-1 {
			if list {
				return ref.List(a, c)
			}
			return ref.Map(ref.E("a", a), ref.E("c", c))
		}
		if list {
			return ref.List(a, rec(k+1), c)
		}
		return ref.Map(ref.E("a", a), ref.E("b", rec(k+1)), ref.E("c", c))
	}
	return rec(0)
}

func selectors(quick bool) []*trav.Sel {
	var out []*trav.Sel
	for _, s := range trav.Enumerate(trav.QuickAlphabet(), 3) {
		if !strings.Contains(s.String(), ".[") {
			out = append(out, s)
		}
	}
	out = append(out, trav.Rec(-1, trav.Un(trav.M(), trav.All(trav.Edge()))))
	return out
}

func Main(r *core.Run) {
	quick := r.Quick()
	gs, ss := graphs(quick), selectors(quick)
	maxLen := 3
	var paths [][]string
	var rec func(cur []string)
	rec = func(cur []string) {
		paths = append(paths, append([]string(nil), cur...))
		if len(cur) == maxLen {
			return
		}
		for _, s := range segAlphabet {
			rec(append(cur, s))
		}
	}
	rec(nil)
	// segments that look like numerals to a lenient parser but are not decimal indices: on a list they
	// do not exist (prefixes 0x 0b 0o, digit separators, exponents); paths of ≤2 segments with one of them
	odd := []string{"0x1", "0X1", "0b1", "0o1", "1_0", "0_1", "1e0", "0x0", "1_1"}
	for _, o := range odd {
		paths = append(paths, []string{o})
		for _, a := range []string{"a", "0", "1", "10", "11"} {
			paths = append(paths, []string{a, o}, []string{o, a})
		}
	}
	r.Rule(fmt.Sprintf("%d graphs (trees ≤%d nodes, every cut into blocks, dangling links, link chains); (1) every visit of every walk with %d selectors and of WalkLocal: reported path (as reported and re-parsed) → Get/Focus/stepwise = visited node; (2) every node position addressed by its own keys/indices in string, int and parsed form; (3) every path of ≤3 segments over %v plus paths holding one numeral-looking non-index (0x1, 0b1, 1_0, 1e0 …) (%d paths) vs the reference resolver; (4) every segment string ≤3 bytes over {a / . 0 é-bytes NUL} and every path of ≤3 such segments through String/ParsePath, Equals as an equivalence; (5) paths as values: every program of path operations up to the depth in bounds.path_algebra, every live path compared with its model after every step; (6) typed nodes: both views of every family root type's richest values (reflection binding) walked, every visit's path resolved by Get and stepwise. Non-trivial = path of ≥2 segments or crossing a link; distinct by construction.", len(gs), map[bool]int{true: 4, false: 5}[quick], len(ss), segAlphabet, len(paths)))
	r.Assume("non-canonical numerals on lists (\"01\", \"+1\") are unspecified: only Get ⇔ Focus ⇔ stepwise agreement is required there")
	core.ParallelFor(len(gs), func(gi int) {
		b := trav.Build(gs[gi])
		var lc core.LocalCounters
		var nt int64
		oc := map[string]int64{}
		// (1) visits
		for _, s := range ss {
			for _, once := range []bool{false, true} {
				if once && len(b.Links) < 2 {
					continue // visit-once matters where a link can occur twice
				}
				c := Case{Mode: "visit", Graph: gs[gi], Sel: s, Once: once}
				fs, n, outcome := CheckVisits(b, c)
				lc.Transitions += int64(n)
				lc.Traces++
				lc.Evals += int64(n)
				oc["visit:"+outcome]++
				nt += int64(n)
				r.Report("visit", c, fs)
			}
		}
		c := Case{Mode: "visit", Graph: gs[gi], Local: true}
		fs, n, outcome := CheckVisits(b, c)
		lc.Transitions += int64(n)
		oc["visit-local:"+outcome]++
		r.Report("visit", c, fs)
		// (2) own keys / indices
		for _, pos := range positions(b.G) {
			for _, form := range []string{"string", "int", "parsed"} {
				c := Case{Mode: "position", Graph: gs[gi], Segs: pos, Form: form}
				fs, outcome := CheckPath(b, c)
				if outcome != "ok" && len(fs) == 0 {
					fs = append(fs, core.F("position/own-path-does-not-resolve("+outcome+")", "path %q (%s) over %s", pos, form, gs[gi]))
				}
				lc.Transitions++
				lc.Evals++
				oc["position:"+outcome]++
				if len(pos) >= 2 {
					nt++
				}
				r.Report("path", c, fs)
			}
		}
		// (3) all short paths
		for _, p := range paths {
			for _, form := range []string{"string", "int"} {
				c := Case{Mode: "path", Graph: gs[gi], Segs: p, Form: form}
				fs, outcome := CheckPath(b, c)
				lc.Transitions++
				lc.Evals++
				oc["path:"+outcome]++
				if outcome == "ok" && len(p) >= 2 {
					nt++
				}
				r.Report("path", c, fs)
			}
		}
		lc.States = int64(len(paths))
		r.Merge(&lc)
		r.NontrivialN(nt)
		for k, v := range oc {
			r.OutcomeN(k, v)
		}
	})
	segmentStrings(r)
	pathAlgebra(r)
	typedVisits(r)
	r.Sample(Case{Mode: "path", Graph: gs[len(gs)-1], Segs: []string{"a", "1", "1"}, Form: "int"})
	r.Sample(Case{Mode: "visit", Graph: gs[len(gs)/2], Sel: ss[len(ss)-1]})
}

// EscapeLooking: segments a lenient parser might take for escapes.
var EscapeLooking = []string{"~0", "~1", "~", "a~1b", "~01", "%2F", "%2f", "%", "%25", "\\", "a\\b", "..", ".", "+", "a b", " ", "?", "a?b", "#", "a#b", "&", "=", ":", "a:b", "*"}

type SegCase struct {
	Segs []string `json:"segments_hex"`
}

func CheckSegs(segs []string) (fs []core.Finding, outcome string) {
	var ps []datamodel.PathSegment
	clean := true
	for _, s := range segs {
		ps = append(ps, datamodel.PathSegmentOfString(s))
		if s == "" || strings.Contains(s, "/") {
			clean = false
		}
	}
	var p2 datamodel.Path
	var str string
	pan := core.Guard(func() {
		p := datamodel.NewPath(ps)
		str = p.String()
		p2 = datamodel.ParsePath(str)
	})
	if pan != "" {
		return []core.Finding{core.F("segments/panic", "segments %q: %s", segs, pan)}, "bad"
	}
	if !clean {
		return nil, "unclean"
	}
	if p2.Len() != len(segs) {
		return []core.Finding{core.F("segments/reparse-length", "segments %q → %q → %d segments", segs, str, p2.Len())}, "bad"
	}
	for i, s := range p2.Segments() {
		if s.String() != segs[i] || !s.Equals(ps[i]) || !ps[i].Equals(s) {
			return []core.Finding{core.F("segments/reparse-differs", "segments %q → %q → segment %d = %q", segs, str, i, s.String())}, "bad"
		}
	}
	return nil, "roundtrip"
}

func segmentStrings(r *core.Run) {
	alpha := []string{"a", "/", ".", "0", "\xc3", "\xa9", "\x00"}
	var strs [][]string // by length
	var all, short []string
	var rec func(cur string, n int)
	rec = func(cur string, n int) {
		if cur != "" {
			all = append(all, cur)
			if len(cur) <= 2 {
				short = append(short, cur)
			}
		}
		if n == 3 {
			return
		}
		for _, a := range alpha {
			rec(cur+a, n+1)
		}
	}
	rec("", 0)
	all = append(all, "")
	short = append(short, "")
	_ = strs
	var n, nt int64
	run := func(segs []string) {
		fs, outcome := CheckSegs(segs)
		n++
		if outcome == "roundtrip" && len(segs) >= 2 {
			nt++
		}
		r.Outcome("segments:" + outcome)
		hexs := make([]string, len(segs))
		for i, s := range segs {
			hexs[i] = fmt.Sprintf("%x", s)
		}
		r.Report("segments", SegCase{hexs}, fs)
	}
	for _, a := range all {
		run([]string{a})
		for _, b := range all {
			run([]string{a, b})
		}
	}
	for _, a := range short {
		for _, b := range short {
			for _, c := range short {
				run([]string{a, b, c})
			}
		}
	}
	for _, a := range EscapeLooking {
		run([]string{a})
		for _, b := range append([]string{"a", "0"}, EscapeLooking...) {
			run([]string{a, b})
			run([]string{b, a, b})
		}
	}
	// Equals is an equivalence consistent with the string form
	var segs []datamodel.PathSegment
	for _, s := range append(short, "1", "01", "-1", "9223372036854775807") {
		segs = append(segs, datamodel.PathSegmentOfString(s), datamodel.ParsePathSegment(s))
	}
	for _, i := range []int64{0, 1, 5, 9223372036854775807} {
		segs = append(segs, datamodel.PathSegmentOfInt(i))
	}
	for _, a := range segs {
		for _, b := range segs {
			n++
			if a.Equals(b) != (a.String() == b.String()) || a.Equals(b) != b.Equals(a) {
				r.Report("segments", SegCase{[]string{a.String(), b.String()}}, []core.Finding{core.F("segments/equals-inconsistent", "%q vs %q: Equals=%v", a.String(), b.String(), a.Equals(b))})
			}
		}
	}
	r.States.Add(n)
	r.Transitions.Add(n)
	r.Evals.Add(n)
	r.NontrivialN(nt)
}

func Replay(r *core.Run, mode string, raw json.RawMessage) {
	if mode == "typed" {
		var c TCase
		json.Unmarshal(raw, &c)
		fs, _ := CheckTyped(c)
		r.Report("typed", c, fs)
		return
	}
	if mode == "algebra" {
		var c AlgCase
		json.Unmarshal(raw, &c)
		fs, _ := CheckAlgebra(c.Ops)
		r.Report("algebra", c, fs)
		return
	}
	if mode == "segments" {
		var c SegCase
		json.Unmarshal(raw, &c)
		var segs []string
		for _, h := range c.Segs {
			var b []byte
			fmt.Sscanf(h, "%x", &b)
			segs = append(segs, string(b))
		}
		fs, _ := CheckSegs(segs)
		r.Report("segments", c, fs)
		return
	}
	var c Case
	if err := json.Unmarshal(raw, &c); err != nil {
		panic(err)
	}
	b := trav.Build(c.Graph)
	if mode == "visit" {
		fs, _, _ := CheckVisits(b, c)
		r.Report("visit", c, fs)
		return
	}
	fs, _ := CheckPath(b, c)
	r.Report("path", c, fs)
}
