package c14

import (
	"fmt"
	"strings"

	"github.com/ipld/go-ipld-prime/datamodel"

	"verif/mc/core"
)

// Paths are values: a path obtained once (at a visit, or by deriving it from another path) keeps
// addressing what it addressed, whatever is derived from it or from its relatives later. The state of
// this search is the list of live paths; every transition derives one more path from live ones with a
// real Path method; after every transition every live path is compared with its model ([]string).
// States are not merged: what could differ between two histories with the same models is exactly
// the hidden sharing this check looks for.

type AlgOp struct {
	Op  string `json:"op"` // app-a app-b app-int join parent pop trunc1 shift
	On  int    `json:"on"`
	Arg int    `json:"arg,omitempty"`
}

type AlgCase struct {
	Ops []AlgOp `json:"ops"`
}

type livePath struct {
	p datamodel.Path
	m []string
}

func applyAlg(live []livePath, o AlgOp) livePath {
	x := live[o.On]
	cp := func(m []string) []string { return append([]string(nil), m...) }
	switch o.Op {
	case "app-a":
		return livePath{x.p.AppendSegmentString("a"), append(cp(x.m), "a")}
	case "app-b":
		return livePath{x.p.AppendSegment(datamodel.PathSegmentOfString("b")), append(cp(x.m), "b")}
	case "app-int":
		return livePath{x.p.AppendSegmentInt(int64(len(x.m))), append(cp(x.m), fmt.Sprint(len(x.m)))}
	case "join":
		y := live[o.Arg]
		return livePath{x.p.Join(y.p), append(cp(x.m), y.m...)}
	case "parent":
		if len(x.m) == 0 {
			return livePath{x.p.Parent(), nil}
		}
		return livePath{x.p.Parent(), cp(x.m[:len(x.m)-1])}
	case "pop":
		if len(x.m) == 0 {
			return livePath{x.p.Pop(), nil}
		}
		return livePath{x.p.Pop(), cp(x.m[:len(x.m)-1])}
	case "trunc1":
		if len(x.m) < 1 {
			return livePath{x.p.Truncate(0), nil}
		}
		return livePath{x.p.Truncate(1), cp(x.m[:1])}
	case "shift":
		if len(x.m) == 0 {
			_, r := x.p.Shift()
			return livePath{r, nil}
		}
		_, r := x.p.Shift()
		return livePath{r, cp(x.m[1:])}
	}
	panic("unknown op " + o.Op)
}

func samePath(p datamodel.Path, m []string) bool {
	if p.Len() != len(m) {
		return false
	}
	for i, s := range p.Segments() {
		if s.String() != m[i] {
			return false
		}
	}
	return p.String() == strings.Join(m, "/")
}

// CheckAlgebra replays a program on fresh paths, checking every live path after every step.
func CheckAlgebra(ops []AlgOp) (fs []core.Finding, live []livePath) {
	live = []livePath{{datamodel.NewPath(nil), nil}}
	for step, o := range ops {
		var n livePath
		pan := core.Guard(func() { n = applyAlg(live, o) })
		if pan != "" {
			return []core.Finding{core.F("algebra/panic("+o.Op+")", "step %d of %v: %s", step, ops, pan)}, live
		}
		live = append(live, n)
		for i, l := range live {
			if !samePath(l.p, l.m) {
				what := "derived-path-wrong"
				if i < len(live)-1 {
					what = "earlier-path-changed"
				}
				return []core.Finding{core.F("algebra/"+what+"("+o.Op+")", "after step %d of %v: live path %d reads %q, model %q", step, ops, i, l.p.String(), strings.Join(l.m, "/"))}, live
			}
		}
	}
	return nil, live
}

func pathAlgebra(r *core.Run) {
	fullDepth, appDepth := 4, 6
	if !r.Quick() {
		fullDepth, appDepth = 5, 8
	}
	full := []string{"app-a", "app-b", "app-int", "parent", "pop", "trunc1", "shift", "join"}
	apps := []string{"app-a", "app-b"}
	var n, nt int64
	var outcomes = map[string]int64{}
	run := func(ops []AlgOp) bool {
		fs, live := CheckAlgebra(ops)
		n++
		if len(ops) >= 2 {
			nt++
		}
		outcomes[fmt.Sprintf("algebra:len%d", len(live[len(live)-1].m))]++
		if len(fs) > 0 {
			r.Report("algebra", AlgCase{append([]AlgOp(nil), ops...)}, fs)
			return false
		}
		return true
	}
	var rec func(ops []AlgOp, alphabet []string, depth int)
	rec = func(ops []AlgOp, alphabet []string, depth int) {
		if len(ops) > 0 && !run(ops) {
			return
		}
		if len(ops) == depth {
			return
		}
		nlive := len(ops) + 1
		for on := 0; on < nlive; on++ {
			for _, op := range alphabet {
				if op == "join" {
					for arg := 0; arg < nlive; arg++ {
						rec(append(ops, AlgOp{Op: op, On: on, Arg: arg}), alphabet, depth)
					}
					continue
				}
				rec(append(ops, AlgOp{Op: op, On: on}), alphabet, depth)
			}
		}
	}
	rec(nil, full, fullDepth)
	rec(nil, apps, appDepth)
	r.States.Add(n)
	r.Transitions.Add(n)
	r.Evals.Add(n)
	r.Traces.Add(n)
	r.NontrivialN(nt)
	for k, v := range outcomes {
		r.OutcomeN(k, v)
	}
	r.Set("path_algebra", map[string]any{"full_alphabet": full, "full_depth": fullDepth, "append_only_depth": appDepth, "programs": n})
}
