// Package c19: binding Go values is faithful, reversible and a pure function of its inputs.
package c19

import (
	"fmt"
	"math"
	"reflect"

	"github.com/ipfs/go-cid"
	"github.com/ipld/go-ipld-prime"
	"github.com/ipld/go-ipld-prime/datamodel"
	cidlink "github.com/ipld/go-ipld-prime/linking/cid"
	"github.com/ipld/go-ipld-prime/node/basicnode"
	"github.com/ipld/go-ipld-prime/schema"

	"verif/mc/ref"
)

// ---- the declared vocabulary of Go types, each with an explicit schema ----

type Scalars struct {
	B bool
	I int64
	F float64
	S string
	Y []byte
}

type Widths struct {
	I8  int8
	I16 int16
	I32 int32
	I   int
	U8  uint8
	U16 uint16
	U32 uint32
	U64 uint64
	F32 float32
}

type Opt struct {
	O  *int64  // optional
	N  *string // nullable
	R  int64
	ON **int64 // optional nullable
}

type Inner struct {
	A int64
	B string
}

type Lists struct {
	Ints   []int64
	Ptrs   []*string // nullable elements
	Inners []Inner
}

type OMapVals struct {
	Keys   []string
	Values map[string]int64
}

type OMap struct {
	M  OMapVals
	MP struct {
		Keys   []string
		Values map[string]*Inner
	}
}

type UnionK struct {
	Num *int64
	Str *string
	In  *Inner
}

type HasUnion struct {
	U UnionK
	V *UnionK // optional
}

// map-represented structs whose renames collide with sibling field names (a chain and a swap)
type Renamed struct {
	Size int64
	S    string
}
type RenSwap struct {
	A *int64 // optional
	B *int64 // optional
}
type HasRenames struct {
	R Renamed
	W RenSwap
}

// a kinded union: one member per representation kind, among them structs whose representation kind
// is not map (listpairs → list, stringjoin → string)
type LP struct {
	A int64
	B string
}
type UKind struct {
	Int      *int64
	LP       *LP
	KS       *KS
	OMapVals *OMapVals
	Bool     *bool
}
type HasKinded struct {
	U UKind
	L []UKind
}

type EnumS string
type EnumI int

type Enums struct {
	S EnumS
	I EnumI
}

type Links struct {
	C cid.Cid
	L cidlink.Link
	D datamodel.Link
}

type HasAny struct {
	A datamodel.Node
	O *datamodel.Node // optional
}

type Nested struct {
	In  Inner
	Opt *Inner // optional
	L   []Lists
}

// a map keyed by a struct with a string representation, bound to a Go map with a struct key
type KS struct{ A, B string }
type KMapV struct {
	Keys   []KS
	Values map[KS]int64
}
type KMap struct{ M KMapV }

// containers two levels deep over a struct with a tuple representation and an optional field
type DeepVals struct {
	Keys   []string
	Values map[string][]Inner
}
type OptT struct {
	A int64
	O *string
}
type Deep struct {
	M  DeepVals
	LL [][]Inner
	LO [][]OptT
}

// unsigned 64-bit values in containers (every accessor must hand out the full value)
type UintBag struct {
	L []uint64
	M UintVals
	P *uint64
}
type UintVals struct {
	Keys   []string
	Values map[string]uint64
}

const schemaText = `
type UintVals {String:Int}
type UintBag struct { L [Int]  M UintVals  P optional Int }
type DeepVals {String:[Inner]}
type OptT struct { A Int  O optional String } representation tuple
type Deep struct { M DeepVals  LL [[Inner]]  LO [[OptT]] }
type KS struct { A String  B String } representation stringjoin { join ":" }
type KMapV {KS:Int}
type KMap struct { M KMapV }
type Scalars struct { B Bool  I Int  F Float  S String  Y Bytes }
type Widths struct { I8 Int  I16 Int  I32 Int  I Int  U8 Int  U16 Int  U32 Int  U64 Int  F32 Float }
type Opt struct { O optional Int  N nullable String  R Int  ON optional nullable Int }
type Inner struct { A Int  B String } representation tuple
type Lists struct { Ints [Int]  Ptrs [nullable String]  Inners [Inner] }
type OMapVals {String:Int}
type OMapPtr {String:nullable Inner}
type OMap struct { M OMapVals  MP OMapPtr }
type UnionK union { | Int "num" | String "str" | Inner "in" } representation keyed
type HasUnion struct { U UnionK  V optional UnionK }
type Renamed struct { size Int (rename "s")  s String (rename "sum") }
type RenSwap struct { a optional Int (rename "b")  b optional Int (rename "a") }
type HasRenames struct { R Renamed  W RenSwap }
type LP struct { A Int  B String } representation listpairs
type UKind union { | Int int | LP list | KS string | OMapVals map | Bool bool } representation kinded
type HasKinded struct { U UKind  L [UKind] }
type EnumS enum { | Red ("r") | Green } representation string
type EnumI enum { | Zero ("0") | Seven ("7") } representation int
type Enums struct { S EnumS  I EnumI }
type Links struct { C Link  L Link  D Link }
type HasAny struct { A Any  O optional Any }
type Nested struct { In Inner  Opt optional Inner  L [Lists] }
`

var typeSystem = func() *schema.TypeSystem {
	ts, err := ipld.LoadSchemaBytes([]byte(schemaText))
	if err != nil {
		panic("harness: schema does not load: " + err.Error())
	}
	return ts
}()

// Entry describes one Go type of the vocabulary.
type Entry struct {
	Name        string
	New         func() interface{}          // pointer to a fresh zero value
	Values      func() []interface{}        // pointers to boundary values
	View        func(v interface{}) ref.Val // independent reflection-free reading of the value: type-level view
	Infer       bool                        // can bindnode infer a schema for it (struct/list/scalars only)
	BuildAtRepr bool                        // the content is handed to the representation builder (its representation equals its type-level view; struct-keyed maps)
}

func i64p(i int64) *int64   { return &i }
func strp(s string) *string { return &s }
func i64pp(i int64) **int64 { p := &i; return &p }
func nilpp() **int64        { var p *int64; return &p }
func optI(p *int64) ref.Val {
	if p == nil {
		return ref.Absent()
	}
	return ref.Int(*p)
}

func link(i int) cid.Cid {
	c, _ := cid.Cast([]byte(ref.LinksFull()[i]))
	return c
}

func innerView(in Inner) ref.Val {
	return ref.Map(ref.E("A", ref.Int(in.A)), ref.E("B", ref.Str(in.B)))
}

func listsView(x Lists) ref.Val {
	ints, ptrs, inners := ref.List(), ref.List(), ref.List()
	for _, i := range x.Ints {
		ints.L = append(ints.L, ref.Int(i))
	}
	for _, p := range x.Ptrs {
		if p == nil {
			ptrs.L = append(ptrs.L, ref.Null())
		} else {
			ptrs.L = append(ptrs.L, ref.Str(*p))
		}
	}
	for _, in := range x.Inners {
		inners.L = append(inners.L, innerView(in))
	}
	return ref.Map(ref.E("Ints", ints), ref.E("Ptrs", ptrs), ref.E("Inners", inners))
}

func unionView(u UnionK) ref.Val {
	switch {
	case u.Num != nil:
		return ref.Map(ref.E("Int", ref.Int(*u.Num)))
	case u.Str != nil:
		return ref.Map(ref.E("String", ref.Str(*u.Str)))
	case u.In != nil:
		return ref.Map(ref.E("Inner", innerView(*u.In)))
	}
	return ref.Map()
}

var Vocabulary = []Entry{
	{Name: "Scalars", Infer: true, New: func() interface{} { return &Scalars{} },
		Values: func() []interface{} {
			var out []interface{}
			for _, i := range []int64{0, -1, math.MaxInt64, math.MinInt64} {
				for _, s := range []string{"", "é\x00"} {
					out = append(out, &Scalars{B: i < 0, I: i, F: float64(i) / 3, S: s, Y: []byte(s)})
				}
			}
			out = append(out, &Scalars{F: math.MaxFloat64, Y: nil}, &Scalars{F: -0.0, Y: []byte{}})
			return out
		},
		View: func(v interface{}) ref.Val {
			x := v.(*Scalars)
			return ref.Map(ref.E("B", ref.Bool(x.B)), ref.E("I", ref.Int(x.I)), ref.E("F", ref.Float(x.F)), ref.E("S", ref.Str(x.S)), ref.E("Y", ref.Bytes(string(x.Y))))
		}},
	{Name: "Widths", Infer: true, New: func() interface{} { return &Widths{} },
		Values: func() []interface{} {
			return []interface{}{
				&Widths{},
				&Widths{I8: math.MaxInt8, I16: math.MaxInt16, I32: math.MaxInt32, I: math.MaxInt64, U8: math.MaxUint8, U16: math.MaxUint16, U32: math.MaxUint32, U64: math.MaxInt64, F32: math.MaxFloat32},
				&Widths{I8: math.MinInt8, I16: math.MinInt16, I32: math.MinInt32, I: math.MinInt64, U8: 1, U16: 1, U32: 1, U64: 1, F32: -1.5},
				&Widths{U64: math.MaxUint64},
				&Widths{U64: 1 << 63},
			}
		},
		View: func(v interface{}) ref.Val {
			x := v.(*Widths)
			return ref.Map(ref.E("I8", ref.Int(int64(x.I8))), ref.E("I16", ref.Int(int64(x.I16))), ref.E("I32", ref.Int(int64(x.I32))), ref.E("I", ref.Int(int64(x.I))),
				ref.E("U8", ref.Int(int64(x.U8))), ref.E("U16", ref.Int(int64(x.U16))), ref.E("U32", ref.Int(int64(x.U32))), ref.E("U64", ref.Uint(x.U64)), ref.E("F32", ref.Float(float64(x.F32))))
		}},
	{Name: "Opt", New: func() interface{} { return &Opt{} },
		Values: func() []interface{} {
			var out []interface{}
			for _, o := range []*int64{nil, i64p(0), i64p(-7)} {
				for _, n := range []*string{nil, strp(""), strp("x")} {
					for _, on := range []**int64{nil, nilpp(), i64pp(5)} {
						out = append(out, &Opt{O: o, N: n, R: 3, ON: on})
					}
				}
			}
			return out
		},
		View: func(v interface{}) ref.Val {
			x := v.(*Opt)
			n := ref.Null()
			if x.N != nil {
				n = ref.Str(*x.N)
			}
			on := ref.Absent()
			if x.ON != nil {
				on = ref.Null()
				if *x.ON != nil {
					on = ref.Int(**x.ON)
				}
			}
			return ref.Map(ref.E("O", optI(x.O)), ref.E("N", n), ref.E("R", ref.Int(x.R)), ref.E("ON", on))
		}},
	{Name: "Lists", New: func() interface{} { return &Lists{} },
		Values: func() []interface{} {
			return []interface{}{
				&Lists{},
				&Lists{Ints: []int64{}, Ptrs: []*string{}, Inners: []Inner{}},
				&Lists{Ints: []int64{1}, Ptrs: []*string{nil}, Inners: []Inner{{1, "a"}}},
				&Lists{Ints: []int64{2, 1}, Ptrs: []*string{strp("a"), nil, strp("")}, Inners: []Inner{{1, "a"}, {0, ""}}},
			}
		},
		View: func(v interface{}) ref.Val { return listsView(*v.(*Lists)) }},
	{Name: "OMap", New: func() interface{} { return &OMap{} },
		Values: func() []interface{} {
			mk := func(keys []string, withNil bool) *OMap {
				o := &OMap{}
				o.M.Keys = keys
				o.M.Values = map[string]int64{}
				o.MP.Keys = keys
				o.MP.Values = map[string]*Inner{}
				for i, k := range keys {
					o.M.Values[k] = int64(i)
					if withNil && i == 0 {
						o.MP.Values[k] = nil
					} else {
						o.MP.Values[k] = &Inner{int64(i), k}
					}
				}
				return o
			}
			return []interface{}{mk([]string{}, false), mk([]string{"a"}, true), mk([]string{"a", "b"}, false), mk([]string{"b", "a"}, true), mk([]string{"bb", "a", ""}, false)}
		},
		View: func(v interface{}) ref.Val {
			x := v.(*OMap)
			m, mp := ref.Map(), ref.Map()
			for _, k := range x.M.Keys {
				m.M = append(m.M, ref.E(k, ref.Int(x.M.Values[k])))
			}
			for _, k := range x.MP.Keys {
				if p := x.MP.Values[k]; p == nil {
					mp.M = append(mp.M, ref.E(k, ref.Null()))
				} else {
					mp.M = append(mp.M, ref.E(k, innerView(*p)))
				}
			}
			return ref.Map(ref.E("M", m), ref.E("MP", mp))
		}},
	{Name: "KMap", BuildAtRepr: true, New: func() interface{} { return &KMap{} },
		Values: func() []interface{} {
			mk := func(keys ...KS) *KMap {
				o := &KMap{}
				o.M.Keys = keys
				o.M.Values = map[KS]int64{}
				for i, k := range keys {
					o.M.Values[k] = int64(i + 1)
				}
				return o
			}
			return []interface{}{mk(), mk(KS{"a", "b"}), mk(KS{"b", "a"}, KS{"a", "b"}), mk(KS{"x", "y"}, KS{"é", "z"}, KS{"a", "b"})}
		},
		View: func(v interface{}) ref.Val {
			x := v.(*KMap)
			m := ref.Map()
			for _, k := range x.M.Keys {
				m.M = append(m.M, ref.E(k.A+":"+k.B, ref.Int(x.M.Values[k])))
			}
			return ref.Map(ref.E("M", m))
		}},
	{Name: "Deep", New: func() interface{} { return &Deep{} },
		Values: func() []interface{} {
			mk := func(keys []string, ll [][]Inner, lo [][]OptT) *Deep {
				d := &Deep{LL: ll, LO: lo}
				d.M.Keys = keys
				d.M.Values = map[string][]Inner{}
				for i, k := range keys {
					d.M.Values[k] = []Inner{{int64(i), k}, {7, "x"}}[:i%3]
				}
				return d
			}
			return []interface{}{
				mk([]string{}, [][]Inner{}, [][]OptT{}),
				mk([]string{"a"}, [][]Inner{{}}, [][]OptT{{}}),
				mk([]string{"a", "b"}, [][]Inner{{{1, "p"}}}, [][]OptT{{{1, nil}}}),
				mk([]string{"b", "a", "c"}, [][]Inner{{{1, "p"}, {2, "q"}}, {}, {{3, ""}}}, [][]OptT{{{1, strp("s")}, {2, nil}}, {{3, strp("")}}}),
			}
		},
		View: func(v interface{}) ref.Val {
			x := v.(*Deep)
			m := ref.Map()
			for _, k := range x.M.Keys {
				l := ref.List()
				for _, in := range x.M.Values[k] {
					l.L = append(l.L, innerView(in))
				}
				m.M = append(m.M, ref.E(k, l))
			}
			ll := ref.List()
			for _, row := range x.LL {
				l := ref.List()
				for _, in := range row {
					l.L = append(l.L, innerView(in))
				}
				ll.L = append(ll.L, l)
			}
			lo := ref.List()
			for _, row := range x.LO {
				l := ref.List()
				for _, o := range row {
					ov := ref.Absent()
					if o.O != nil {
						ov = ref.Str(*o.O)
					}
					l.L = append(l.L, ref.Map(ref.E("A", ref.Int(o.A)), ref.E("O", ov)))
				}
				lo.L = append(lo.L, l)
			}
			return ref.Map(ref.E("M", m), ref.E("LL", ll), ref.E("LO", lo))
		}},
	{Name: "UintBag", New: func() interface{} { return &UintBag{} },
		Values: func() []interface{} {
			mk := func(l []uint64, p *uint64, kv ...interface{}) *UintBag {
				b := &UintBag{L: l, P: p}
				b.M.Values = map[string]uint64{}
				for i := 0; i+1 < len(kv); i += 2 {
					b.M.Keys = append(b.M.Keys, kv[i].(string))
					b.M.Values[kv[i].(string)] = kv[i+1].(uint64)
				}
				return b
			}
			big, max := uint64(1)<<63, uint64(math.MaxUint64)
			return []interface{}{
				mk([]uint64{}, nil),
				mk([]uint64{0, 1, math.MaxInt64}, &big, "a", uint64(7)),
				mk([]uint64{big}, &max, "a", big),
				mk([]uint64{max, 0, big, big + 1}, nil, "b", max, "a", uint64(0), "c", big+5),
			}
		},
		View: func(v interface{}) ref.Val {
			x := v.(*UintBag)
			l, m := ref.List(), ref.Map()
			for _, u := range x.L {
				l.L = append(l.L, ref.Uint(u))
			}
			for _, k := range x.M.Keys {
				m.M = append(m.M, ref.E(k, ref.Uint(x.M.Values[k])))
			}
			p := ref.Absent()
			if x.P != nil {
				p = ref.Uint(*x.P)
			}
			return ref.Map(ref.E("L", l), ref.E("M", m), ref.E("P", p))
		}},
	{Name: "HasUnion", New: func() interface{} { return &HasUnion{} },
		Values: func() []interface{} {
			us := []UnionK{{Num: i64p(4)}, {Str: strp("s")}, {In: &Inner{1, "b"}}}
			var out []interface{}
			for _, u := range us {
				out = append(out, &HasUnion{U: u})
				for _, v := range us {
					v := v
					out = append(out, &HasUnion{U: u, V: &v})
				}
			}
			return out
		},
		View: func(v interface{}) ref.Val {
			x := v.(*HasUnion)
			o := ref.Absent()
			if x.V != nil {
				o = unionView(*x.V)
			}
			return ref.Map(ref.E("U", unionView(x.U)), ref.E("V", o))
		}},
	{Name: "HasKinded", New: func() interface{} { return &HasKinded{} },
		Values: func() []interface{} {
			t := true
			us := []UKind{{Int: i64p(4)}, {LP: &LP{1, "b"}}, {KS: &KS{"a", "b"}}, {OMapVals: &OMapVals{[]string{"k"}, map[string]int64{"k": 2}}}, {Bool: &t}}
			var out []interface{}
			for i, u := range us {
				out = append(out, &HasKinded{U: u, L: []UKind{}}, &HasKinded{U: u, L: []UKind{us[(i+1)%len(us)], u}})
			}
			return out
		},
		View: func(v interface{}) ref.Val {
			x := v.(*HasKinded)
			uv := func(u UKind) ref.Val {
				switch {
				case u.Int != nil:
					return ref.Map(ref.E("Int", ref.Int(*u.Int)))
				case u.LP != nil:
					return ref.Map(ref.E("LP", ref.Map(ref.E("A", ref.Int(u.LP.A)), ref.E("B", ref.Str(u.LP.B)))))
				case u.KS != nil:
					return ref.Map(ref.E("KS", ref.Map(ref.E("A", ref.Str(u.KS.A)), ref.E("B", ref.Str(u.KS.B)))))
				case u.OMapVals != nil:
					m := ref.Map()
					for _, k := range u.OMapVals.Keys {
						m.M = append(m.M, ref.E(k, ref.Int(u.OMapVals.Values[k])))
					}
					return ref.Map(ref.E("OMapVals", m))
				case u.Bool != nil:
					return ref.Map(ref.E("Bool", ref.Bool(*u.Bool)))
				}
				return ref.Map()
			}
			l := ref.List()
			for _, u := range x.L {
				l.L = append(l.L, uv(u))
			}
			return ref.Map(ref.E("U", uv(x.U)), ref.E("L", l))
		}},
	{Name: "HasRenames", New: func() interface{} { return &HasRenames{} },
		Values: func() []interface{} {
			return []interface{}{
				&HasRenames{R: Renamed{1, "x"}},
				&HasRenames{R: Renamed{2, ""}, W: RenSwap{A: i64p(3)}},
				&HasRenames{R: Renamed{0, "s"}, W: RenSwap{B: i64p(4)}},
				&HasRenames{R: Renamed{-1, "sum"}, W: RenSwap{A: i64p(5), B: i64p(6)}},
			}
		},
		View: func(v interface{}) ref.Val {
			x := v.(*HasRenames)
			return ref.Map(ref.E("R", ref.Map(ref.E("size", ref.Int(x.R.Size)), ref.E("s", ref.Str(x.R.S)))),
				ref.E("W", ref.Map(ref.E("a", optI(x.W.A)), ref.E("b", optI(x.W.B)))))
		}},
	{Name: "Enums", New: func() interface{} { return &Enums{} },
		Values: func() []interface{} {
			return []interface{}{&Enums{"Red", 0}, &Enums{"Green", 7}}
		},
		View: func(v interface{}) ref.Val {
			x := v.(*Enums)
			im := map[EnumI]string{0: "Zero", 7: "Seven"}
			return ref.Map(ref.E("S", ref.Str(string(x.S))), ref.E("I", ref.Str(im[x.I])))
		}},
	{Name: "Links", New: func() interface{} { return &Links{} },
		Values: func() []interface{} {
			return []interface{}{
				&Links{C: link(0), L: cidlink.Link{Cid: link(1)}, D: cidlink.Link{Cid: link(2)}},
				&Links{C: link(4), L: cidlink.Link{Cid: link(0)}, D: cidlink.Link{Cid: link(0)}},
			}
		},
		View: func(v interface{}) ref.Val {
			x := v.(*Links)
			return ref.Map(ref.E("C", ref.Link(string(x.C.Bytes()))), ref.E("L", ref.Link(string(x.L.Cid.Bytes()))), ref.E("D", ref.Link(string(x.D.(cidlink.Link).Cid.Bytes()))))
		}},
	{Name: "HasAny", New: func() interface{} { return &HasAny{} },
		Values: func() []interface{} {
			var out []interface{}
			for _, a := range []ref.Val{ref.Int(1), ref.Str("x"), ref.Map(ref.E("k", ref.List(ref.Int(2)))), ref.List()} {
				n := ref.Basic(a)
				out = append(out, &HasAny{A: n}, &HasAny{A: n, O: &n})
			}
			return out
		},
		View: func(v interface{}) ref.Val {
			x := v.(*HasAny)
			a, _ := ref.Read1(x.A)
			o := ref.Absent()
			if x.O != nil {
				o, _ = ref.Read1(*x.O)
			}
			return ref.Map(ref.E("A", a), ref.E("O", o))
		}},
	{Name: "Nested", New: func() interface{} { return &Nested{} },
		Values: func() []interface{} {
			return []interface{}{
				&Nested{In: Inner{1, "a"}},
				&Nested{In: Inner{0, ""}, Opt: &Inner{2, "b"}, L: []Lists{{}, {Ints: []int64{1}, Ptrs: []*string{nil}, Inners: []Inner{{3, "c"}}}}},
			}
		},
		View: func(v interface{}) ref.Val {
			x := v.(*Nested)
			o := ref.Absent()
			if x.Opt != nil {
				o = innerView(*x.Opt)
			}
			l := ref.List()
			for _, e := range x.L {
				l.L = append(l.L, listsView(e))
			}
			return ref.Map(ref.E("In", innerView(x.In)), ref.E("Opt", o), ref.E("L", l))
		}},
}

func find(name string) Entry {
	for _, e := range Vocabulary {
		if e.Name == name {
			return e
		}
	}
	panic("no vocabulary entry " + name)
}

func deref(p interface{}) interface{} { return reflect.ValueOf(p).Elem().Interface() }

var _ = fmt.Sprint
var _ = basicnode.NewInt

// TypeSystem and Find expose the vocabulary to other checks (C02 encodes bound Go values).
func TypeSystem() *schema.TypeSystem { return typeSystem }
func Find(name string) Entry          { return find(name) }
