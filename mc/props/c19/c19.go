package c19

import (
	"bytes"
	"encoding/json"
	"fmt"
	"math"
	"os"
	"os/exec"
	"sort"
	"strings"

	"github.com/ipld/go-ipld-prime"
	"github.com/ipld/go-ipld-prime/codec"
	"github.com/ipld/go-ipld-prime/codec/dagcbor"
	"github.com/ipld/go-ipld-prime/codec/dagjson"
	"github.com/ipld/go-ipld-prime/datamodel"
	"github.com/ipld/go-ipld-prime/node/bindnode"
	"github.com/ipld/go-ipld-prime/schema"

	"verif/mc/core"
	"verif/mc/ref"
)

type Case struct {
	Type  string `json:"go_type"`
	Index int    `json:"value_index"`
	Value string `json:"value_view,omitempty"`
}

// feed drops the absent markers: what a caller assembles for the typed value.
func feed(v ref.Val) ref.Val {
	switch v.K {
	case ref.KMap:
		o := ref.Map()
		for _, e := range v.M {
			if e.V.K == ref.KAbsent {
				continue
			}
			o.M = append(o.M, ref.Entry{K: e.K, V: feed(e.V)})
		}
		return o
	case ref.KList:
		o := ref.List()
		for _, c := range v.L {
			o.L = append(o.L, feed(c))
		}
		return o
	}
	return v
}

func hasIntegralFloatOrBigUint(v ref.Val) bool {
	if v.K == ref.KFloat && v.F == math.Trunc(v.F) || v.K == ref.KUint {
		return true
	}
	for _, c := range v.L {
		if hasIntegralFloatOrBigUint(c) {
			return true
		}
	}
	for _, e := range v.M {
		if hasIntegralFloatOrBigUint(e.V) {
			return true
		}
	}
	return false
}

// sortOMaps: ordered-map structs come back in the codec's key order.
func sortOMaps(typeName string, v ref.Val, less func(a, b string) bool) ref.Val {
	if typeName == "UintBag" {
		o := ref.Map()
		for _, e := range v.M {
			if e.K == "M" {
				m := ref.Map()
				m.M = append(m.M, e.V.M...)
				sort.SliceStable(m.M, func(i, j int) bool { return less(m.M[i].K, m.M[j].K) })
				o.M = append(o.M, ref.Entry{K: e.K, V: m})
			} else {
				o.M = append(o.M, e)
			}
		}
		return o
	}
	if typeName == "Deep" {
		o := ref.Map()
		for _, e := range v.M {
			if e.K == "M" {
				// only the typed map's own keys are reordered (its values are lists)
				m := ref.Map()
				m.M = append(m.M, e.V.M...)
				sort.SliceStable(m.M, func(i, j int) bool { return less(m.M[i].K, m.M[j].K) })
				o.M = append(o.M, ref.Entry{K: e.K, V: m})
			} else {
				o.M = append(o.M, e)
			}
		}
		return o
	}
	if typeName == "KMap" {
		return ref.Map(ref.E("M", ref.SortMaps(v.M[0].V, less)))
	}
	if typeName != "OMap" {
		return v
	}
	o := ref.Map()
	for _, e := range v.M {
		o.M = append(o.M, ref.Entry{K: e.K, V: ref.SortMaps(e.V, func(a, b string) bool {
			// only the typed maps' own keys are reordered; Inner is a struct with fixed field order
			if (a == "A" || a == "B") && (b == "A" || b == "B") {
				return false
			}
			return less(a, b)
		})})
	}
	return o
}

func Check(c Case) (fs []core.Finding) {
	e := find(c.Type)
	v := e.Values()[c.Index]
	want := e.View(v)
	typ := typeSystem.TypeByName(c.Type)
	where := fmt.Sprintf("%s value #%d %s", c.Type, c.Index, want)
	// 1. Wrap exposes exactly the data held
	var n schema.TypedNode
	if pan := core.Guard(func() { n = bindnode.Wrap(v, typ) }); pan != "" {
		return []core.Finding{core.F("wrap/panic("+c.Type+"|"+core.Class(pan)+")", "%s: %s", where, pan)}
	}
	var tv ref.Val
	var incs []ref.Inc
	if pan := core.Guard(func() { tv, incs = ref.ObserveTyped(n) }); pan != "" {
		return []core.Finding{core.F("wrap/read-panic("+c.Type+"|"+core.Class(pan)+")", "%s: %s", where, pan)}
	}
	for _, inc := range incs {
		fs = append(fs, core.F("wrap/"+c.Type+"/typeview:"+inc.Cause, "%s: %s", where, inc.Detail))
	}
	if !ref.Equal(tv, want) {
		fs = append(fs, core.F("wrap/content-differs("+c.Type+")", "%s: wrapped node reads %s", where, tv))
	}
	// 2. building the same content and unwrapping gives the same data
	var built datamodel.Node
	var berr error
	if pan := core.Guard(func() {
		proto := bindnode.Prototype(e.New(), typ)
		var nb datamodel.NodeBuilder = proto.NewBuilder()
		if e.BuildAtRepr {
			nb = proto.Representation().NewBuilder()
		}
		if berr = ref.Assign(nb, feed(want)); berr == nil {
			built = nb.Build()
		}
	}); pan != "" {
		fs = append(fs, core.F("build/panic("+c.Type+"|"+core.Class(pan)+")", "%s: %s", where, pan))
	} else if berr != nil {
		fs = append(fs, core.F("build/rejects-own-content("+c.Type+"|"+core.Class(berr.Error())+")", "%s: %v", where, berr))
	} else {
		var got ref.Val
		if pan := core.Guard(func() { got = e.View(bindnode.Unwrap(built)) }); pan != "" {
			fs = append(fs, core.F("unwrap/panic("+c.Type+"|"+core.Class(pan)+")", "%s: %s", where, pan))
		} else if !ref.Equal(got, want) {
			fs = append(fs, core.F("unwrap/differs("+c.Type+")", "%s: unwrapped Go value holds %s", where, got))
		}
	}
	// 2b. the wrapped node itself assigned to a fresh builder of the same Go and schema types (type
	// level: AssignNode of the typed node; representation level: of its representation) and unwrapped
	for _, lvl := range []string{"type", "repr"} {
		var got ref.Val
		var aerr error
		pan := core.Guard(func() {
			proto := bindnode.Prototype(e.New(), typ)
			var nb datamodel.NodeBuilder = proto.NewBuilder()
			var src datamodel.Node = n
			if lvl == "repr" {
				nb, src = proto.Representation().NewBuilder(), n.Representation()
			}
			if aerr = nb.AssignNode(src); aerr == nil {
				got = e.View(bindnode.Unwrap(nb.Build()))
			}
		})
		switch {
		case pan != "":
			fs = append(fs, core.F("assign-wrapped/"+lvl+"/panic("+c.Type+"|"+core.Class(pan)+")", "%s: %s", where, pan))
		case aerr != nil:
			fs = append(fs, core.F("assign-wrapped/"+lvl+"/rejects-own-node("+c.Type+"|"+core.Class(aerr.Error())+")", "%s: %v", where, aerr))
		case !ref.Equal(got, want):
			fs = append(fs, core.F("assign-wrapped/"+lvl+"/differs("+c.Type+")", "%s: unwrapped Go value holds %s", where, got))
		}
	}
	// 3. marshal / unmarshal into a fresh value
	for _, cd := range []struct {
		name string
		enc  codec.Encoder
		dec  codec.Decoder
		less func(a, b string) bool
	}{{"dag-cbor", dagcbor.Encode, dagcbor.Decode, ref.LessLenFirst}, {"dag-json", dagjson.Encode, dagjson.Decode, ref.LessBytewise}} {
		if cd.name == "dag-json" && hasIntegralFloatOrBigUint(want) {
			continue // integral floats / uint64>int64 in DAG-JSON: the recorded C04 finding and its domain limit
		}
		var enc []byte
		var err error
		fresh := e.New()
		if pan := core.Guard(func() {
			enc, err = ipld.Marshal(cd.enc, v, typ)
			if err == nil {
				_, err = ipld.Unmarshal(enc, cd.dec, fresh, typ)
			}
		}); pan != "" {
			fs = append(fs, core.F("roundtrip/"+cd.name+"/panic("+c.Type+"|"+core.Class(pan)+")", "%s: %s", where, pan))
			continue
		}
		if err != nil {
			fs = append(fs, core.F("roundtrip/"+cd.name+"/error("+c.Type+"|"+core.Class(err.Error())+")", "%s: %v (bytes %x)", where, err, enc))
			continue
		}
		if got, w := e.View(fresh), sortOMaps(c.Type, want, cd.less); !ref.Equal(got, w) {
			fs = append(fs, core.F("roundtrip/"+cd.name+"/differs("+c.Type+")", "%s: after %s round trip the fresh value holds %s", where, cd.name, got))
		}
	}
	return fs
}

// widths: an integer that does not fit the Go field must be an error, never a truncation.
func checkWidths(r *core.Run) {
	typ := typeSystem.TypeByName("Widths")
	base := ref.Map(ref.E("I8", ref.Int(0)), ref.E("I16", ref.Int(0)), ref.E("I32", ref.Int(0)), ref.E("I", ref.Int(0)), ref.E("U8", ref.Int(0)), ref.E("U16", ref.Int(0)), ref.E("U32", ref.Int(0)), ref.E("U64", ref.Int(0)), ref.E("F32", ref.Float(0.5)))
	type probe struct {
		field string
		v     ref.Val
		fits  bool
	}
	probes := []probe{
		{"I8", ref.Int(127), true}, {"I8", ref.Int(128), false}, {"I8", ref.Int(-128), true}, {"I8", ref.Int(-129), false}, {"I8", ref.Int(256), false},
		{"I16", ref.Int(32767), true}, {"I16", ref.Int(32768), false}, {"I16", ref.Int(-32769), false},
		{"I32", ref.Int(math.MaxInt32), true}, {"I32", ref.Int(math.MaxInt32 + 1), false}, {"I32", ref.Int(math.MinInt32 - 1), false},
		{"I", ref.Int(math.MaxInt64), true}, {"I", ref.Uint(1 << 63), false},
		{"U8", ref.Int(255), true}, {"U8", ref.Int(256), false}, {"U8", ref.Int(-1), false},
		{"U16", ref.Int(65535), true}, {"U16", ref.Int(65536), false}, {"U16", ref.Int(-1), false},
		{"U32", ref.Int(math.MaxUint32), true}, {"U32", ref.Int(math.MaxUint32 + 1), false},
		{"U64", ref.Uint(math.MaxUint64), true}, {"U64", ref.Int(-1), false},
	}
	for _, p := range probes {
		in := ref.Map()
		for _, e := range base.M {
			if e.K == p.field {
				in.M = append(in.M, ref.Entry{K: e.K, V: p.v})
			} else {
				in.M = append(in.M, e)
			}
		}
		for _, lvl := range []string{"type", "repr"} {
			var err error
			var got ref.Val
			pan := core.Guard(func() {
				proto := bindnode.Prototype(&Widths{}, typ)
				var nb datamodel.NodeBuilder = proto.NewBuilder()
				if lvl == "repr" {
					nb = proto.Representation().NewBuilder()
				}
				if err = ref.Assign(nb, in); err == nil {
					got = find("Widths").View(bindnode.Unwrap(nb.Build()))
				}
			})
			r.States.Add(1)
			r.Transitions.Add(1)
			r.Evals.Add(1)
			r.NontrivialN(1)
			c := map[string]any{"field": p.field, "value": p.v.String(), "level": lvl}
			switch {
			case pan != "":
				r.Report("width", c, []core.Finding{core.F("width/panic("+p.field+")", "%s=%s: %s", p.field, p.v, pan)})
			case p.fits && err != nil:
				r.Report("width", c, []core.Finding{core.F("width/rejects-fitting-value("+p.field+")", "%s=%s: %v", p.field, p.v, err)})
			case !p.fits && err == nil:
				r.Report("width", c, []core.Finding{core.F("width/int-truncated("+p.field+","+lvl+")", "%s=%s accepted; Go value now holds %s", p.field, p.v, got)})
			case p.fits && !ref.Equal(got, in):
				r.Report("width", c, []core.Finding{core.F("width/value-differs("+p.field+")", "%s=%s: holds %s", p.field, p.v, got)})
			}
			r.Outcome(fmt.Sprintf("width:fits=%v,err=%v", p.fits, err != nil))
		}
	}
}

func Main(r *core.Run) {
	r.Rule("declared vocabulary of Go types (every scalar; int8…int64/uint8…uint64/float32 widths; []T and []*T; ordered-map structs with V and *V and with a struct key of string representation; *T optional, *T nullable, **T both; keyed union struct incl. optional; string and int enums; cid.Cid, cidlink.Link, datamodel.Link; datamodel.Node Any incl. optional; nested) each with an explicit schema × boundary values of every field: Wrap reads as the independent view of the Go value, prototype-build + Unwrap reproduces it, Marshal/Unmarshal through dag-cbor and dag-json reproduces it (ordered maps in codec order); every out-of-width integer at both levels must be an error. Histories: every sequence of ≤2 (thorough: ≤3) calls out of Wrap/Prototype/Marshal+Unmarshal with explicit, inferred and Go-only arguments over five named types (two sharing a named field type, two holding distinct Go slice types that infer to the same schema list type), each history in its own subprocess (the package-level inferred type system cannot be reset), every call compared with its result as the first call of a fresh process. Non-trivial = every value case and every history of ≥2 calls; distinct by construction.")
	r.Assume("independent view of each Go value hand-written per type in mc/props/c19/types.go (no reflection walk shared with bindnode)")
	var cases []Case
	for _, e := range Vocabulary {
		for i, v := range e.Values() {
			cases = append(cases, Case{e.Name, i, e.View(v).String()})
		}
	}
	core.ParallelFor(len(cases), func(i int) {
		fs := Check(cases[i])
		r.States.Add(1)
		r.Transitions.Add(4)
		r.Traces.Add(1)
		r.Evals.Add(1)
		r.NontrivialN(1)
		r.Outcome("value:" + cases[i].Type)
		r.Report("value", cases[i], fs)
	})
	r.Sample(cases[len(cases)/2])
	checkWidths(r)
	histories(r)
}

func Replay(r *core.Run, mode string, raw json.RawMessage) {
	switch mode {
	case "value":
		var c Case
		json.Unmarshal(raw, &c)
		r.Report("value", c, Check(c))
	case "history":
		var h History
		json.Unmarshal(raw, &h)
		r.Report("history", h, runHistory(h, firstCallTable()))
	case "width":
		checkWidths(r)
	}
}

// ---- histories (each in its own process) ----

type Call struct {
	Kind string `json:"call"` // wrap-explicit, wrap-inferred, proto-explicit, proto-goonly, marshal-inferred
	Type string `json:"type"` // HA, HB, HC
}

type History struct {
	Calls []Call `json:"calls"`
}

// three named types; HA and HB share the field type HShared
type HShared struct{ X int64 }
type HA struct {
	S HShared
	N string
}
type HB struct {
	S HShared
	L []HShared
}
type HC struct{ V int64 }

// distinct Go types that infer to the same schema type ([]string and []HStr are both a list of String)
type HStr string
type HD struct{ L []string }
type HE struct {
	L []HStr
	M []string
	I []int64
}

const histSchema = `
type HD struct { L [String] }
type HE struct { L [String]  M [String]  I [Int] }
type HShared struct { X Int }
type HA struct { S HShared  N String }
type HB struct { S HShared  L [HShared] }
type HC struct { V Int }
`

func histValue(t string) interface{} {
	switch t {
	case "HA":
		return &HA{HShared{1}, "n"}
	case "HB":
		return &HB{HShared{2}, []HShared{{3}}}
	case "HD":
		return &HD{[]string{"d"}}
	case "HE":
		return &HE{[]HStr{"e"}, []string{"f", "g"}, []int64{5}}
	}
	return &HC{4}
}

// doCall runs one call in this process and returns its observation.
func doCall(c Call, ts *schema.TypeSystem) (obs string) {
	pan := core.Guard(func() {
		v := histValue(c.Type)
		switch c.Kind {
		case "wrap-explicit":
			tv, _ := ref.ObserveTyped(bindnode.Wrap(v, ts.TypeByName(c.Type)))
			obs = tv.Key()
		case "wrap-inferred":
			tv, _ := ref.ObserveTyped(bindnode.Wrap(v, nil))
			obs = tv.Key()
		case "proto-explicit":
			nb := bindnode.Prototype(v, ts.TypeByName(c.Type)).NewBuilder()
			want, _ := ref.ObserveTyped(bindnode.Wrap(histValue(c.Type), ts.TypeByName(c.Type)))
			if err := ref.Assign(nb, want); err != nil {
				obs = "error:" + err.Error()
				return
			}
			tv, _ := ref.ObserveTyped(nb.Build())
			obs = tv.Key()
		case "proto-goonly":
			nb := bindnode.Prototype(v, nil).NewBuilder()
			want, _ := ref.ObserveTyped(bindnode.Wrap(histValue(c.Type), ts.TypeByName(c.Type)))
			if err := ref.Assign(nb, want); err != nil {
				obs = "error:" + err.Error()
				return
			}
			tv, _ := ref.ObserveTyped(nb.Build())
			obs = tv.Key()
		case "marshal-inferred":
			enc, err := ipld.Marshal(dagcbor.Encode, v, nil)
			if err != nil {
				obs = "error:" + err.Error()
				return
			}
			fresh := histValue(c.Type)
			if _, err := ipld.Unmarshal(enc, dagcbor.Decode, fresh, nil); err != nil {
				obs = "error:" + err.Error()
				return
			}
			obs = fmt.Sprintf("%x|%+v", enc, fresh)
		}
	})
	if pan != "" {
		return "PANIC:" + core.Class(pan)
	}
	return obs
}

// Worker: `mc C19-worker <json history>` prints one observation per call.
func Worker(arg string) {
	var h History
	if err := json.Unmarshal([]byte(arg), &h); err != nil {
		fmt.Println("BAD-ARG", err)
		os.Exit(3)
	}
	ts, err := ipld.LoadSchemaBytes([]byte(histSchema))
	if err != nil {
		fmt.Println("BAD-SCHEMA", err)
		os.Exit(3)
	}
	var out []string
	for _, c := range h.Calls {
		out = append(out, doCall(c, ts))
	}
	b, _ := json.Marshal(out)
	fmt.Println(string(b))
}

func spawn(h History) ([]string, error) {
	arg, _ := json.Marshal(h)
	cmd := exec.Command(os.Args[0], "C19-worker", string(arg))
	var stdout, stderr bytes.Buffer
	cmd.Stdout, cmd.Stderr = &stdout, &stderr
	err := cmd.Run()
	var out []string
	if jerr := json.Unmarshal(bytes.TrimSpace(stdout.Bytes()), &out); jerr != nil {
		return nil, fmt.Errorf("worker failed: %v %s %s", err, stdout.String(), stderr.String())
	}
	return out, nil
}

var callKinds = []string{"wrap-explicit", "wrap-inferred", "proto-explicit", "proto-goonly", "marshal-inferred"}
var histTypes = []string{"HA", "HB", "HC", "HD", "HE"}

func alphabet() []Call {
	var out []Call
	for _, k := range callKinds {
		for _, t := range histTypes {
			out = append(out, Call{k, t})
		}
	}
	return out
}

var firstCalls map[Call]string

func firstCallTable() map[Call]string {
	if firstCalls != nil {
		return firstCalls
	}
	m := map[Call]string{}
	for _, c := range alphabet() {
		out, err := spawn(History{[]Call{c}})
		if err != nil || len(out) != 1 {
			fmt.Fprintf(os.Stderr, "CHECK-BROKEN: history worker: %v\n", err)
			os.Exit(2)
		}
		m[c] = out[0]
	}
	firstCalls = m
	return m
}

func runHistory(h History, first map[Call]string) (fs []core.Finding) {
	out, err := spawn(h)
	if err != nil {
		return []core.Finding{core.F("history/worker-died", "history %v: %v", h.Calls, err)}
	}
	for i, c := range h.Calls {
		want := first[c]
		if strings.HasPrefix(want, "PANIC") || strings.HasPrefix(want, "error:") {
			fs = append(fs, core.F("history/first-call-fails("+c.Kind+")", "%v as the first call of a fresh process: %s", c, want))
			return fs
		}
		if out[i] != want {
			prev := "nothing"
			if i > 0 {
				prev = h.Calls[i-1].Kind
				if h.Calls[i-1].Type == c.Type {
					prev += "(same type)"
				} else {
					prev += "(other type)"
				}
			}
			cause := "history-dependent"
			if strings.HasPrefix(out[i], "PANIC") {
				cause = "panic"
			}
			fs = append(fs, core.F(fmt.Sprintf("history/%s(%s after %s)", cause, c.Kind, prev), "history %v: call %d gives %s; as a first call it gives %s", h.Calls, i, short(out[i]), short(want)))
			return fs
		}
	}
	return nil
}

func short(s string) string {
	if len(s) > 160 {
		return s[:160] + "…"
	}
	return s
}

func histories(r *core.Run) {
	first := firstCallTable()
	depth := 2
	if !r.Quick() {
		depth = 3
	}
	alpha := alphabet()
	var hs []History
	var rec func(cur []Call)
	rec = func(cur []Call) {
		if len(cur) >= 2 {
			hs = append(hs, History{append([]Call(nil), cur...)})
		}
		if len(cur) == depth {
			return
		}
		for _, c := range alpha {
			rec(append(cur, c))
		}
	}
	rec(nil)
	core.ParallelFor(len(hs), func(i int) {
		fs := runHistory(hs[i], first)
		r.States.Add(1)
		r.Transitions.Add(int64(len(hs[i].Calls)))
		r.Traces.Add(1)
		r.Evals.Add(1)
		r.NontrivialN(1)
		r.Report("history", hs[i], fs)
	})
	r.Set("histories", len(hs))
	r.Sample(hs[len(hs)/2])
	r.Outcome("histories-run")
}
