// Package c06: no load returns data that does not hash to its link, whatever the storage does;
// store never commits after a failed write or a failed encode. Fault enumeration on the public
// storage seam (StorageReadOpener / StorageWriteOpener are the environment).
package c06

import (
	"bytes"
	"encoding/json"
	"errors"
	"fmt"

	"github.com/ipld/go-ipld-prime/datamodel"
	"github.com/ipld/go-ipld-prime/linking"
	"github.com/ipld/go-ipld-prime/node/basicnode"
	mh "github.com/multiformats/go-multihash"

	"verif/mc/core"
	"verif/mc/lsx"
	"verif/mc/props/c05"
	"verif/mc/ref"
)

var LoadFns = []string{"Load", "LoadRaw", "LoadPlusRaw", "Fill"}

type ReadCase struct {
	V       ref.Val      `json:"value"`
	Proto   lsx.Proto    `json:"proto"`
	Fn      string       `json:"fn"`
	Plan    lsx.ReadPlan `json:"plan"`
	Mut     string       `json:"mutation_class"`
	Trusted bool         `json:"trusted,omitempty"`
	Warm    string       `json:"after_clean_load_with,omitempty"` // a load function that first loads the intact block through the same LinkSystem
}

func codecName(c uint64) string {
	switch c {
	case c05.DagCbor:
		return "dag-cbor"
	case c05.DagJson:
		return "dag-json"
	case c05.Cbor:
		return "cbor"
	case c05.Json:
		return "json"
	case c05.Raw:
		return "raw"
	}
	return fmt.Sprintf("0x%x", c)
}

type loadResult struct {
	node datamodel.Node
	raw  []byte
	err  error
	pan  string
}

func doLoad(ls *linking.LinkSystem, fn string, l datamodel.Link) (r loadResult) {
	lc := linking.LinkContext{}
	r.pan = core.Guard(func() {
		switch fn {
		case "Load":
			r.node, r.err = ls.Load(lc, l, basicnode.Prototype.Any)
		case "LoadRaw":
			r.raw, r.err = ls.LoadRaw(lc, l)
		case "LoadPlusRaw":
			r.node, r.raw, r.err = ls.LoadPlusRaw(lc, l, basicnode.Prototype.Any)
		case "Fill":
			nb := basicnode.Prototype.Any.NewBuilder()
			r.err = ls.Fill(lc, l, nb)
			if r.err == nil {
				r.node = nb.Build()
			}
		}
	})
	return
}

func isHashMismatch(err error) bool {
	var hm linking.ErrHashMismatch
	if errors.As(err, &hm) {
		return true
	}
	var hmp *linking.ErrHashMismatch
	return errors.As(err, &hmp)
}

// prepared block cache per (value, proto)
type prepared struct {
	link  datamodel.Link
	block []byte
}

func prepare(v ref.Val, p lsx.Proto) prepared {
	st := lsx.NewStore()
	ls := lsx.NewLinkSystem(st)
	l, err := ls.Store(linking.LinkContext{}, p.LP(), ref.Basic(v))
	if err != nil {
		panic(fmt.Sprintf("harness: cannot store %s with %s: %v", v, p, err))
	}
	return prepared{l, st.M[l.Binary()]}
}

func CheckRead(c ReadCase) (fs []core.Finding, outcome string) {
	pr := prepare(c.V, c.Proto)
	st := lsx.NewStore()
	st.M[pr.link.Binary()] = pr.block
	ls := lsx.NewLinkSystem(st)
	ls.TrustedStorage = c.Trusted
	if c.Warm != "" {
		// history: the same LinkSystem has already loaded this link, from the intact block, successfully
		if res := doLoad(ls, c.Warm, pr.link); res.err != nil || res.pan != "" {
			return []core.Finding{core.F("load/"+c.Warm+"/"+codecName(c.Proto.Codec)+"/clean-load-fails", "value %s proto %s: %v %s", c.V, c.Proto, res.err, res.pan)}, "bad"
		}
	}
	plan := c.Plan
	st.RP = &plan
	if plan.Nested > 0 {
		// another load through the same LinkSystem (same hash function) overlaps with this one: it reads
		// the intact block of this very link and a second block, raw and decoded
		ov := ref.List(ref.Str("another block"), c.V)
		if c.Proto.Codec == c05.Raw {
			ov = ref.Bytes("another block")
		}
		other := prepare(ov, c.Proto)
		st.M[other.link.Binary()] = other.block
		st.NestedFn = func() {
			core.Guard(func() {
				ls.LoadRaw(linking.LinkContext{}, pr.link)
				ls.Load(linking.LinkContext{}, other.link, basicnode.Prototype.Any)
				ls.LoadRaw(linking.LinkContext{}, pr.link)
			})
		}
	}
	served := pr.block
	if plan.Serve != nil {
		served = plan.Serve
	}
	res := doLoad(ls, c.Fn, pr.link)
	site := c.Fn + "/" + codecName(c.Proto.Codec)
	if res.pan != "" {
		return []core.Finding{core.F("load/"+site+"/panic("+core.Class(res.pan)+")", "value %s proto %s plan %+v: %s", c.V, c.Proto, plan, res.pan)}, "panic"
	}
	ioFault := plan.OpenErr || (plan.ErrAt >= 0 && plan.ErrAt <= len(served))
	wantLink, _ := lsx.HashLink(c.Proto, served)
	hashesOK := wantLink == lsx.LinkBin(pr.link)
	if c.Trusted {
		// vacuity guard only: with trusted storage the hash must NOT be what rejects
		if res.err != nil && isHashMismatch(res.err) && c.Fn != "LoadRaw" && c.Fn != "LoadPlusRaw" {
			return []core.Finding{core.F("load/"+site+"/trusted-storage-still-hashes", "plan %+v: %v", plan, res.err)}, "bad"
		}
		if res.err == nil && !hashesOK {
			return nil, "trusted:accepted-unverified"
		}
		return nil, "trusted:other"
	}
	if res.err == nil {
		if ioFault {
			return []core.Finding{core.F("load/"+site+"/io-error-swallowed("+c.Mut+")", "value %s proto %s plan %+v: returned success although the storage failed", c.V, c.Proto, plan)}, "bad"
		}
		if !hashesOK {
			return []core.Finding{core.F("load/"+site+"/unverified-data-returned("+c.Mut+")", "value %s proto %s: served %x (original %x) does not hash to the link, yet load succeeded", c.V, c.Proto, served, pr.block)}, "bad"
		}
		// data verified: what is returned must be exactly the served block / its value
		if res.raw != nil && !bytes.Equal(res.raw, served) {
			fs = append(fs, core.F("load/"+site+"/raw≠served", "served %x returned %x", served, res.raw))
		}
		if (c.Fn == "LoadRaw" || c.Fn == "LoadPlusRaw") && res.raw == nil && len(served) > 0 {
			fs = append(fs, core.F("load/"+site+"/raw-missing", "served %x returned nil", served))
		}
		if res.node != nil && bytes.Equal(served, pr.block) {
			got, _ := ref.Read1(res.node)
			if want := c05.Canon(c.Proto.Codec, c.V); !ref.Equal(got, want) {
				fs = append(fs, core.F("load/"+site+"/value-differs("+c.Mut+")", "plan %+v: got %s want %s", plan, got, want))
			}
		}
		return fs, "ok:verified-success"
	}
	// an error was returned: no partial data may accompany it
	if res.node != nil {
		fs = append(fs, core.F("load/"+site+"/partial-node-with-error", "plan %+v err %v", plan, res.err))
	}
	if res.raw != nil && c.Fn == "LoadRaw" {
		fs = append(fs, core.F("load/"+site+"/partial-raw-with-error", "plan %+v err %v raw %x", plan, res.err, res.raw))
	}
	if res.raw != nil && c.Fn == "LoadPlusRaw" && !hashesOK {
		fs = append(fs, core.F("load/"+site+"/unverified-raw-with-error", "plan %+v err %v raw %x", plan, res.err, res.raw))
	}
	if ioFault {
		return fs, "ok:io-error-surfaced"
	}
	if !hashesOK {
		// the mismatch must win over whatever the decoder thought of the corrupted bytes
		if !isHashMismatch(res.err) {
			fs = append(fs, core.F("load/"+site+"/decode-error-before-hash("+c.Mut+")", "value %s proto %s: served %x; error is %T %v, not a hash mismatch", c.V, c.Proto, served, res.err, res.err))
			return fs, "bad"
		}
		// is precedence actually exercised? (does the corrupted block also fail to decode)
		if !decodes(c.Proto.Codec, served) {
			return fs, "ok:mismatch-wins-over-decode-error"
		}
		return fs, "ok:mismatch"
	}
	// bytes hash to the link but the load failed: legitimate only when they do not decode
	// (a colliding corruption under a truncated digest) — never for the original block
	if bytes.Equal(served, pr.block) {
		if c.Mut == "chunking-zero-read" {
			// a reader returning (0, nil) is outside io.Reader's recommended behaviour; the property promises
			// no unverified data, not availability under such a reader: only the safety side is checked
			return fs, "ok:zero-read-rejected"
		}
		fs = append(fs, core.F("load/"+site+"/rejects-intact-block("+c.Mut+"|"+core.Class(res.err.Error())+")", "value %s proto %s plan %+v: %v", c.V, c.Proto, plan, res.err))
		return fs, "bad"
	}
	return fs, "ok:collision-undecodable"
}

func decodes(codec uint64, b []byte) bool {
	st := lsx.NewStore()
	ls := lsx.NewLinkSystem(st)
	dec, err := ls.DecoderChooser(lsx.Proto{Version: 1, Codec: codec, MhType: mh.SHA2_256, MhLength: -1}.LP().BuildLink(make([]byte, 32)))
	if err != nil {
		return false
	}
	nb := basicnode.Prototype.Any.NewBuilder()
	ok := false
	core.Guard(func() { ok = dec(nb, bytes.NewReader(b)) == nil })
	return ok
}

// compositions of n into positive parts (all chunkings of a block of n bytes)
func compositions(n int) [][]int {
	if n == 0 {
		return [][]int{{}}
	}
	var out [][]int
	for first := 1; first <= n; first++ {
		for _, rest := range compositions(n - first) {
			out = append(out, append([]int{first}, rest...))
		}
	}
	return out
}

func readPlans(block []byte, others [][]byte, quick bool) (plans []lsx.ReadPlan, classes []string) {
	add := func(p lsx.ReadPlan, class string) {
		plans = append(plans, p)
		classes = append(classes, class)
	}
	n := len(block)
	add(lsx.ReadPlan{ErrAt: -1}, "intact")
	add(lsx.ReadPlan{ErrAt: -1, OpenErr: true}, "open-error")
	// every single-bit flip at every offset
	for i := 0; i < n; i++ {
		for bit := 0; bit < 8; bit++ {
			m := append([]byte(nil), block...)
			m[i] ^= 1 << bit
			add(lsx.ReadPlan{ErrAt: -1, Serve: m}, "bitflip")
		}
	}
	// every truncation
	for i := 0; i < n; i++ {
		add(lsx.ReadPlan{ErrAt: -1, Serve: append([]byte{}, block[:i]...)}, "truncation")
	}
	// extensions
	for _, ext := range [][]byte{{0x00}, {' '}, {'\n'}, {0xf6}, {'1'}, {0xff}, {' ', ' '}, {0x00, 0x00}, {'}', ' '}} {
		add(lsx.ReadPlan{ErrAt: -1, Serve: append(append([]byte{}, block...), ext...)}, "extension")
	}
	add(lsx.ReadPlan{ErrAt: -1, Serve: append(append([]byte{}, block...), block...)}, "extension-second-item")
	// substitution by every other block
	for _, o := range others {
		if !bytes.Equal(o, block) {
			add(lsx.ReadPlan{ErrAt: -1, Serve: append([]byte{}, o...)}, "substitution")
		}
	}
	// a read error at every offset (including instead of EOF)
	for i := 0; i <= n; i++ {
		add(lsx.ReadPlan{ErrAt: i}, "read-error")
		if i > 0 {
			add(lsx.ReadPlan{ErrAt: i, Chunks: []int{1}}, "read-error")
		}
	}
	// chunkings: all compositions for short blocks, all 1- and 2-cut chunkings above; zero-length reads; n>0 with EOF
	if n <= 8 {
		for _, c := range compositions(n) {
			add(lsx.ReadPlan{ErrAt: -1, Chunks: c}, "chunking")
		}
	} else {
		for i := 1; i < n; i++ {
			add(lsx.ReadPlan{ErrAt: -1, Chunks: []int{i}}, "chunking")
			if !quick || i%3 == 1 {
				for j := 1; i+j < n; j++ {
					add(lsx.ReadPlan{ErrAt: -1, Chunks: []int{i, j}}, "chunking")
				}
			}
		}
	}
	ones := make([]int, n)
	for i := range ones {
		ones[i] = 1
	}
	add(lsx.ReadPlan{ErrAt: -1, Chunks: ones}, "chunking")
	add(lsx.ReadPlan{ErrAt: -1, Chunks: ones, EOFWithData: true}, "chunking-eof-with-data")
	add(lsx.ReadPlan{ErrAt: -1, EOFWithData: true}, "chunking-eof-with-data")
	add(lsx.ReadPlan{ErrAt: -1, Chunks: []int{0, 1, 0}}, "chunking-zero-read")
	// corrupted AND chunked: the drain path after a decode error must see the remainder
	if n > 1 {
		m := append([]byte(nil), block...)
		m[0] ^= 0xff
		add(lsx.ReadPlan{ErrAt: -1, Serve: m, Chunks: []int{1}}, "bitflip+chunking")
		add(lsx.ReadPlan{ErrAt: -1, Serve: m, Chunks: ones}, "bitflip+chunking")
		m2 := append([]byte(nil), block...)
		m2[n-1] ^= 0x01
		add(lsx.ReadPlan{ErrAt: -1, Serve: m2, Chunks: ones}, "bitflip+chunking")
		add(lsx.ReadPlan{ErrAt: -1, Serve: append(append([]byte{}, block...), 0x00), Chunks: ones}, "extension+chunking")
	}
	return
}

type blockSpec struct {
	v ref.Val
	p lsx.Proto
}

func blocks(quick bool) []blockSpec {
	var out []blockSpec
	vals := map[uint64][]ref.Val{
		c05.DagCbor: {ref.Map(ref.E("a", ref.Int(1)), ref.E("b", ref.List(ref.Str("x"), ref.Null()))), ref.Int(7), ref.List(), ref.Str("hello"), ref.Map(ref.E("l", ref.Link(ref.LinksFull()[1])))},
		c05.DagJson: {ref.Map(ref.E("a", ref.Int(1)), ref.E("b", ref.List(ref.Str("x"), ref.Null()))), ref.Int(7), ref.List(), ref.Bytes("\x01\x02"), ref.Str("h")},
		c05.Cbor:    {ref.Map(ref.E("a", ref.Int(1))), ref.Float(1.5)},
		c05.Json:    {ref.Map(ref.E("a", ref.Int(1))), ref.List(ref.Bool(true), ref.Str("é"))},
		c05.Raw:     {ref.Bytes("raw bytes"), ref.Bytes(""), ref.Bytes("\x00")},
	}
	if !quick {
		for _, v := range ref.Trees(4, ref.LeavesTiny()) {
			for _, codec := range []uint64{c05.DagCbor, c05.DagJson} {
				if c05.InDomain(codec, v) {
					vals[codec] = append(vals[codec], v)
				}
			}
		}
	}
	hashes := []lsx.Proto{
		{Version: 1, MhType: mh.SHA2_256, MhLength: -1},
		{Version: 1, MhType: mh.SHA2_512, MhLength: 20},
		{Version: 1, MhType: mh.IDENTITY, MhLength: -1},
		{Version: 1, MhType: mh.SHA2_256, MhLength: 1},
	}
	if !quick {
		hashes = append(hashes, lsx.Proto{Version: 1, MhType: mh.SHA3_256, MhLength: -1}, lsx.Proto{Version: 1, MhType: mh.BLAKE3, MhLength: 32})
	}
	for _, codec := range c05.Codecs {
		for vi, v := range vals[codec] {
			for hi, h := range hashes {
				if vi >= 5 && hi != vi%len(hashes) {
					continue // thorough extra values: one hash function each, rotating
				}
				h.Codec = codec
				out = append(out, blockSpec{v, h})
			}
		}
	}
	return out
}

func Main(r *core.Run) {
	bs := blocks(r.Quick())
	r.Rule("for every block (codec × value × hash function incl. identity and 1-byte truncated digests) and each of Load/LoadRaw/LoadPlusRaw/Fill: every single-bit flip at every offset, every truncation, 10 extensions, substitution by every other block of the codec, a read error at every offset, every chunking (all compositions ≤8 bytes; all 1-/2-cut chunkings above), zero-length reads, data+EOF, open error; every content-changing fault once more after the same LinkSystem loaded the intact block (history of two loads); store side: writer failing (error / short write) at every Write call, accessor failure at every accessor call of the encoder, opener error, commit error. Non-trivial = served bytes differ from the stored block, or a fault was injected; distinct by (block, fn, plan).")
	r.Assume("oracle: a non-error return implies the served block hashes to the link (hash recomputed by the harness: crypto/sha256, sha512, identity by hand; go-multihash for sha3/blake3)")
	type job struct {
		b      blockSpec
		others [][]byte
	}
	byCodec := map[uint64][][]byte{}
	for _, b := range bs {
		byCodec[b.p.Codec] = append(byCodec[b.p.Codec], prepare(b.v, b.p).block)
	}
	core.ParallelFor(len(bs), func(i int) {
		b := bs[i]
		pr := prepare(b.v, b.p)
		plans, classes := readPlans(pr.block, byCodec[b.p.Codec], r.Quick())
		var lc core.LocalCounters
		for pi, plan := range plans {
			for _, fn := range LoadFns {
				c := ReadCase{V: b.v, Proto: b.p, Fn: fn, Plan: plan, Mut: classes[pi]}
				fs, outcome := CheckRead(c)
				lc.Transitions++
				lc.Evals++
				lc.Traces++
				r.Outcome(fn + "/" + outcome)
				if classes[pi] != "intact" {
					r.NontrivialN(1)
				}
				r.Report("read", c, fs)
				if plan.Serve != nil {
					// the same fault after the link was loaded cleanly once through this LinkSystem
					for _, warm := range []string{fn, "Load"} {
						if warm == "Load" && fn == "Load" {
							continue
						}
						cw := c
						cw.Warm = warm
						fs, outcome := CheckRead(cw)
						lc.Transitions += 2
						lc.Evals++
						lc.Traces++
						r.Outcome(fn + "/after-clean-load/" + outcome)
						r.NontrivialN(1)
						r.Report("read", cw, fs)
					}
				}
				if plan.Serve != nil && plan.Nested == 0 && (r.Quick() || pi%4 == 0) {
					// (thorough tier: every fourth plan — each of these cases is four loads)
					// the same fault while another load through the same LinkSystem overlaps with it, before
					// each of the first three read calls (the last of them is the one that reports the end)
					for k := 1; k <= 3; k++ {
						cn := c
						cn.Plan.Nested = k
						fs, outcome := CheckRead(cn)
						lc.Transitions += 4
						lc.Evals++
						lc.Traces++
						r.Outcome(fn + "/overlapping-load/" + outcome)
						r.NontrivialN(1)
						r.Report("read", cn, fs)
					}
				}
				if pi%7 == 0 && plan.Serve != nil {
					// vacuity guard: same fault with TrustedStorage
					c.Trusted = true
					fs, outcome := CheckRead(c)
					lc.Evals++
					r.Outcome(fn + "/" + outcome)
					r.Report("read", c, fs)
				}
			}
		}
		lc.States = int64(len(plans))
		r.Merge(&lc)
	})
	r.Set("blocks", len(bs))
	r.Sample(ReadCase{V: bs[0].v, Proto: bs[0].p, Fn: "Fill", Plan: lsx.ReadPlan{ErrAt: -1, Serve: []byte{0xa2, 0x61}}, Mut: "truncation"})
	storeSide(r, bs)
}

func Replay(r *core.Run, mode string, raw json.RawMessage) {
	switch mode {
	case "read":
		var c ReadCase
		if err := json.Unmarshal(raw, &c); err != nil {
			panic(err)
		}
		fs, _ := CheckRead(c)
		r.Report("read", c, fs)
	case "write":
		var c WriteCase
		if err := json.Unmarshal(raw, &c); err != nil {
			panic(err)
		}
		fs, _ := CheckWrite(c)
		r.Report("write", c, fs)
	}
}
