package c06

import (
	"bytes"

	"github.com/ipld/go-ipld-prime/datamodel"
	"github.com/ipld/go-ipld-prime/linking"

	"verif/mc/core"
	"verif/mc/lsx"
	"verif/mc/ref"
)

type WriteCase struct {
	V          ref.Val       `json:"value"`
	Proto      lsx.Proto     `json:"proto"`
	Plan       lsx.WritePlan `json:"plan"`
	AccessFail int           `json:"accessor_fail_at"` // -1 = none
}

func CheckWrite(c WriteCase) (fs []core.Finding, outcome string) {
	st := lsx.NewStore()
	st.M["sentinel"] = []byte("s")
	ls := lsx.NewLinkSystem(st)
	plan := c.Plan
	st.WP = &plan
	ctl := &ref.FailCtl{FailAt: c.AccessFail}
	n := ref.FaultNode(ref.Node(c.V), ctl)
	var l datamodel.Link
	var err error
	site := codecName(c.Proto.Codec)
	if p := core.Guard(func() { l, err = ls.Store(linking.LinkContext{}, c.Proto.LP(), n) }); p != "" {
		return []core.Finding{core.F("store/"+site+"/panic("+core.Class(p)+")", "value %s plan %+v accessor-fail %d: %s", c.V, plan, c.AccessFail, p)}, "panic"
	}
	writeFailed := plan.FailWrite >= 0 && st.WriteCalls > plan.FailWrite
	encodeFailed := c.AccessFail >= 0 && ctl.Calls > c.AccessFail
	faulted := plan.OpenErr || writeFailed || encodeFailed
	switch {
	case faulted:
		cls := "write-failed"
		if plan.Short {
			cls = "short-write"
		}
		if encodeFailed {
			cls = "encode-error"
		}
		if plan.OpenErr {
			cls = "open-error"
		}
		if len(st.Commits) > 0 {
			fs = append(fs, core.F("store/"+site+"/commit-after-"+cls, "value %s plan %+v accessor-fail %d: committer invoked (err=%v); stored %q", c.V, plan, c.AccessFail, err, st.M[st.Commits[0]]))
		}
		if err == nil {
			fs = append(fs, core.F("store/"+site+"/error-swallowed("+cls+")", "value %s plan %+v accessor-fail %d: Store returned link %v and nil error", c.V, plan, c.AccessFail, l))
		}
		if len(st.M) != 1 || !bytes.Equal(st.M["sentinel"], []byte("s")) {
			fs = append(fs, core.F("store/"+site+"/storage-changed-after-"+cls, "storage now has %d entries", len(st.M)))
		}
		return fs, "faulted:" + cls
	case plan.CommitErr:
		if err == nil {
			fs = append(fs, core.F("store/"+site+"/commit-error-swallowed", "value %s", c.V))
		}
		return fs, "commit-error"
	}
	if err != nil {
		fs = append(fs, core.F("store/"+site+"/unfaulted-error("+core.Class(err.Error())+")", "value %s plan %+v: %v", c.V, plan, err))
		return fs, "bad"
	}
	if want, ok := lsx.HashLink(c.Proto, st.M[l.Binary()]); !ok || want != lsx.LinkBin(l) {
		fs = append(fs, core.F("store/"+site+"/stored-block-does-not-hash-to-link", "value %s", c.V))
	}
	return fs, "ok"
}

func storeSide(r *core.Run, bs []blockSpec) {
	core.ParallelFor(len(bs), func(i int) {
		b := bs[i]
		// measure the unfaulted run: number of Write calls and accessor calls
		st := lsx.NewStore()
		ls := lsx.NewLinkSystem(st)
		ctl := &ref.FailCtl{FailAt: -1}
		if _, err := ls.Store(linking.LinkContext{}, b.p.LP(), ref.FaultNode(ref.Node(b.v), ctl)); err != nil {
			r.Report("write", WriteCase{V: b.v, Proto: b.p, Plan: lsx.WritePlan{FailWrite: -1}, AccessFail: -1}, []core.Finding{core.F("store/unfaulted-error", "%v", err)})
			return
		}
		writes, accesses := st.WriteCalls, ctl.Calls
		var cases []WriteCase
		cases = append(cases, WriteCase{V: b.v, Proto: b.p, Plan: lsx.WritePlan{FailWrite: -1}, AccessFail: -1})
		cases = append(cases, WriteCase{V: b.v, Proto: b.p, Plan: lsx.WritePlan{FailWrite: -1, OpenErr: true}, AccessFail: -1})
		cases = append(cases, WriteCase{V: b.v, Proto: b.p, Plan: lsx.WritePlan{FailWrite: -1, CommitErr: true}, AccessFail: -1})
		for k := 0; k < writes; k++ {
			cases = append(cases, WriteCase{V: b.v, Proto: b.p, Plan: lsx.WritePlan{FailWrite: k}, AccessFail: -1})
			cases = append(cases, WriteCase{V: b.v, Proto: b.p, Plan: lsx.WritePlan{FailWrite: k, Short: true}, AccessFail: -1})
		}
		for j := 0; j < accesses; j++ {
			cases = append(cases, WriteCase{V: b.v, Proto: b.p, Plan: lsx.WritePlan{FailWrite: -1}, AccessFail: j})
		}
		var lc core.LocalCounters
		for _, c := range cases {
			fs, outcome := CheckWrite(c)
			lc.States++
			lc.Transitions++
			lc.Evals++
			lc.Traces++
			r.Outcome("Store/" + outcome)
			if outcome != "ok" {
				r.NontrivialN(1)
			}
			r.Report("write", c, fs)
		}
		r.Merge(&lc)
	})
	r.Sample(WriteCase{V: bs[0].v, Proto: bs[0].p, Plan: lsx.WritePlan{FailWrite: 1, Short: true}, AccessFail: -1})
}
