package c12

import "verif/mc/core"

// typed engines are explored by the typed check binary (mctyped); see typed_*.go there.
var typedMain = func(r *core.Run, b bounds) {}
var typedReplay = func(r *core.Run, c Case) {}
