package c12

import (
	"fmt"
	"sort"
	"strings"

	"github.com/ipld/go-ipld-prime/datamodel"
	"github.com/ipld/go-ipld-prime/schema"

	"verif/mc/core"
	"verif/mc/ref"
	"verif/mc/rs"
	"verif/mc/typed"
)

// Typed engines: the same exploration idea on the map-shaped typed assemblers (structs with map
// representation incl. renames and optional fields, typed maps, keyed unions), at type level and at
// representation level. A state is the ordered list of keys accepted so far (+ the sticky rejection
// route); a key call is the macro (supply key, assign a value of the field's kind).

type TCase struct {
	Engine string   `json:"engine"`
	Schema string   `json:"schema"`
	Type   string   `json:"type"`
	Repr   bool     `json:"representation_level"`
	Calls  []string `json:"calls"` // "<Route>:<key>" | "Finish" | "Build"
}

var TypedEngines = func() []typed.Engine { return []typed.Engine{typed.NewBindEngine()} }

type tkey struct {
	name string // key as supplied at this level
	own  string // the field / member / key it denotes at type level
	val  ref.Val
	req  bool
	typ  string // the value's type name
}

// keysOf lists the keys a builder of t at the given level accepts, with a valid value for each.
func keysOf(s *rs.Schema, t *rs.Type, repr bool) ([]tkey, bool) {
	var valOf func(tn string) (ref.Val, bool)
	valOf = func(tn string) (ref.Val, bool) {
		ct := s.T(tn)
		switch ct.Kind {
		case rs.TInt:
			return ref.Int(1), true
		case rs.TString:
			return ref.Str("s"), true
		case rs.TBool:
			return ref.Bool(true), true
		case rs.TList:
			// a container value: one element (so that an entry silently dropped shows)
			if e, ok := valOf(ct.ValType); ok && e.K != ref.KList && e.K != ref.KMap {
				return ref.List(e), true
			}
		case rs.TMap:
			if e, ok := valOf(ct.ValType); ok && e.K != ref.KList && e.K != ref.KMap {
				return ref.Map(ref.E("k", e)), true
			}
		}
		return ref.Val{}, false
	}
	var out []tkey
	switch t.Kind {
	case rs.TStruct:
		if repr && t.SRepr != "map" {
			return nil, false
		}
		for _, f := range t.Fields {
			v, ok := valOf(f.Type)
			if !ok {
				return nil, false
			}
			name := f.Name
			if repr && f.Rename != "" {
				name = f.Rename
			}
			out = append(out, tkey{name, f.Name, v, !f.Optional, f.Type})
		}
		return out, true
	case rs.TMap:
		v, ok := valOf(t.ValType)
		if !ok {
			return nil, false
		}
		ks := s.KeyStrings(t)
		names := append([]string(nil), ks...)
		if repr && t.KeyType != "" && t.KeyType != "String" && s.T(t.KeyType).Kind == rs.TEnum {
			for i, k := range ks {
				if r, ok := s.Repr(s.T(t.KeyType), ref.Str(k)); ok {
					names[i] = r.S
				}
			}
		}
		return []tkey{{names[0], ks[0], v, false, t.ValType}, {names[1], ks[1], v, false, t.ValType}}, true
	}
	return nil, false
}

type tstate struct {
	done     []string // own names, in acceptance order
	rejected string
	finished bool
	built    bool
}

func (st tstate) key() string {
	return fmt.Sprintf("%v|%s|%v|%v", st.done, st.rejected, st.finished, st.built)
}

func expectedValue(s *rs.Schema, t *rs.Type, keys []tkey, done []string) ref.Val {
	if t.Kind == rs.TMap {
		m := ref.Map()
		for _, d := range done {
			for _, k := range keys {
				if k.own == d {
					m.M = append(m.M, ref.Entry{K: d, V: k.val})
				}
			}
		}
		return m
	}
	m := ref.Map()
	for _, f := range t.Fields {
		v := ref.Absent()
		for _, d := range done {
			if d == f.Name {
				for _, k := range keys {
					if k.own == d {
						v = k.val
					}
				}
			}
		}
		m.M = append(m.M, ref.Entry{K: f.Name, V: v})
	}
	return m
}

// runTyped replays the calls on a fresh real builder, checking every call against the model.
func runTyped(eng typed.Engine, s *rs.Schema, t *rs.Type, repr bool, keys []tkey, calls []string) (fs []core.Finding, st tstate, ended bool) {
	lvl := "type"
	if repr {
		lvl = "repr"
	}
	site := fmt.Sprintf("%s/%s/%s", eng.Name(), lvl, map[bool]string{true: "struct", false: "map"}[t.Kind == rs.TStruct])
	where := func(i int) string {
		return fmt.Sprintf("%s %s.%s %s-level: calls %v, step %d (%s)", eng.Name(), s.Name, t.Name, lvl, calls, i, calls[i])
	}
	var nb datamodel.NodeBuilder
	var ma datamodel.MapAssembler
	var err error
	if pan := core.Guard(func() {
		nb = eng.Proto(s, t.Name, repr).NewBuilder()
		ma, err = nb.BeginMap(int64(len(keys)))
	}); pan != "" || err != nil {
		return []core.Finding{core.F(site+"/beginmap-fails", "%s.%s: %v %s", s.Name, t.Name, err, pan)}, st, true
	}
	for i, c := range calls {
		after := "clean"
		if st.rejected != "" {
			after = "after-rejected-" + st.rejected
		}
		switch {
		case c == "Finish":
			missing := false
			for _, k := range keys {
				has := false
				for _, d := range st.done {
					if d == k.own {
						has = true
					}
				}
				if k.req && !has {
					missing = true
				}
			}
			var ferr error
			pan := core.Guard(func() { ferr = ma.Finish() })
			if pan != "" {
				cause := "legal-call-panic"
				if st.rejected != "" {
					cause = "wedged-after-reject"
				}
				return []core.Finding{core.F(fmt.Sprintf("%s/%s(%s)", site, cause, after), "%s: %s", where(i), pan)}, st, true
			}
			if missing {
				if ferr == nil {
					return []core.Finding{core.F(site+"/finish-accepts-missing-field", "%s", where(i))}, st, true
				}
				return nil, st, true
			}
			if ferr != nil {
				cause := "legal-call-error"
				if st.rejected != "" {
					cause = "wedged-after-reject"
				}
				return []core.Finding{core.F(fmt.Sprintf("%s/%s(%s)", site, cause, after), "%s: %v", where(i), ferr)}, st, true
			}
			st.finished = true
		case c == "Build":
			var got ref.Val
			pan := core.Guard(func() {
				n := nb.Build()
				got, _ = ref.ObserveTyped(n)
				if tn, ok := n.(schema.TypedNode); ok && false {
					_ = tn
				}
			})
			if pan != "" {
				return []core.Finding{core.F(fmt.Sprintf("%s/build-panic(%s|%s)", site, after, core.Class(pan)), "%s: %s", where(i), pan)}, st, true
			}
			want := expectedValue(s, t, keys, st.done)
			if !ref.Equal(got, want) {
				cause := "result-differs"
				if st.rejected != "" {
					cause = "side-effect-after-reject"
				}
				return []core.Finding{core.F(fmt.Sprintf("%s/%s(%s)", site, cause, after), "%s: model %s, built %s", where(i), want, got)}, st, true
			}
			st.built = true
		default:
			route, kname, _ := strings.Cut(c, ":")
			kname, vroute, _ := strings.Cut(kname, "/")
			var k tkey
			for _, x := range keys {
				if x.name == kname {
					k = x
				}
			}
			dup := false
			for _, d := range st.done {
				if d == k.own {
					dup = true
				}
			}
			var kerr error
			var at string
			var va datamodel.NodeAssembler
			pan := core.Guard(func() {
				switch route {
				case "Entry":
					va, kerr = ma.AssembleEntry(k.name)
					at = "AssembleEntry"
				case "KeyString":
					kerr = ma.AssembleKey().AssignString(k.name)
					at = "AssembleKey.AssignString"
					if kerr == nil {
						va = ma.AssembleValue()
					}
				case "KeyNode":
					kerr = ma.AssembleKey().AssignNode(ref.Node(ref.Str(k.name)))
					at = "AssembleKey.AssignNode"
					if kerr == nil {
						va = ma.AssembleValue()
					}
				}
				if kerr == nil && !dup {
					switch vroute {
					case "node":
						kerr = va.AssignNode(ref.Basic(k.val))
					case "own":
						// a node of the value's own type made by the same engine
						cb := eng.Proto(s, k.typ, repr).NewBuilder()
						if err := ref.Assign(cb, k.val); err != nil {
							panic("harness: cannot prebuild " + k.typ + ": " + err.Error())
						}
						own := cb.Build()
						if tn, ok := own.(schema.TypedNode); ok && repr {
							own = tn.Representation()
						}
						kerr = va.AssignNode(own)
					default:
						kerr = ref.Assign(va, k.val)
					}
					if kerr != nil {
						at = "value assignment"
					}
				}
			})
			if pan != "" {
				cause := "legal-call-panic"
				if dup {
					cause = "dup-panic"
				}
				if st.rejected != "" {
					cause = "wedged-after-reject"
				}
				return []core.Finding{core.F(fmt.Sprintf("%s/%s(%s)", site, cause, after), "%s: %s", where(i), pan)}, st, true
			}
			if dup {
				if kerr == nil {
					return []core.Finding{core.F(fmt.Sprintf("%s/dup-accepted(%s)", site, route), "%s: repeated key accepted by %s", where(i), at)}, st, true
				}
				if !isRepeatedKey(kerr) {
					return []core.Finding{core.F(fmt.Sprintf("%s/dup-wrong-error(%s|%T)", site, route, kerr), "%s: %v", where(i), kerr)}, st, true
				}
				if st.rejected == "" {
					st.rejected = route
				}
				continue
			}
			if kerr != nil {
				cause := "legal-call-error"
				if st.rejected != "" {
					cause = "wedged-after-reject"
				}
				return []core.Finding{core.F(fmt.Sprintf("%s/%s(%s)", site, cause, after), "%s: %s returned %v", where(i), at, kerr)}, st, true
			}
			st.done = append(st.done, k.own)
		}
	}
	return nil, st, false
}

// canFinish: every required key has been supplied (Finish is then a legal call that must succeed).
func canFinish(st tstate, keys []tkey) bool {
	for _, k := range keys {
		if !k.req {
			continue
		}
		have := false
		for _, d := range st.done {
			if d == k.own {
				have = true
			}
		}
		if !have {
			return false
		}
	}
	return true
}

func enabledTyped(st tstate, keys []tkey) []string {
	if st.built {
		return nil
	}
	if st.finished {
		return []string{"Build"}
	}
	var out []string
	for _, k := range keys {
		for _, route := range []string{"Entry", "KeyString", "KeyNode"} {
			out = append(out, route+":"+k.name)
		}
		// the value given as an existing node: of another implementation, and of its own type
		out = append(out, "Entry:"+k.name+"/node", "Entry:"+k.name+"/own", "KeyString:"+k.name+"/own")
	}
	return append(out, "Finish")
}

func exploreTyped(r *core.Run, eng typed.Engine, s *rs.Schema, t *rs.Type, repr bool) {
	keys, ok := keysOf(s, t, repr)
	if !ok || len(keys) == 0 || (!repr && s.ComplexKeys(t)) {
		return
	}
	seen := map[string]bool{tstate{}.key(): true}
	frontier := [][]string{nil}
	var states, trans int64
	for depth := 0; len(frontier) > 0 && depth < 2*len(keys)+4; depth++ {
		var next [][]string
		for _, cur := range frontier {
			_, st, ended := runTyped(eng, s, t, repr, keys, cur)
			if ended {
				continue
			}
			states++
			for _, c := range enabledTyped(st, keys) {
				calls := append(append([]string(nil), cur...), c)
				fs, st2, ended := runTyped(eng, s, t, repr, keys, calls)
				trans++
				r.Traces.Add(1)
				r.Report("typed-calls", TCase{eng.Name(), s.Name, t.Name, repr, calls}, fs)
				if len(fs) > 0 || ended {
					continue
				}
				// States are merged by the model's view of them, so what this very transition left in the
				// real builder is observed right away: finish and build from here whenever that is legal
				// and compare with the model (a path merged away is still a path whose product was read).
				if !st2.finished && !st2.built && canFinish(st2, keys) {
					probe := append(append([]string(nil), calls...), "Finish", "Build")
					pfs, _, _ := runTyped(eng, s, t, repr, keys, probe)
					trans++
					r.Traces.Add(1)
					r.Report("typed-calls", TCase{eng.Name(), s.Name, t.Name, repr, probe}, pfs)
				}
				if k := st2.key(); !seen[k] {
					seen[k] = true
					next = append(next, calls)
				} else if !st2.finished && !st2.built {
					// merged away: every repeated key is still injected once from this very path (what the
					// builder remembers about its keys may depend on the route they came by), then built
					for _, c2 := range enabledTyped(st2, keys) {
						_, kn, _ := strings.Cut(c2, ":")
						kn, _, _ = strings.Cut(kn, "/")
						isDup := false
						for _, k := range keys {
							if k.name == kn {
								for _, d := range st2.done {
									if d == k.own {
										isDup = true
									}
								}
							}
						}
						if !isDup {
							continue
						}
						probe := append(append([]string(nil), calls...), c2)
						if canFinish(st2, keys) {
							probe = append(probe, "Finish", "Build")
						}
						pfs, _, _ := runTyped(eng, s, t, repr, keys, probe)
						trans++
						r.Traces.Add(1)
						r.Report("typed-calls", TCase{eng.Name(), s.Name, t.Name, repr, probe}, pfs)
					}
				}
			}
		}
		sort.Slice(next, func(i, j int) bool { return fmt.Sprint(next[i]) < fmt.Sprint(next[j]) })
		frontier = next
	}
	r.States.Add(states)
	r.Transitions.Add(trans)
	r.Evals.Add(trans)
	r.NontrivialN(trans)
	r.Outcome(eng.Name() + "/typed:" + rs.Strategy(t))
}

func init() {
	typedMain = func(r *core.Run, b bounds) {
		fams := rs.Families(true)
		type job struct {
			eng  typed.Engine
			s    *rs.Schema
			t    *rs.Type
			repr bool
		}
		var jobs []job
		for _, eng := range TypedEngines() {
			for _, s := range fams {
				if eng.Proto(s, "Int", false) == nil {
					continue
				}
				for _, tn := range s.Roots {
					for _, repr := range []bool{false, true} {
						jobs = append(jobs, job{eng, s, s.T(tn), repr})
					}
				}
			}
		}
		core.ParallelFor(len(jobs), func(i int) { exploreTyped(r, jobs[i].eng, jobs[i].s, jobs[i].t, jobs[i].repr) })
		r.Sample(TCase{"bindnode", "fam01", "SMswap", true, []string{"Entry:q", "KeyString:q", "KeyNode:p", "Finish", "Build"}})
	}
	typedReplay = func(r *core.Run, c Case) {}
}

// ReplayTyped re-executes a typed call sequence.
func ReplayTyped(r *core.Run, c TCase) {
	for _, eng := range TypedEngines() {
		if eng.Name() != c.Engine {
			continue
		}
		for _, s := range rs.Families(false) {
			if s.Name != c.Schema {
				continue
			}
			t := s.T(c.Type)
			keys, _ := keysOf(s, t, c.Repr)
			fs, _, _ := runTyped(eng, s, t, c.Repr, keys, c.Calls)
			r.Report("typed-calls", c, fs)
		}
	}
}
