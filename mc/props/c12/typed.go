package c12

import (
	"fmt"
	"os"
	"sort"
	"strings"

	"github.com/ipld/go-ipld-prime/datamodel"
	"github.com/ipld/go-ipld-prime/schema"

	"verif/mc/core"
	"verif/mc/ref"
	"verif/mc/rs"
	"verif/mc/typed"
)

// Typed engines: the same exploration idea on the map-shaped typed assemblers (structs with map
// representation incl. renames and optional fields, typed maps, keyed unions), at type level and at
// representation level. A state is the ordered list of keys accepted so far (+ the sticky rejection
// route); a key call is the macro (supply key, assign a value of the field's kind).

type TCase struct {
	Engine string   `json:"engine"`
	Schema string   `json:"schema"`
	Type   string   `json:"type"`
	Repr   bool     `json:"representation_level"`
	Calls  []string `json:"calls"` // "<Route>:<key>" | "Finish" | "Build"
	// Parent, when set, names a list or map type whose value type is Type: the calls are then made on
	// the assembler of the parent's *second* element, after a first element was assembled completely.
	Parent string `json:"parent,omitempty"`
}

var TypedEngines = func() []typed.Engine { return []typed.Engine{typed.NewBindEngine()} }

type tkey struct {
	name string // key as supplied at this level
	own  string // the field / member / key it denotes at type level
	val  ref.Val // the typed value the finished node must show
	feed ref.Val // the data handed to the assembler at this level
	req  bool
	typ  string // the value's type name
	nul  bool   // the position also holds null
}

func deepSize(v ref.Val) int {
	n := 1
	for _, c := range v.L {
		n += deepSize(c)
	}
	for _, e := range v.M {
		n += deepSize(e.V)
	}
	return n
}

// richest picks the largest non-null member of V(t) (the first of that size: the enumeration order
// is fixed), so that an entry or field silently dropped shows.
func richest(s *rs.Schema, t *rs.Type) (ref.Val, bool) {
	best, size := ref.Val{}, 0
	for _, v := range s.Values(t, 1) {
		if v.K == ref.KNull || v.K == ref.KAbsent {
			continue
		}
		if n := deepSize(v); n > size {
			best, size = v, n
		}
	}
	return best, size > 0
}

// keysOf lists the keys a builder of t at the given level accepts, with a valid value for each.
func keysOf(s *rs.Schema, t *rs.Type, repr bool) ([]tkey, bool) {
	var valOf func(tn string) (ref.Val, ref.Val, bool)
	valOf = func(tn string) (ref.Val, ref.Val, bool) {
		ct := s.T(tn)
		switch ct.Kind {
		case rs.TInt:
			return ref.Int(1), ref.Int(1), true
		case rs.TString:
			return ref.Str("s"), ref.Str("s"), true
		case rs.TBool:
			return ref.Bool(true), ref.Bool(true), true
		case rs.TList:
			// a container value: one element (so that an entry silently dropped shows)
			if e, _, ok := valOf(ct.ValType); ok && e.K != ref.KList && e.K != ref.KMap && scalarType(s, ct.ValType) {
				return ref.List(e), ref.List(e), true
			}
		case rs.TMap:
			if e, _, ok := valOf(ct.ValType); ok && e.K != ref.KList && e.K != ref.KMap && scalarType(s, ct.ValType) && !s.ComplexKeys(ct) {
				return ref.Map(ref.E("k", e)), ref.Map(ref.E("k", e)), true
			}
		}
		// every other type (structs of any strategy, unions, enums, links, containers of those): the
		// richest member of V(T), fed in the form this level takes
		if s.ComplexKeys(ct) {
			return ref.Val{}, ref.Val{}, false
		}
		tv, ok := richest(s, ct)
		if !ok {
			return ref.Val{}, ref.Val{}, false
		}
		if repr {
			rv, ok := s.Repr(ct, tv)
			return tv, rv, ok
		}
		return tv, s.FeedType(ct, tv), true
	}
	var out []tkey
	switch t.Kind {
	case rs.TStruct:
		if repr && t.SRepr != "map" {
			return nil, false
		}
		for _, f := range t.Fields {
			v, fd, ok := valOf(f.Type)
			if !ok {
				return nil, false
			}
			name := f.Name
			if repr && f.Rename != "" {
				name = f.Rename
			}
			out = append(out, tkey{name, f.Name, v, fd, !f.Optional, f.Type, f.Nullable})
		}
		return out, true
	case rs.TMap:
		v, fd, ok := valOf(t.ValType)
		if !ok {
			return nil, false
		}
		ks := s.KeyStrings(t)
		names := append([]string(nil), ks...)
		if repr && t.KeyType != "" && t.KeyType != "String" && s.T(t.KeyType).Kind == rs.TEnum {
			for i, k := range ks {
				if r, ok := s.Repr(s.T(t.KeyType), ref.Str(k)); ok {
					names[i] = r.S
				}
			}
		}
		return []tkey{{names[0], ks[0], v, fd, false, t.ValType, t.ValNullable}, {names[1], ks[1], v, fd, false, t.ValType, t.ValNullable}}, true
	}
	return nil, false
}

func scalarType(s *rs.Schema, tn string) bool {
	switch s.T(tn).Kind {
	case rs.TInt, rs.TString, rs.TBool:
		return true
	}
	return false
}

type tstate struct {
	done     []string // own names, in acceptance order
	rejected string
	finished bool
	built    bool
}

func (st tstate) key() string {
	return fmt.Sprintf("%v|%s|%v|%v", st.done, st.rejected, st.finished, st.built)
}

func expectedValue(s *rs.Schema, t *rs.Type, keys []tkey, done []string) ref.Val {
	if t.Kind == rs.TMap {
		m := ref.Map()
		for _, d := range done {
			for _, k := range keys {
				if k.own == d {
					m.M = append(m.M, ref.Entry{K: d, V: k.val})
				}
			}
		}
		return m
	}
	m := ref.Map()
	for _, f := range t.Fields {
		v := ref.Absent()
		for _, d := range done {
			if d == f.Name {
				for _, k := range keys {
					if k.own == d {
						v = k.val
					}
				}
			}
		}
		m.M = append(m.M, ref.Entry{K: f.Name, V: v})
	}
	return m
}

// runTyped replays the calls on a fresh real builder, checking every call against the model.
func runTyped(eng typed.Engine, s *rs.Schema, t *rs.Type, repr bool, keys []tkey, calls []string, parent *rs.Type) (fs []core.Finding, st tstate, ended bool) {
	lvl := "type"
	if repr {
		lvl = "repr"
	}
	site := fmt.Sprintf("%s/%s/%s", eng.Name(), lvl, map[bool]string{true: "struct", false: "map"}[t.Kind == rs.TStruct])
	if parent != nil {
		site += map[bool]string{true: "-as-2nd-list-element", false: "-as-2nd-map-value"}[parent.Kind == rs.TList]
	}
	where := func(i int) string {
		in := ""
		if parent != nil {
			in = " as the second element of " + parent.Name + " (first element complete)"
		}
		return fmt.Sprintf("%s %s.%s%s %s-level: calls %v, step %d (%s)", eng.Name(), s.Name, t.Name, in, lvl, calls, i, calls[i])
	}
	var nb datamodel.NodeBuilder
	var ma datamodel.MapAssembler
	var pla datamodel.ListAssembler
	var pma datamodel.MapAssembler
	var pkeys []string // the parent map's two keys, as this level takes them and as the type level shows them
	var pown []string
	var err error
	if pan := core.Guard(func() {
		if parent == nil {
			nb = eng.Proto(s, t.Name, repr).NewBuilder()
			ma, err = nb.BeginMap(int64(len(keys)))
			return
		}
		// the first element: every key in order, by AssembleEntry, finished
		first := ref.Map()
		for _, k := range keys {
			first.M = append(first.M, ref.Entry{K: k.name, V: k.feed})
		}
		nb = eng.Proto(s, parent.Name, repr).NewBuilder()
		var va datamodel.NodeAssembler
		if parent.Kind == rs.TList {
			if pla, err = nb.BeginList(2); err != nil {
				return
			}
			if err = ref.Assign(pla.AssembleValue(), first); err != nil {
				return
			}
			va = pla.AssembleValue()
		} else {
			pown = s.KeyStrings(parent)[:2]
			pkeys = append([]string(nil), pown...)
			if pma, err = nb.BeginMap(2); err != nil {
				return
			}
			if va, err = pma.AssembleEntry(pkeys[0]); err != nil {
				return
			}
			if err = ref.Assign(va, first); err != nil {
				return
			}
			if va, err = pma.AssembleEntry(pkeys[1]); err != nil {
				return
			}
		}
		ma, err = va.BeginMap(int64(len(keys)))
	}); pan != "" || err != nil {
		if parent != nil {
			// the prefix is a legal call sequence: its failure is the finding
			return []core.Finding{core.F(site+"/legal-prefix-fails", "%s.%s in %s: first element and the second's BeginMap: %v %s", s.Name, t.Name, parent.Name, err, pan)}, st, true
		}
		return []core.Finding{core.F(site+"/beginmap-fails", "%s.%s: %v %s", s.Name, t.Name, err, pan)}, st, true
	}
	for i, c := range calls {
		after := "clean"
		if st.rejected != "" {
			after = "after-rejected-" + st.rejected
		}
		switch {
		case c == "Finish":
			missing := false
			for _, k := range keys {
				has := false
				for _, d := range st.done {
					if d == k.own {
						has = true
					}
				}
				if k.req && !has {
					missing = true
				}
			}
			var ferr error
			pan := core.Guard(func() {
				ferr = ma.Finish()
				if ferr == nil && pla != nil {
					ferr = pla.Finish()
				}
				if ferr == nil && pma != nil {
					ferr = pma.Finish()
				}
			})
			if pan != "" {
				cause := "legal-call-panic"
				if st.rejected != "" {
					cause = "wedged-after-reject"
				}
				return []core.Finding{core.F(fmt.Sprintf("%s/%s(%s)", site, cause, after), "%s: %s", where(i), pan)}, st, true
			}
			if missing {
				if ferr == nil {
					return []core.Finding{core.F(site+"/finish-accepts-missing-field", "%s", where(i))}, st, true
				}
				return nil, st, true
			}
			if ferr != nil {
				cause := "legal-call-error"
				if st.rejected != "" {
					cause = "wedged-after-reject"
				}
				return []core.Finding{core.F(fmt.Sprintf("%s/%s(%s)", site, cause, after), "%s: %v", where(i), ferr)}, st, true
			}
			st.finished = true
		case c == "Build":
			var got ref.Val
			pan := core.Guard(func() {
				n := nb.Build()
				got, _ = ref.ObserveTyped(n)
				if tn, ok := n.(schema.TypedNode); ok && false {
					_ = tn
				}
			})
			if pan != "" {
				return []core.Finding{core.F(fmt.Sprintf("%s/build-panic(%s|%s)", site, after, core.Class(pan)), "%s: %s", where(i), pan)}, st, true
			}
			want := expectedValue(s, t, keys, st.done)
			if parent != nil {
				var all []string
				for _, k := range keys {
					all = append(all, k.own)
				}
				first := expectedValue(s, t, keys, all)
				if parent.Kind == rs.TList {
					want = ref.List(first, want)
				} else {
					want = ref.Map(ref.E(pown[0], first), ref.E(pown[1], want))
				}
			}
			if !ref.Equal(got, want) {
				cause := "result-differs"
				if st.rejected != "" {
					cause = "side-effect-after-reject"
				}
				return []core.Finding{core.F(fmt.Sprintf("%s/%s(%s)", site, cause, after), "%s: model %s, built %s", where(i), want, got)}, st, true
			}
			st.built = true
		case strings.HasPrefix(c, "Bad:"):
			// the key of a field not yet given, then a value of a kind the position cannot hold: that
			// call must return an error (nothing is promised about the assembler afterwards: the path ends)
			_, rest, _ := strings.Cut(c, ":")
			route, kname, _ := strings.Cut(rest, ":")
			var k tkey
			for _, x := range keys {
				if x.name == kname {
					k = x
				}
			}
			bad, what := badValue(s, k)
			var kerr, verr error
			pan := core.Guard(func() {
				var va datamodel.NodeAssembler
				switch route {
				case "Entry":
					va, kerr = ma.AssembleEntry(k.name)
				case "KeyString":
					if kerr = ma.AssembleKey().AssignString(k.name); kerr == nil {
						va = ma.AssembleValue()
					}
				case "KeyNode":
					if kerr = ma.AssembleKey().AssignNode(ref.Node(ref.Str(k.name))); kerr == nil {
						va = ma.AssembleValue()
					}
				}
				if kerr == nil {
					verr = ref.Assign(va, bad)
				}
			})
			switch {
			case pan != "":
				return []core.Finding{core.F(fmt.Sprintf("%s/bad-kind-panic(%s|%s)", site, what, after), "%s: %s", where(i), pan)}, st, true
			case kerr != nil:
				return []core.Finding{core.F(fmt.Sprintf("%s/legal-call-error(%s)", site, after), "%s: the key was refused: %v", where(i), kerr)}, st, true
			case verr == nil:
				return []core.Finding{core.F(fmt.Sprintf("%s/bad-kind-accepted(%s|%s)", site, what, route), "%s: %s assigned to a position of type %s was accepted", where(i), bad, k.typ)}, st, true
			}
			return nil, st, true
		default:
			route, kname, _ := strings.Cut(c, ":")
			kname, vroute, _ := strings.Cut(kname, "/")
			var k tkey
			for _, x := range keys {
				if x.name == kname {
					k = x
				}
			}
			dup := false
			for _, d := range st.done {
				if d == k.own {
					dup = true
				}
			}
			var kerr error
			var at string
			var va datamodel.NodeAssembler
			pan := core.Guard(func() {
				switch route {
				case "Entry":
					va, kerr = ma.AssembleEntry(k.name)
					at = "AssembleEntry"
				case "KeyString":
					kerr = ma.AssembleKey().AssignString(k.name)
					at = "AssembleKey.AssignString"
					if kerr == nil {
						va = ma.AssembleValue()
					}
				case "KeyNode":
					kerr = ma.AssembleKey().AssignNode(ref.Node(ref.Str(k.name)))
					at = "AssembleKey.AssignNode"
					if kerr == nil {
						va = ma.AssembleValue()
					}
				}
				if kerr == nil && !dup {
					switch vroute {
					case "node":
						kerr = va.AssignNode(ref.Basic(k.feed))
					case "own":
						// a node of the value's own type made by the same engine
						cb := eng.Proto(s, k.typ, repr).NewBuilder()
						if err := ref.Assign(cb, k.feed); err != nil {
							panic("harness: cannot prebuild " + k.typ + ": " + err.Error())
						}
						own := cb.Build()
						if tn, ok := own.(schema.TypedNode); ok && repr {
							own = tn.Representation()
						}
						kerr = va.AssignNode(own)
					default:
						kerr = ref.Assign(va, k.feed)
					}
					if kerr != nil {
						at = "value assignment"
					}
				}
			})
			if pan != "" {
				cause := "legal-call-panic"
				if dup {
					cause = "dup-panic"
				}
				if st.rejected != "" {
					cause = "wedged-after-reject"
				}
				return []core.Finding{core.F(fmt.Sprintf("%s/%s(%s)", site, cause, after), "%s: %s", where(i), pan)}, st, true
			}
			if dup {
				if kerr == nil {
					return []core.Finding{core.F(fmt.Sprintf("%s/dup-accepted(%s)", site, route), "%s: repeated key accepted by %s", where(i), at)}, st, true
				}
				if !isRepeatedKey(kerr) {
					return []core.Finding{core.F(fmt.Sprintf("%s/dup-wrong-error(%s|%T)", site, route, kerr), "%s: %v", where(i), kerr)}, st, true
				}
				if st.rejected == "" {
					st.rejected = route
				}
				continue
			}
			if kerr != nil {
				cause := "legal-call-error"
				if st.rejected != "" {
					cause = "wedged-after-reject"
				}
				return []core.Finding{core.F(fmt.Sprintf("%s/%s(%s)", site, cause, after), "%s: %s returned %v", where(i), at, kerr)}, st, true
			}
			st.done = append(st.done, k.own)
		}
	}
	return nil, st, false
}

// badValue: a value the position of key k cannot hold (null where null is not allowed, else a scalar
// of another kind); ok=false for positions that hold anything.
func badValue(s *rs.Schema, k tkey) (ref.Val, string) {
	if !k.nul {
		return ref.Null(), "null-into-non-nullable"
	}
	if k.feed.K == ref.KBool {
		return ref.Int(7), "int-into-bool"
	}
	return ref.Bool(true), "bool-into-" + k.feed.K.String()
}

func holdsAnything(s *rs.Schema, k tkey) bool {
	t := s.T(k.typ)
	if t.Kind == rs.TAny {
		return true
	}
	// a kinded union holds several kinds: left out (which kinds it refuses is C09's business)
	return t.Kind == rs.TUnion && t.URepr == "kinded"
}

// canFinish: every required key has been supplied (Finish is then a legal call that must succeed).
func canFinish(st tstate, keys []tkey) bool {
	for _, k := range keys {
		if !k.req {
			continue
		}
		have := false
		for _, d := range st.done {
			if d == k.own {
				have = true
			}
		}
		if !have {
			return false
		}
	}
	return true
}

func enabledTyped(schemaOf *rs.Schema, st tstate, keys []tkey) []string {
	if st.built {
		return nil
	}
	if st.finished {
		return []string{"Build"}
	}
	var out []string
	for _, k := range keys {
		for _, route := range []string{"Entry", "KeyString", "KeyNode"} {
			out = append(out, route+":"+k.name)
		}
		// the value given as an existing node: of another implementation, and of its own type (a value
		// of type Any has no typed node of its own: any node is one, which is the first of the two)
		out = append(out, "Entry:"+k.name+"/node")
		if k.typ != "Any" {
			out = append(out, "Entry:"+k.name+"/own", "KeyString:"+k.name+"/own")
		}
		given := false
		for _, d := range st.done {
			if d == k.own {
				given = true
			}
		}
		if !given && !holdsAnything(schemaOf, k) {
			out = append(out, "Bad:Entry:"+k.name, "Bad:KeyString:"+k.name, "Bad:KeyNode:"+k.name)
		}
	}
	return append(out, "Finish")
}

func exploreTyped(r *core.Run, eng typed.Engine, s *rs.Schema, t *rs.Type, repr bool, parent *rs.Type) {
	pname := ""
	if parent != nil {
		pname = parent.Name
	}
	keys, ok := keysOf(s, t, repr)
	if !ok || len(keys) == 0 || (!repr && s.ComplexKeys(t)) {
		return
	}
	if r.Quick() && len(keys) > 4 {
		// 6 keys × 6 routes: 9 million call sequences per level and engine — thorough tier only
		r.Outcome("typed: more than 4 keys (thorough tier only)")
		return
	}
	seen := map[string]bool{tstate{}.key(): true}
	frontier := [][]string{nil}
	var states, trans int64
	for depth := 0; len(frontier) > 0 && depth < 2*len(keys)+4; depth++ {
		var next [][]string
		for _, cur := range frontier {
			_, st, ended := runTyped(eng, s, t, repr, keys, cur, parent)
			if ended {
				continue
			}
			states++
			for _, c := range enabledTyped(s, st, keys) {
				calls := append(append([]string(nil), cur...), c)
				fs, st2, ended := runTyped(eng, s, t, repr, keys, calls, parent)
				trans++
				r.Traces.Add(1)
				r.Report("typed-calls", TCase{eng.Name(), s.Name, t.Name, repr, calls, pname}, fs)
				if len(fs) > 0 || ended {
					continue
				}
				// States are merged by the model's view of them, so what this very transition left in the
				// real builder is observed right away: finish and build from here whenever that is legal
				// and compare with the model (a path merged away is still a path whose product was read).
				if !st2.finished && !st2.built && canFinish(st2, keys) {
					probe := append(append([]string(nil), calls...), "Finish", "Build")
					pfs, _, _ := runTyped(eng, s, t, repr, keys, probe, parent)
					trans++
					r.Traces.Add(1)
					r.Report("typed-calls", TCase{eng.Name(), s.Name, t.Name, repr, probe, pname}, pfs)
				}
				if k := st2.key(); !seen[k] {
					seen[k] = true
					next = append(next, calls)
				} else if !st2.finished && !st2.built {
					// merged away: every repeated key is still injected once from this very path (what the
					// builder remembers about its keys may depend on the route they came by), then built
					for _, c2 := range enabledTyped(s, st2, keys) {
						_, kn, _ := strings.Cut(c2, ":")
						kn, _, _ = strings.Cut(kn, "/")
						isDup := false
						for _, k := range keys {
							if k.name == kn {
								for _, d := range st2.done {
									if d == k.own {
										isDup = true
									}
								}
							}
						}
						if !isDup {
							continue
						}
						probe := append(append([]string(nil), calls...), c2)
						if canFinish(st2, keys) {
							probe = append(probe, "Finish", "Build")
						}
						pfs, _, _ := runTyped(eng, s, t, repr, keys, probe, parent)
						trans++
						r.Traces.Add(1)
						r.Report("typed-calls", TCase{eng.Name(), s.Name, t.Name, repr, probe, pname}, pfs)
					}
				}
			}
		}
		sort.Slice(next, func(i, j int) bool { return fmt.Sprint(next[i]) < fmt.Sprint(next[j]) })
		frontier = next
	}
	r.States.Add(states)
	r.Transitions.Add(trans)
	r.Evals.Add(trans)
	r.NontrivialN(trans)
	if os.Getenv("VERIF_C12_JOBS") != "" {
		fmt.Fprintf(os.Stderr, "c12job %s %s.%s repr=%v parent=%s keys=%d states=%d trans=%d\n", eng.Name(), s.Name, t.Name, repr, pname, len(keys), states, trans)
	}
	if parent != nil {
		r.Outcome(eng.Name() + "/typed-2nd-element:" + rs.Strategy(t))
		return
	}
	r.Outcome(eng.Name() + "/typed:" + rs.Strategy(t))
}

func init() {
	typedMain = func(r *core.Run, b bounds) {
		fams := rs.Families(true)
		type job struct {
			eng    typed.Engine
			s      *rs.Schema
			t      *rs.Type
			repr   bool
			parent *rs.Type
		}
		var jobs []job
		for _, eng := range TypedEngines() {
			for _, s := range fams {
				if eng.Proto(s, "Int", false) == nil {
					continue
				}
				for _, tn := range s.Roots {
					for _, repr := range []bool{false, true} {
						jobs = append(jobs, job{eng, s, s.T(tn), repr, nil})
					}
					// the same search on the assembler of the second element of a list or map of a map-shaped
					// type (a non-initial state of the element assembler, which implementations reuse)
					if p := s.T(tn); p.Kind == rs.TList || (p.Kind == rs.TMap && (p.KeyType == "" || p.KeyType == "String")) {
						if vt := s.T(p.ValType); vt.Kind == rs.TStruct || vt.Kind == rs.TMap {
							for _, repr := range []bool{false, true} {
								jobs = append(jobs, job{eng, s, vt, repr, p})
							}
						}
					}
				}
			}
		}
		core.ParallelFor(len(jobs), func(i int) { exploreTyped(r, jobs[i].eng, jobs[i].s, jobs[i].t, jobs[i].repr, jobs[i].parent) })
		r.Sample(TCase{"bindnode", "fam01", "SMswap", true, []string{"Entry:q", "KeyString:q", "KeyNode:p", "Finish", "Build"}, ""})
	}
	typedReplay = func(r *core.Run, c Case) {}
}

// ReplayTyped re-executes a typed call sequence.
func ReplayTyped(r *core.Run, c TCase) {
	for _, eng := range TypedEngines() {
		if eng.Name() != c.Engine {
			continue
		}
		for _, s := range rs.Families(false) {
			if s.Name != c.Schema {
				continue
			}
			t := s.T(c.Type)
			keys, _ := keysOf(s, t, c.Repr)
			var parent *rs.Type
			if c.Parent != "" {
				parent = s.T(c.Parent)
			}
			fs, _, _ := runTyped(eng, s, t, c.Repr, keys, c.Calls, parent)
			r.Report("typed-calls", c, fs)
		}
	}
}
