package c12

import "verif/mc/core"

var typedMain = func(r *core.Run, b bounds) {}
var typedReplay = func(r *core.Run, c Case) {}
