// Package c12: assemblers enforce their protocol — explicit-state search over legal call sequences
// of the assembler interfaces (plus the two pinned rejections at every position), every transition
// executed on a fresh real builder, against the contract's state machine.
package c12

import (
	"time"
	"encoding/json"
	"errors"
	"fmt"
	"sort"
	"strings"
	"sync"

	"github.com/ipld/go-ipld-prime/datamodel"
	"github.com/ipld/go-ipld-prime/node/basicnode"

	"verif/mc/core"
	"verif/mc/ref"
)

// Call is one (macro-)call of the alphabet.
//
//	BeginMap, BeginList, AssignNull, AssignInt, AssignString, AssignNode:<scalar|map|list>:<basic|foreign>
//	Entry:<k>, KeyString:<k>, KeyNode:<k>  (KeyX = AssembleKey().AssignX(k) then AssembleValue())
//	KeyInt (wrong kind into a key), Finish, Build, Reset
//
// In a list, every value call is preceded by la.AssembleValue().
type Call string

type Case struct {
	Engine string `json:"engine"`
	Calls  []Call `json:"calls"`
}

// ---- model ----

type frame struct {
	isMap bool
	m     []ref.Entry
	l     []ref.Val
	key   string // pending key (map, value expected)
	hasK  bool
}

type model struct {
	stack    []frame
	done     bool
	root     ref.Val
	rejected string // "" or the route of the first repeated-key rejection on this path (sticky)
	built    int    // number of Build calls so far (bounded)
	resets   int    // number of Reset calls made in the middle of an assembly (bounded)
}

func (m *model) clone() *model {
	c := &model{done: m.done, root: m.root, rejected: m.rejected, built: m.built, resets: m.resets}
	for _, f := range m.stack {
		nf := f
		nf.m = append([]ref.Entry(nil), f.m...)
		nf.l = append([]ref.Val(nil), f.l...)
		c.stack = append(c.stack, nf)
	}
	return c
}

func (m *model) key() string {
	var sb strings.Builder
	for _, f := range m.stack {
		if f.isMap {
			sb.WriteString(ref.Val{K: ref.KMap, M: f.m}.Key())
			if f.hasK {
				sb.WriteString("+k=" + f.key)
			}
		} else {
			sb.WriteString(ref.Val{K: ref.KList, L: f.l}.Key())
		}
		sb.WriteString("/")
	}
	if m.done {
		sb.WriteString("DONE:" + m.root.Key())
	}
	return fmt.Sprintf("%s|rej=%s|b=%d|r=%d", sb.String(), m.rejected, m.built, m.resets)
}

// atValue: is the next thing a value (root not started, map value pending, or inside a list)?
func (m *model) atValue() bool {
	if m.done {
		return false
	}
	if len(m.stack) == 0 {
		return true
	}
	top := m.stack[len(m.stack)-1]
	return !top.isMap || top.hasK
}

// atValueOfMap: a map entry's key has been given and its value is pending (the harness holds the value
// assembler then; abandoning it is left out to keep Reset at call boundaries the contract names).
func (m *model) atValueOfMap() bool {
	if len(m.stack) == 0 {
		return false
	}
	top := m.stack[len(m.stack)-1]
	return top.isMap && top.hasK
}

func (m *model) put(v ref.Val) {
	if len(m.stack) == 0 {
		m.done, m.root = true, v
		return
	}
	top := &m.stack[len(m.stack)-1]
	if top.isMap {
		top.m = append(top.m, ref.Entry{K: top.key, V: v})
		top.hasK = false
	} else {
		top.l = append(top.l, v)
	}
}

var prebuilt = map[string]ref.Val{
	"scalar": ref.Str("p"),
	"map":    ref.Map(ref.E("x", ref.Int(1)), ref.E("a", ref.Int(2))),
	"list":   ref.List(ref.Int(1), ref.Null()),
}

type bounds struct {
	keys       []string
	maxDepth   int
	maxEntries int
	maxCalls   int
	passBudget time.Duration // 0 = none
}

// kind of root the engine accepts: "any", "map", "list"
func rootKind(engine string) string {
	switch engine {
	case "basic-map":
		return "map"
	case "basic-list":
		return "list"
	}
	return "any"
}

type next struct {
	call   Call
	expect string // "ok", "dup", "wrongkind"
}

func valKind(c Call) string {
	switch {
	case c == "BeginMap" || c == "AssignNode:map:basic" || c == "AssignNode:map:foreign":
		return "map"
	case c == "BeginList" || c == "AssignNode:list:basic" || c == "AssignNode:list:foreign":
		return "list"
	}
	return "scalar"
}

var valueCalls = []Call{"BeginMap", "BeginList", "AssignNull", "AssignInt", "AssignString",
	"AssignNode:scalar:basic", "AssignNode:scalar:foreign", "AssignNode:map:basic", "AssignNode:map:foreign", "AssignNode:list:basic", "AssignNode:list:foreign"}

// enabled lists the calls the contract allows in this state (with the injected rejections).
func (m *model) enabled(engine string, b bounds) []next {
	var out []next
	if m.done {
		if m.built < 1 {
			out = append(out, next{"Build", "ok"})
		} else {
			out = append(out, next{"Reset", "ok"})
		}
		return out
	}
	if len(m.stack) > 0 && m.resets < 1 && !m.atValueOfMap() {
		// Reset in the middle of an assembly (a decoder that gives up does this): the builder starts over
		out = append(out, next{"Reset", "ok"})
	}
	if m.atValue() {
		for _, c := range valueCalls {
			if (c == "BeginMap" || c == "BeginList") && len(m.stack) >= b.maxDepth {
				continue
			}
			exp := "ok"
			if len(m.stack) == 0 {
				if rk := rootKind(engine); rk != "any" && valKind(c) != rk {
					exp = "wrongkind"
				}
			} else if top := m.stack[len(m.stack)-1]; !top.isMap && len(top.l) >= b.maxEntries {
				continue
			}
			out = append(out, next{c, exp})
		}
		if len(m.stack) > 0 && !m.stack[len(m.stack)-1].isMap {
			out = append(out, next{"Finish", "ok"})
		}
		return out
	}
	// map expecting a key
	top := m.stack[len(m.stack)-1]
	for _, k := range b.keys {
		dup := false
		for _, e := range top.m {
			if e.K == k {
				dup = true
			}
		}
		for _, route := range []string{"Entry", "KeyString", "KeyNode"} {
			if dup {
				out = append(out, next{Call(route + ":" + k), "dup"})
			} else if len(top.m) < b.maxEntries {
				out = append(out, next{Call(route + ":" + k), "ok"})
			}
		}
	}
	out = append(out, next{"KeyInt", "wrongkind"}, next{"Finish", "ok"})
	return out
}

// completion is the shortest legal call sequence from m to a built node (nil once built).
func completion(m *model, engine string) []Call {
	if m.done {
		if m.built < 1 {
			return []Call{"Build"}
		}
		return nil
	}
	if m.built >= 1 {
		return nil // the bound on Build calls is used up on this path: nothing to observe with
	}
	c := m.clone()
	var out []Call
	do := func(call Call) {
		out = append(out, call)
		c.apply(call)
	}
	for !c.done {
		switch {
		case len(c.stack) == 0:
			switch rootKind(engine) {
			case "map":
				do("BeginMap")
			case "list":
				do("BeginList")
			default:
				do("AssignInt")
			}
		case c.stack[len(c.stack)-1].isMap && c.stack[len(c.stack)-1].hasK:
			do("AssignInt")
		default:
			do("Finish")
		}
	}
	return append(out, "Build")
}

// apply advances the model by a call that was accepted.
func (m *model) apply(c Call) {
	s := string(c)
	switch {
	case s == "BeginMap":
		m.stack = append(m.stack, frame{isMap: true})
	case s == "BeginList":
		m.stack = append(m.stack, frame{})
	case s == "AssignNull":
		m.put(ref.Null())
	case s == "AssignInt":
		m.put(ref.Int(1))
	case s == "AssignString":
		m.put(ref.Str("s"))
	case strings.HasPrefix(s, "AssignNode:"):
		m.put(prebuilt[strings.Split(s, ":")[1]])
	case strings.HasPrefix(s, "Entry:"), strings.HasPrefix(s, "KeyString:"), strings.HasPrefix(s, "KeyNode:"):
		top := &m.stack[len(m.stack)-1]
		top.key, top.hasK = s[strings.Index(s, ":")+1:], true
	case s == "Finish":
		top := m.stack[len(m.stack)-1]
		m.stack = m.stack[:len(m.stack)-1]
		if top.isMap {
			m.put(ref.Val{K: ref.KMap, M: append([]ref.Entry{}, top.m...)})
		} else {
			m.put(ref.Val{K: ref.KList, L: append([]ref.Val{}, top.l...)})
		}
	case s == "Build":
		m.built++
	case s == "Reset":
		r := m.resets
		if !m.done {
			r++
		}
		*m = model{rejected: m.rejected, built: m.built, resets: r}
	}
}

// ---- execution on the real builder ----

type rframe struct {
	ma datamodel.MapAssembler
	la datamodel.ListAssembler
}

type runtime struct {
	nb    datamodel.NodeBuilder
	stack []rframe
	cur   datamodel.NodeAssembler // pending value assembler (root or map value)
}

func newBuilder(engine string) datamodel.NodeBuilder {
	switch engine {
	case "basic-map":
		return basicnode.Prototype.Map.NewBuilder()
	case "basic-list":
		return basicnode.Prototype.List.NewBuilder()
	}
	return basicnode.Prototype.Any.NewBuilder()
}

func (rt *runtime) valueAssembler() datamodel.NodeAssembler {
	if len(rt.stack) > 0 && rt.stack[len(rt.stack)-1].la != nil {
		return rt.stack[len(rt.stack)-1].la.AssembleValue()
	}
	a := rt.cur
	rt.cur = nil
	return a
}

func mkNode(what, impl string) datamodel.Node {
	if impl == "foreign" {
		return ref.Node(prebuilt[what])
	}
	return ref.Basic(prebuilt[what])
}

// exec performs one call; returns the error the call returned and which sub-call produced it.
func (rt *runtime) exec(c Call) (err error, at string, built datamodel.Node) {
	s := string(c)
	switch {
	case s == "BeginMap":
		ma, e := rt.valueAssembler().BeginMap(1)
		if e != nil {
			return e, "BeginMap", nil
		}
		rt.stack = append(rt.stack, rframe{ma: ma})
	case s == "BeginList":
		la, e := rt.valueAssembler().BeginList(1)
		if e != nil {
			return e, "BeginList", nil
		}
		rt.stack = append(rt.stack, rframe{la: la})
	case s == "AssignNull":
		return rt.valueAssembler().AssignNull(), s, nil
	case s == "AssignInt":
		return rt.valueAssembler().AssignInt(1), s, nil
	case s == "AssignString":
		return rt.valueAssembler().AssignString("s"), s, nil
	case strings.HasPrefix(s, "AssignNode:"):
		p := strings.Split(s, ":")
		return rt.valueAssembler().AssignNode(mkNode(p[1], p[2])), "AssignNode", nil
	case strings.HasPrefix(s, "Entry:"):
		va, e := rt.stack[len(rt.stack)-1].ma.AssembleEntry(s[6:])
		if e != nil {
			return e, "AssembleEntry", nil
		}
		rt.cur = va
	case strings.HasPrefix(s, "KeyString:"):
		ma := rt.stack[len(rt.stack)-1].ma
		if e := ma.AssembleKey().AssignString(s[10:]); e != nil {
			return e, "AssembleKey.AssignString", nil
		}
		rt.cur = ma.AssembleValue()
	case strings.HasPrefix(s, "KeyNode:"):
		ma := rt.stack[len(rt.stack)-1].ma
		if e := ma.AssembleKey().AssignNode(ref.Node(ref.Str(s[8:]))); e != nil {
			return e, "AssembleKey.AssignNode", nil
		}
		rt.cur = ma.AssembleValue()
	case s == "KeyInt":
		return rt.stack[len(rt.stack)-1].ma.AssembleKey().AssignInt(1), "AssembleKey.AssignInt", nil
	case s == "Finish":
		top := rt.stack[len(rt.stack)-1]
		rt.stack = rt.stack[:len(rt.stack)-1]
		if top.ma != nil {
			return top.ma.Finish(), "Finish", nil
		}
		return top.la.Finish(), "Finish", nil
	case s == "Build":
		return nil, "Build", rt.nb.Build()
	case s == "Reset":
		rt.nb.Reset()
		rt.stack, rt.cur = nil, rt.nb
	}
	return nil, "", nil
}

func isRepeatedKey(err error) bool {
	var rk datamodel.ErrRepeatedMapKey
	if errors.As(err, &rk) {
		return true
	}
	var rkp *datamodel.ErrRepeatedMapKey
	return errors.As(err, &rkp)
}

// Run replays calls on a fresh real builder and on the model; every call is checked.
func Run(engine string, calls []Call, b bounds) (fs []core.Finding, m *model, ended bool) {
	m = &model{}
	rt := &runtime{nb: newBuilder(engine)}
	rt.cur = rt.nb
	for i, c := range calls {
		exp := ""
		for _, n := range m.enabled(engine, b) {
			if n.call == c {
				exp = n.expect
			}
		}
		if exp == "" {
			panic(fmt.Sprintf("harness: call %s not enabled at step %d of %v", c, i, calls))
		}
		var err error
		var at string
		var built datamodel.Node
		pan := core.Guard(func() { err, at, built = rt.exec(c) })
		after := "clean"
		if m.rejected != "" {
			after = "after-rejected-" + m.rejected
		}
		where := fmt.Sprintf("%s: calls %v, step %d (%s)", engine, calls, i, c)
		route := strings.Split(string(c), ":")[0]
		if pan != "" {
			cause := "legal-call-panic"
			if exp != "ok" {
				cause = exp + "-panic"
			}
			if m.rejected != "" {
				cause = "wedged-after-reject"
			}
			return []core.Finding{core.F(fmt.Sprintf("%s/%s(%s,%s|%s)", engine, cause, route, after, core.Class(pan)), "%s: panic %s", where, pan)}, m, true
		}
		switch exp {
		case "ok":
			if err != nil {
				cause := "legal-call-error"
				if m.rejected != "" {
					cause = "wedged-after-reject"
				}
				return []core.Finding{core.F(fmt.Sprintf("%s/%s(%s,%s|%s)", engine, cause, route, after, core.Class(err.Error())), "%s: %s returned %v", where, at, err)}, m, true
			}
			m.apply(c)
			if c == "Build" {
				got, incs := ref.Observe(built)
				if len(incs) > 0 {
					return []core.Finding{core.F(fmt.Sprintf("%s/result-inconsistent(%s):%s", engine, after, incs[0].Cause), "%s: %s", where, incs[0].Detail)}, m, true
				}
				if !ref.Equal(got, m.root) {
					cause := "result-differs"
					if m.rejected != "" {
						cause = "side-effect-after-reject"
					}
					return []core.Finding{core.F(fmt.Sprintf("%s/%s(%s)", engine, cause, after), "%s: model %s, built %s", where, m.root, got)}, m, true
				}
			}
		case "dup":
			if err == nil {
				return []core.Finding{core.F(fmt.Sprintf("%s/dup-accepted(%s)", engine, route), "%s: repeated key accepted", where)}, m, true
			}
			if !isRepeatedKey(err) {
				return []core.Finding{core.F(fmt.Sprintf("%s/dup-wrong-error(%s|%T)", engine, route, err), "%s: %v", where, err)}, m, true
			}
			if m.rejected == "" {
				m.rejected = route
			}
			// the rejected call must leave everything as it was: the model does not move
		case "wrongkind":
			if err == nil {
				return []core.Finding{core.F(fmt.Sprintf("%s/wrongkind-accepted(%s)", engine, route), "%s: accepted", where)}, m, true
			}
			return nil, m, true // the property promises the error, not a usable assembler afterwards
		}
	}
	return nil, m, false
}

type node struct {
	calls []Call
}

// prefScore counts the key calls of a path made by the preferred route.
func prefScore(calls []Call, pref string) int {
	n := 0
	for _, c := range calls {
		if strings.HasPrefix(string(c), pref+":") {
			n++
		}
	}
	return n
}

// explore runs the search once. States are merged by the model's view of them and each state is
// represented by one call path; pref names the key route that path should use wherever it has the
// choice, so that over the passes (one per route) every state is entered with all its keys supplied
// by AssembleEntry, by the key assembler with a string, and by the key assembler with a node — and
// every call enabled there (all three routes again, every injected rejection) is then made from it.
func explore(r *core.Run, engine string, b bounds, pref string) {
	seen := map[string]bool{(&model{}).key(): true}
	frontier := []node{{nil}}
	var mu sync.Mutex
	var states, trans int64
	depth := 0
	started := time.Now()
	for len(frontier) > 0 && depth < b.maxCalls {
		if b.passBudget > 0 && time.Since(started) > b.passBudget {
			// an internal deadline, checked between levels only: everything up to this call depth was
			// completed; the run is reported as not exhaustive for its stated bound
			r.Capped(fmt.Sprintf("%s, pass %s: stopped after %v at call depth %d of %d with %d states on the frontier (all sequences of ≤%d calls were completed)", engine, pref, b.passBudget, depth, b.maxCalls, len(frontier), depth))
			break
		}
		var next []node
		level := map[string][]Call{}
		core.ParallelFor(len(frontier), func(i int) {
			cur := frontier[i]
			_, m, ended := Run(engine, cur.calls, b)
			if ended {
				return
			}
			var local []node
			var ltrans int64
			for _, n := range m.enabled(engine, b) {
				calls := append(append([]Call(nil), cur.calls...), n.call)
				fs, m2, ended := Run(engine, calls, b)
				ltrans++
				r.Traces.Add(1)
				r.Report("calls", Case{engine, calls}, fs)
				r.Outcome(engine + "/" + n.expect)
				if len(fs) > 0 || ended {
					continue
				}
				k := m2.key()
				mu.Lock()
				merged := seen[k]
				if !merged {
					// first reached at this depth: among the paths of this depth the one using the preferred
					// key route most represents the state
					if old, ok := level[k]; !ok || prefScore(calls, pref) > prefScore(old, pref) {
						level[k] = calls
					}
				}
				mu.Unlock()
				if merged {
					// This path ends here because its model state was reached before by another path. What
					// it left in the real builder is still observed: complete it the shortest legal way and
					// compare the product with the model (two paths with one model state must build one value).
					if comp := completion(m2, engine); comp != nil {
						probe := append(append([]Call(nil), calls...), comp...)
						pfs, _, _ := Run(engine, probe, b)
						ltrans++
						r.Traces.Add(1)
						r.Report("calls", Case{engine, probe}, pfs)
					}
				}
			}
			mu.Lock()
			next = append(next, local...)
			trans += ltrans
			mu.Unlock()
		})
		for k, calls := range level {
			seen[k] = true
			next = append(next, node{calls})
		}
		states += int64(len(frontier))
		sort.Slice(next, func(i, j int) bool { return fmt.Sprint(next[i].calls) < fmt.Sprint(next[j].calls) })
		frontier = next
		depth++
	}
	if len(frontier) > 0 {
		r.Set("frontier_left_at_call_bound_"+engine+"_prefer_"+pref, len(frontier))
	}
	r.States.Add(states)
	r.Transitions.Add(trans)
	r.Evals.Add(trans)
	r.NontrivialN(trans)
	r.Set("states_"+engine+"_prefer_"+pref, states)
}

func Bounds(quick bool) bounds {
	if quick {
		return bounds{keys: []string{"a", "b"}, maxDepth: 2, maxEntries: 2, maxCalls: 10}
	}
	return bounds{keys: []string{"a", "b"}, maxDepth: 3, maxEntries: 2, maxCalls: 14, passBudget: 2 * time.Minute}
}

var Engines = []string{"basic-any", "basic-map", "basic-list"}

func Main(r *core.Run) {
	b := Bounds(r.Quick())
	r.Rule(fmt.Sprintf("explicit-state breadth-first search over assembler call sequences: alphabet BeginMap/BeginList, AssignNull/Int/String, AssignNode(prebuilt scalar|map|list × basicnode|foreign), AssembleEntry(k), AssembleKey().AssignString(k)/AssignNode(k)+AssembleValue(), Finish, Build, Reset; keys %v, nesting ≤%d, ≤%d entries per container, ≤%d calls; a repeated key injected through all three key routes at every position where a key is present, a non-string key and (kind-specific builders) a wrong root kind injected at every position; state = contract model (open containers, phases, partial value, first rejection route); every transition replays the path on a fresh real builder; one pass per key route, in which the path representing each merged state supplies its keys by that route wherever it has the choice; a path merged away is completed by the shortest legal call sequence and its product compared. Non-trivial: every transition (distinct call sequence).", b.keys, b.maxDepth, b.maxEntries, b.maxCalls))
	r.Assume("call orders the contract declares misuse are not generated")
	r.Assume("typed engines (reflection binding; generated code when linked): map-shaped assemblers of every family root (structs with map representation incl. renames/optionals, typed maps) at both levels — keys through all three routes, repeated keys injected at every state, Finish with and without the required fields, Build compared with the model")
	for _, e := range Engines {
		for _, pref := range []string{"Entry", "KeyString", "KeyNode"} {
			explore(r, e, b, pref)
		}
	}
	r.Sample(Case{"basic-any", []Call{"BeginMap", "Entry:a", "AssignInt", "KeyString:a", "KeyNode:b", "BeginList", "Finish", "Finish", "Build"}})
	typedMain(r, b)
}

func Replay(r *core.Run, raw json.RawMessage) {
	var tc TCase
	if json.Unmarshal(raw, &tc) == nil && tc.Schema != "" {
		ReplayTyped(r, tc)
		return
	}
	var c Case
	if err := json.Unmarshal(raw, &c); err != nil {
		panic(err)
	}
	if strings.HasPrefix(c.Engine, "basic") {
		fs, _, _ := Run(c.Engine, c.Calls, Bounds(false))
		r.Report("calls", c, fs)
		return
	}
	typedReplay(r, c)
}
