// Package c15: traversal controls only restrict a walk; they never change what it would visit.
package c15

import (
	"encoding/json"
	"errors"
	"fmt"
	"github.com/ipld/go-ipld-prime/traversal/selector"
	"strings"

	"github.com/ipld/go-ipld-prime/traversal"

	"verif/mc/core"
	"verif/mc/props/c07"
	"verif/mc/ref"
	"verif/mc/trav"
)

type Case struct {
	Graph   trav.GraphSpec `json:"graph"`
	Sel     *trav.Sel      `json:"selector"`
	Text    string         `json:"selector_text"`
	Control string         `json:"control"` // node-budget, link-budget, start-at, once, skip
	N       int64          `json:"n,omitempty"`
	Path    []string       `json:"path,omitempty"`
	Skip    []string       `json:"skip_hex,omitempty"`
}

func key(v trav.Visit) string { return fmt.Sprintf("%s|%c|%s", v.Path, v.Reason, v.Node.Key()) }

func same(a, b []trav.Visit) bool {
	if len(a) != len(b) {
		return false
	}
	for i := range a {
		if key(a[i]) != key(b[i]) {
			return false
		}
	}
	return true
}

func paths(vs []trav.Visit) string {
	var p []string
	for _, v := range vs {
		p = append(p, fmt.Sprintf("%q", v.Path))
	}
	return "[" + strings.Join(p, " ") + "]"
}

func budgetKind(err error) string {
	var be *traversal.ErrBudgetExceeded
	if errors.As(err, &be) {
		return be.BudgetKind
	}
	return ""
}

// inChain: is block j on the chain of blocks enclosing block b (b itself included)?
func inChain(u trav.RefWalk, b, j int) bool {
	for ; b >= 0; b = u.ParentBlock[b] {
		if b == j {
			return true
		}
	}
	return false
}

func isSubseqPrefixClass(exp, got []trav.Visit) string {
	switch {
	case len(got) < len(exp) && same(exp[:len(got)], got):
		return fmt.Sprintf("short-by-%d", min(len(exp)-len(got), 3))
	case len(got) > len(exp) && same(exp, got[:len(exp)]):
		return fmt.Sprintf("long-by-%d", min(len(got)-len(exp), 3))
	}
	return "differs"
}

// checkOnceFromStart: visit-once together with a start path. The property quantifies the controls
// one at a time, so only what each clause says on its own is required of the combination: no link
// is loaded twice, and the visits are a subsequence of what the start path alone yields.
func checkOnceFromStart(b *trav.Built, c Case, u trav.RefWalk, sel selector.Selector) (fs []core.Finding, outcome string) {
	where := fmt.Sprintf("selector %s over %s, start-at %q with visit-once", c.Sel, c.Graph, c.Path)
	p := strings.Join(c.Path, "/")
	i0 := -1
	for i := range u.Visits {
		if u.Visits[i].Path == p {
			i0 = i
			break
		}
	}
	if i0 < 0 || u.Err != "" {
		return nil, "start-path-not-visited"
	}
	o := trav.NoOpts()
	o.HaveStartAt, o.StartAt, o.Once = true, c.Path, true
	got := trav.RunWalk(b, b.Root, sel, o)
	if strings.HasPrefix(got.Err, "PANIC") {
		return []core.Finding{core.F("start-at+once/panic("+got.Err+")", "%s: %s", where, got.Err)}, "panic"
	}
	seen := map[string]bool{}
	for _, l := range got.Loads {
		if seen[l] {
			fs = append(fs, core.F("start-at+once/link-loaded-twice", "%s: loads %x", where, short(got.Loads)))
			break
		}
		seen[l] = true
	}
	tail := u.Visits[i0:]
	j := 0
	for _, v := range got.Visits {
		for j < len(tail) && key(tail[j]) != key(v) {
			j++
		}
		if j == len(tail) {
			fs = append(fs, core.F("start-at+once/not-a-subsequence-of-the-start-at-walk", "%s: start-at alone visits %s, with visit-once %s", where, paths(tail), paths(got.Visits)))
			break
		}
		j++
	}
	if len(fs) > 0 {
		return fs, "bad"
	}
	return nil, "ok:start-at+once"
}

// CheckControl runs one restricted walk and compares with what the unrestricted walk u implies.
func CheckControl(b *trav.Built, c Case, u trav.RefWalk) (fs []core.Finding, outcome string) {
	sel, err := c.Sel.Compile()
	if err != nil {
		return nil, "uncompilable"
	}
	if c.Control == "start-at+once" {
		return checkOnceFromStart(b, c, u, sel)
	}
	where := fmt.Sprintf("selector %s over %s, %s", c.Sel, c.Graph, c.Control)
	U, Lk := u.Visits, u.Loads
	o := trav.NoOpts()
	var expV []trav.Visit
	var expL []string
	expErr := "" // "", "node", "link", "load"
	if u.Err != "" {
		expErr = "load"
	}
	xform := strings.HasPrefix(c.Control, "xform-")
	o.Transforming = xform
	switch strings.TrimPrefix(c.Control, "xform-") {
	case "node-budget":
		o.NodeBudget = c.N
		if c.N < int64(len(U)) {
			expV, expErr = U[:c.N], "node"
			for j := range Lk {
				// loads made before the (N+1)-th visit: those whose block root index < N … a load precedes its root visit
				first := len(U)
				for i := range U {
					if u.BlockOf[i] == j {
						first = i
						break
					}
				}
				if int64(first) < c.N || (first == len(U) && false) {
					expL = append(expL, Lk[j])
				} else if int64(first) == c.N {
					// the load happens, then the budget check fails on the block's root
					expL = append(expL, Lk[j])
				}
			}
			if u.Err != "" {
				expL = nil // with a failing load in U the interleaving of loads is not reconstructed; visits only
			}
		} else {
			expV, expL = U, Lk
		}
	case "link-budget":
		o.LinkBudget = c.N
		if c.N < int64(len(Lk)) {
			cut := len(U)
			for i := range U {
				if u.BlockOf[i] >= int(c.N) {
					cut = i
					break
				}
			}
			// visits strictly before the first visit of block N or later; if block N has no visits
			// (a failed load) the cut is where that load was attempted: reconstructed only when it is the last
			if cut == len(U) && u.Err != "" && int(c.N) == len(Lk)-1 {
				cut = len(U)
			}
			expV, expL, expErr = U[:cut], Lk[:c.N], "link"
		} else {
			expV, expL = U, Lk
		}
	case "start-at":
		o.HaveStartAt, o.StartAt = true, c.Path
		p := strings.Join(c.Path, "/")
		i0 := -1
		for i := range U {
			if U[i].Path == p {
				i0 = i
				break
			}
		}
		if i0 < 0 {
			return nil, "start-path-not-visited"
		}
		expV = U[i0:]
		for j := range Lk {
			needed := inChain(u, u.BlockOf[i0], j)
			for i := i0; i < len(U) && !needed; i++ {
				if inChain(u, u.BlockOf[i], j) {
					needed = true
				}
			}
			if !needed && j == len(Lk)-1 && u.Err != "" {
				needed = true // the failing load at the very end has no visits
			}
			if needed {
				expL = append(expL, Lk[j])
			}
		}
	case "once":
		o.Once = true
		seen := map[string]bool{}
		skipped := map[int]bool{}
		for j := range Lk {
			if pb := u.ParentBlock[j]; pb >= 0 && skipped[pb] {
				skipped[j] = true
				continue
			}
			if seen[Lk[j]] {
				skipped[j] = true
				continue
			}
			seen[Lk[j]] = true
			expL = append(expL, Lk[j])
		}
		for i := range U {
			if b := u.BlockOf[i]; b >= 0 && skipped[b] {
				continue
			}
			expV = append(expV, U[i])
		}
		if u.Err != "" && skipped[len(Lk)-1] {
			expErr = ""
		}
	case "skip":
		o.Skip = map[string]bool{}
		for _, s := range c.Skip {
			o.Skip[s] = true
		}
		skipped := map[int]bool{}
		for j := range Lk {
			if pb := u.ParentBlock[j]; pb >= 0 && skipped[pb] {
				skipped[j] = true
				continue
			}
			expL = append(expL, Lk[j])
			if o.Skip[Lk[j]] {
				skipped[j] = true
			}
		}
		for i := range U {
			if b := u.BlockOf[i]; b >= 0 && skipped[b] {
				continue
			}
			expV = append(expV, U[i])
		}
		if u.Err != "" && skipped[len(Lk)-1] {
			expErr = ""
		}
	}
	got := trav.RunWalk(b, b.Root, sel, o)
	if xform {
		// the transforming walk reports only its callbacks (the matched nodes); compared by path
		var m []trav.Visit
		for _, v := range expV {
			if v.Reason == 'm' {
				m = append(m, trav.Visit{Path: v.Path, Reason: 'm'})
			}
		}
		expV = m
		for i := range got.Visits {
			got.Visits[i] = trav.Visit{Path: got.Visits[i].Path, Reason: 'm'}
		}
	}
	if xform && got.Err == "" {
		// an identity transform under any control returns an equal tree: links it did not follow stay links
		want, _ := ref.Read1(b.Root)
		var have ref.Val
		if got.Result != nil {
			have, _ = ref.Read1(got.Result)
		}
		if got.Result == nil || !ref.Equal(want, have) {
			fs = append(fs, core.F(c.Control+"/identity-result-differs", "%s: identity transform returned %s, the root is %s", where, have, want))
		}
	}
	if strings.HasPrefix(got.Err, "PANIC") {
		return []core.Finding{core.F(c.Control+"/panic("+got.Err+")", "%s: %s", where, got.Err)}, "panic"
	}
	gotErr := ""
	if got.Err != "" {
		gotErr = budgetKind(got.ErrObj)
		if gotErr == "" {
			gotErr = "load"
		}
	}
	if !same(expV, got.Visits) {
		fs = append(fs, core.F(c.Control+"/visits-"+isSubseqPrefixClass(expV, got.Visits), "%s: unrestricted %s; expected %s, observed %s (err %q)", where, paths(U), paths(expV), paths(got.Visits), got.Err))
	}
	if expErr != gotErr {
		fs = append(fs, core.F(fmt.Sprintf("%s/error-expected-%q-got-%q", c.Control, expErr, gotErr), "%s: unrestricted %s loads %d; observed visits %s err %q", where, paths(U), len(Lk), paths(got.Visits), got.Err))
	}
	if expL != nil || len(got.Loads) > 0 {
		if strings.Join(expL, ",") != strings.Join(got.Loads, ",") && !(strings.HasSuffix(c.Control, "node-budget") && u.Err != "") {
			cls := "differs"
			if len(got.Loads) > len(expL) {
				cls = "extra-loads"
			} else if len(got.Loads) < len(expL) {
				cls = "missing-loads"
			}
			fs = append(fs, core.F(c.Control+"/loads-"+cls, "%s: unrestricted loads %x; expected %x, observed %x", where, short(Lk), short(expL), short(got.Loads)))
		}
	}
	if len(fs) > 0 {
		return fs, "bad"
	}
	return nil, "ok:" + c.Control + "/" + gotErr
}

func short(ls []string) []string {
	var out []string
	for _, l := range ls {
		out = append(out, l[len(l)-3:])
	}
	return out
}

func selectors(quick bool) []*trav.Sel {
	k := 3
	out := trav.Enumerate(trav.QuickAlphabet(), k)
	exploreAll := trav.Rec(-1, trav.Un(trav.M(), trav.All(trav.Edge())))
	out = append(out, exploreAll, trav.Rec(2, trav.Un(trav.M(), trav.All(trav.Edge()))), trav.Rec(3, trav.All(trav.Edge())),
		trav.Rec(-1, trav.Un(trav.M(), trav.Fld(trav.F1("a", trav.Edge()), trav.F1("0", trav.Edge())))))
	if !quick {
		out = append(out, trav.Enumerate(trav.ThoroughAlphabet(), 3)...)
	}
	return out
}

func graphs(quick bool) []trav.GraphSpec {
	n, maxCuts := 4, 2
	if !quick {
		n, maxCuts = 5, 3
	}
	var out []trav.GraphSpec
	for _, t := range trav.GraphTrees(n, trav.GraphLeaves(true)[:1]) {
		for _, cuts := range trav.CutSets(t, maxCuts, false) {
			out = append(out, trav.GraphSpec{Tree: t, Cuts: cuts})
		}
	}
	for _, t := range trav.GraphTrees(n-1, trav.GraphLeaves(true)[2:]) { // bytes + dangling link leaves
		for _, cuts := range trav.CutSets(t, 1, true) {
			out = append(out, trav.GraphSpec{Tree: t, Cuts: cuts})
		}
	}
	leaf := ref.Int(7)
	shared := ref.List(ref.Map(ref.E("a", ref.List(leaf))), ref.Map(ref.E("a", ref.List(leaf))), ref.Map(ref.E("a", ref.List(leaf))), ref.List(leaf))
	// repeated links at several levels: [X, X, X, Y] with X = {a: Y}, Y = [7]
	out = append(out, trav.GraphSpec{Tree: shared, Cuts: []int{1, 2, 4, 5, 7, 8, 10}}, trav.GraphSpec{Tree: shared, Cuts: []int{1, 4, 7}}, trav.GraphSpec{Tree: shared, Cuts: []int{2, 5, 8, 10}})
	// paths whose string forms are prefixes of one another without being path prefixes: list indices of
	// two digits (1 | 10, 11) and map keys that begin with an earlier key (a | ab | abc); some entries
	// are blocks of their own so that "not loaded before the start path" has something to say
	wide := ref.List()
	for i := 0; i < 12; i++ {
		if i == 1 || i == 10 || i == 11 {
			wide.L = append(wide.L, ref.Map(ref.E("a", leaf)))
		} else {
			wide.L = append(wide.L, leaf)
		}
	}
	// preorder: 0 root; elements: 0→1, 1→2 (map; its leaf 3), 2→4, … 9→11, 10→12 (leaf 13), 11→14 (leaf 15)
	out = append(out, trav.GraphSpec{Tree: wide}, trav.GraphSpec{Tree: wide, Cuts: []int{2, 12, 14}})
	pre := ref.Map(ref.E("a", ref.List(leaf)), ref.E("ab", ref.List(leaf, leaf)), ref.E("abc", ref.Map(ref.E("a", leaf))), ref.E("b", leaf))
	// preorder: 0 root; a→1 (leaf 2); ab→3 (4, 5); abc→6 (7); b→8
	out = append(out, trav.GraphSpec{Tree: pre}, trav.GraphSpec{Tree: pre, Cuts: []int{1, 3, 6}})
	// map keys that are different strings but equal as numerals (01 | 1 | +1 | 1.0), in the order that
	// puts the non-canonical spelling first: a start path names its entry by the string
	twins := ref.Map(ref.E("01", ref.List(leaf)), ref.E("1", ref.List(leaf, leaf)), ref.E("+1", ref.Map(ref.E("00", leaf), ref.E("0", leaf))), ref.E("001", leaf))
	// preorder: 0 root; 01→1 (leaf 2); 1→3 (4, 5); +1→6 (7, 8); 001→9
	out = append(out, trav.GraphSpec{Tree: twins}, trav.GraphSpec{Tree: twins, Cuts: []int{1, 3, 6}})
	return out
}

func Main(r *core.Run) {
	quick := r.Quick()
	gs, ss := graphs(quick), selectors(quick)
	r.Rule(fmt.Sprintf("for every (graph, selector) of %d graphs (trees ≤%d nodes, every cut ≤%d into blocks, dangling and repeated links) × %d selectors whose unrestricted real walk equals the reference: every node budget 0..|U|+1, every link budget 0..|Lk|+1, a start-at path for every visit of U, LinkVisitOnlyOnce, and every set of ≤2 (quick) / ≤3 links answered SkipMe; visit-once together with each start path (only what each clause says on its own: no link loaded twice, a subsequence of the start-at walk); node budgets, link budgets and visit-once also on the transforming walk (identity function; its callbacks = the matched visits). Non-trivial = restricted walk differs from the unrestricted one; distinct by (graph, selector, control setting).", len(gs), map[bool]int{true: 4, false: 5}[quick], map[bool]int{true: 2, false: 3}[quick], len(ss)))
	r.Assume("the unrestricted sequence U, its loads and the block each visit lies in come from the reference denotation and are used only where the real unrestricted walk equals it (otherwise the pair is counted as skipped and left to C07)")
	var skippedPairs, pairs int64
	core.ParallelFor(len(gs), func(gi int) {
		b := trav.Build(gs[gi])
		var lc core.LocalCounters
		var nt, sk, pr, xsk int64
		oc := map[string]int64{}
		for _, s := range ss {
			sel, err := s.Compile()
			if err != nil {
				continue
			}
			pr++
			u := trav.Denote(b.G, s)
			lib := trav.RunWalk(b, b.Root, sel, trav.NoOpts())
			if len(u.Visits) != len(lib.Visits) || (u.Err != "") != (lib.Err != "") || strings.Join(u.Loads, ",") != strings.Join(lib.Loads, ",") {
				sk++
				continue
			}
			ok := true
			for i := range u.Visits {
				if key(u.Visits[i]) != key(lib.Visits[i]) {
					ok = false
				}
			}
			if !ok {
				sk++
				continue
			}
			lc.States++
			run := func(c Case) {
				c.Graph, c.Sel, c.Text = gs[gi], s, s.String()
				fs, outcome := CheckControl(b, c, u)
				lc.Transitions++
				lc.Traces++
				lc.Evals++
				oc[outcome]++
				r.Report("control", c, fs)
			}
			// the transforming walk obeys the same controls: usable when its unrestricted callbacks are the matches of U
			xf := trav.RunWalk(b, b.Root, sel, trav.WalkOpts{Transforming: true, NodeBudget: -1, LinkBudget: -1})
			// (pairs whose unrestricted walk ends in a failed load are left out: the transforming walk goes
			// through a map in the node's order, the visiting walks in the selector's field order, so which of
			// "budget exhausted" and "load failed" comes first is not the same question for both)
			xok := xf.Err == "" && u.Err == "" && strings.Join(xf.Loads, ",") == strings.Join(u.Loads, ",")
			var um []string
			for _, v := range u.Visits {
				if v.Reason == 'm' {
					um = append(um, v.Path)
				}
			}
			if len(um) != len(xf.Visits) {
				xok = false
			} else {
				for i := range um {
					if um[i] != xf.Visits[i].Path {
						xok = false
					}
				}
			}
			if xok {
				for n := int64(0); n <= int64(len(u.Visits))+1; n++ {
					run(Case{Control: "xform-node-budget", N: n})
				}
				for n := int64(0); n <= int64(len(u.Loads))+1; n++ {
					run(Case{Control: "xform-link-budget", N: n})
				}
				if len(u.Loads) > 0 {
					run(Case{Control: "xform-once"})
				}
			} else {
				xsk++
			}
			for n := int64(0); n <= int64(len(u.Visits))+1; n++ {
				run(Case{Control: "node-budget", N: n})
				if n < int64(len(u.Visits)) {
					nt++
				}
			}
			for n := int64(0); n <= int64(len(u.Loads))+1; n++ {
				run(Case{Control: "link-budget", N: n})
				if n < int64(len(u.Loads)) {
					nt++
				}
			}
			for i, v := range u.Visits {
				if v.Path == "" {
					continue
				}
				run(Case{Control: "start-at", Path: strings.Split(v.Path, "/")})
				if len(u.Loads) >= 2 {
					run(Case{Control: "start-at+once", Path: strings.Split(v.Path, "/")})
				}
				if i > 0 {
					nt++
				}
			}
			if len(u.Loads) > 0 {
				run(Case{Control: "once"})
				distinct := map[string]bool{}
				for _, l := range u.Loads {
					distinct[l] = true
				}
				if len(distinct) < len(u.Loads) {
					nt++
				}
				var dl []string
				for _, l := range u.Loads {
					if distinct[l] && l != trav.DanglingLink {
						// (skipping the link whose load fails in U would reveal visits U never reached)
						dl = append(dl, l)
						distinct[l] = false
					}
				}
				maxS := 2
				if !quick {
					maxS = 3
				}
				if u.Err != "" {
					// the unrestricted walk stopped at a failed load: skipping a block before that point lets the
					// walk go on to nodes (and loads) the unrestricted sequence never reached, so "a subsequence
					// of the unrestricted walk" has nothing to say about them
					dl = nil
				}
				for k := 1; k <= maxS && k <= len(dl); k++ {
					for _, sub := range ref.Subsets(len(dl), k) {
						var sk []string
						for _, i := range sub {
							sk = append(sk, dl[i])
						}
						run(Case{Control: "skip", Skip: sk})
						if xok {
							run(Case{Control: "xform-skip", Skip: sk})
						}
						nt++
					}
				}
			}
		}
		r.Merge(&lc)
		r.NontrivialN(nt)
		for k, v := range oc {
			r.OutcomeN(k, v)
		}
		r.Add("pairs", pr)
		r.Add("pairs_skipped_unrestricted_walk_differs_from_reference", sk)
		r.Add("pairs_skipped_for_the_transforming_walk", xsk)
		_ = skippedPairs
		_ = pairs
	})
	r.Sample(Case{Graph: gs[len(gs)-1], Text: ss[len(ss)-4].String(), Control: "once"})
	r.Sample(Case{Graph: gs[len(gs)/2], Text: ss[len(ss)/2].String(), Control: "node-budget", N: 1})
	_ = c07.Families
}

func Replay(r *core.Run, raw json.RawMessage) {
	var c Case
	if err := json.Unmarshal(raw, &c); err != nil {
		panic(err)
	}
	b := trav.Build(c.Graph)
	u := trav.Denote(b.G, c.Sel)
	fs, _ := CheckControl(b, c, u)
	r.Report("control", c, fs)
}
