// Package c10: parsers of untrusted data are total and bounded — error or result, never panic;
// nesting never beyond MaxDepth; allocation bounded by a fixed multiple of budget + input length.
package c10

import (
	"bufio"
	"bytes"
	"encoding/hex"
	"encoding/json"
	"fmt"
	"io"
	"math"
	"os"
	"os/exec"
	"runtime"
	"strings"
	"sync/atomic"
	"syscall"
	"time"

	"github.com/ipld/go-ipld-prime/codec/cbor"
	"github.com/ipld/go-ipld-prime/codec/dagcbor"
	"github.com/ipld/go-ipld-prime/codec/dagjson"
	cjson "github.com/ipld/go-ipld-prime/codec/json"
	"github.com/ipld/go-ipld-prime/codec/raw"
	"github.com/ipld/go-ipld-prime/datamodel"
	"github.com/ipld/go-ipld-prime/node/basicnode"
	"github.com/ipld/go-ipld-prime/traversal"
	"github.com/ipld/go-ipld-prime/traversal/selector"

	"verif/mc/core"
	"verif/mc/props/c07"
	"verif/mc/ref"
	"verif/mc/trav"
)

// ---- depth proxy: an assembler wrapper that observes nesting ----

type depthProbe struct{ max, cur int }

type dAsm struct {
	datamodel.NodeAssembler
	p *depthProbe
}
type dMap struct {
	datamodel.MapAssembler
	p *depthProbe
}
type dList struct {
	datamodel.ListAssembler
	p *depthProbe
}

func (a dAsm) BeginMap(n int64) (datamodel.MapAssembler, error) {
	ma, err := a.NodeAssembler.BeginMap(n)
	if err != nil {
		return nil, err
	}
	a.p.cur++
	if a.p.cur > a.p.max {
		a.p.max = a.p.cur
	}
	return dMap{ma, a.p}, nil
}
func (a dAsm) BeginList(n int64) (datamodel.ListAssembler, error) {
	la, err := a.NodeAssembler.BeginList(n)
	if err != nil {
		return nil, err
	}
	a.p.cur++
	if a.p.cur > a.p.max {
		a.p.max = a.p.cur
	}
	return dList{la, a.p}, nil
}
func (m dMap) AssembleKey() datamodel.NodeAssembler { return m.MapAssembler.AssembleKey() }
func (m dMap) AssembleValue() datamodel.NodeAssembler {
	return dAsm{m.MapAssembler.AssembleValue(), m.p}
}
func (m dMap) AssembleEntry(k string) (datamodel.NodeAssembler, error) {
	va, err := m.MapAssembler.AssembleEntry(k)
	if err != nil {
		return nil, err
	}
	return dAsm{va, m.p}, nil
}
func (m dMap) Finish() error { m.p.cur--; return m.MapAssembler.Finish() }
func (l dList) AssembleValue() datamodel.NodeAssembler {
	return dAsm{l.ListAssembler.AssembleValue(), l.p}
}
func (l dList) Finish() error { l.p.cur--; return l.ListAssembler.Finish() }

// ---- decoder configurations ----

type Cfg struct {
	Codec    string `json:"codec"`
	MaxDepth int64  `json:"max_depth"`    // 0 = default
	Budget   int64  `json:"alloc_budget"` // 0 = default
	Prealloc int64  `json:"max_prealloc"`
	Relaxed  bool   `json:"relaxed"`
	NoLinks  bool   `json:"no_links"`
	Stream   bool   `json:"dont_parse_beyond_end"`
	Target   string `json:"target"` // any, map, list, string, bytes, int
}

func (c Cfg) String() string {
	return fmt.Sprintf("%s{depth=%d,budget=%d,prealloc=%d,relaxed=%v,nolinks=%v,stream=%v,target=%s}", c.Codec, c.MaxDepth, c.Budget, c.Prealloc, c.Relaxed, c.NoLinks, c.Stream, c.Target)
}

func target(name string) datamodel.NodePrototype {
	switch name {
	case "map":
		return basicnode.Prototype.Map
	case "list":
		return basicnode.Prototype.List
	case "string":
		return basicnode.Prototype.String
	case "bytes":
		return basicnode.Prototype.Bytes
	case "int":
		return basicnode.Prototype.Int
	}
	return basicnode.Prototype.Any
}

// Decode runs one decoder configuration on one input; returns error text, panic text, observed depth.
func Decode(c Cfg, in []byte) (errText, pan string, depth int) {
	probe := &depthProbe{}
	nb := target(c.Target).NewBuilder()
	na := dAsm{nb, probe}
	var err error
	pan = core.Guard(func() {
		r := bytes.NewReader(in)
		switch c.Codec {
		case "dag-cbor":
			err = dagcbor.DecodeOptions{AllowLinks: !c.NoLinks, RelaxedDecode: c.Relaxed, DontParseBeyondEnd: c.Stream, AllocationBudget: c.Budget, MaxCollectionPrealloc: c.Prealloc, MaxDepth: c.MaxDepth}.Decode(na, r)
		case "cbor":
			err = cbor.Decode(na, r)
		case "dag-json":
			err = dagjson.DecodeOptions{ParseLinks: !c.NoLinks, ParseBytes: !c.NoLinks, DontParseBeyondEnd: c.Stream, MaxDepth: c.MaxDepth}.Decode(na, r)
		case "json":
			err = cjson.Decode(na, r)
		case "raw":
			err = raw.Decode(na, r)
		}
		if err == nil {
			// a result: it must be a readable node
			ref.Read1(nb.Build())
		}
	})
	if err != nil {
		errText = err.Error()
	}
	return errText, pan, probe.max
}

func effectiveDepth(c Cfg) int {
	if c.MaxDepth > 0 {
		return int(c.MaxDepth)
	}
	return 1024
}

type DecCase struct {
	Cfg Cfg    `json:"config"`
	Hex string `json:"input_hex"`
}

func CheckDecode(c Cfg, in []byte) (fs []core.Finding, outcome string) {
	errText, pan, depth := Decode(c, in)
	if pan != "" {
		return []core.Finding{core.F("decode/"+c.Codec+"/panic("+c.Target+"|"+core.Class(pan)+")", "%s input %x: %s", c, trunc(in), pan)}, "panic"
	}
	if (c.Codec == "dag-cbor" || c.Codec == "dag-json") && depth > effectiveDepth(c) {
		return []core.Finding{core.F("decode/"+c.Codec+"/depth>max", "%s input %x: nested %d deep, limit %d", c, trunc(in), depth, effectiveDepth(c))}, "bad"
	}
	if errText != "" {
		return nil, "error"
	}
	return nil, "result"
}

func trunc(b []byte) []byte {
	if len(b) > 40 {
		return b[:40]
	}
	return b
}

func cborConfigs(quick bool) []Cfg {
	var out []Cfg
	depths := []int64{0, 1, 2, 3}
	budgets := []int64{0, 1, 8, 64}
	for _, d := range depths {
		for _, b := range budgets {
			for _, relaxed := range []bool{false, true} {
				out = append(out, Cfg{Codec: "dag-cbor", MaxDepth: d, Budget: b, Relaxed: relaxed, Target: "any"})
			}
		}
	}
	out = append(out, Cfg{Codec: "dag-cbor", Prealloc: 1, Target: "any"}, Cfg{Codec: "dag-cbor", NoLinks: true, Target: "any"}, Cfg{Codec: "dag-cbor", Stream: true, Target: "any"}, Cfg{Codec: "cbor", Target: "any"})
	for _, t := range []string{"map", "list", "string", "bytes", "int"} {
		out = append(out, Cfg{Codec: "dag-cbor", Target: t}, Cfg{Codec: "dag-cbor", Relaxed: true, MaxDepth: 2, Target: t})
	}
	return out
}

func jsonConfigs() []Cfg {
	var out []Cfg
	for _, d := range []int64{0, 1, 2, 3} {
		out = append(out, Cfg{Codec: "dag-json", MaxDepth: d, Target: "any"})
	}
	out = append(out, Cfg{Codec: "dag-json", NoLinks: true, Target: "any"}, Cfg{Codec: "dag-json", Stream: true, Target: "any"}, Cfg{Codec: "json", Target: "any"})
	for _, t := range []string{"map", "list", "string", "bytes", "int"} {
		out = append(out, Cfg{Codec: "dag-json", Target: t})
	}
	return out
}

var cborAlphabet = []byte{0x00, 0x17, 0x18, 0x19, 0x1b, 0x1f, 0x20, 0x38, 0x3b, 0x40, 0x41, 0x58, 0x5f, 0x60, 0x61, 0x78, 0x7f, 0x80, 0x81, 0x98, 0x9b, 0x9f, 0xa0, 0xa1, 0xb8, 0xbf, 0xc0, 0xd8, 0x2a, 0xf4, 0xf6, 0xf7, 0xf9, 0xfb, 0xff, 0x7c}

var jsonAlphabet = []byte(`{}[]:,"\/u01-.eEtrnfals 9+` + "\x00\x7f\xff\xe2")

func sweep(r *core.Run, alphabet []byte, maxLen int, cfgs []Cfg, label string) {
	n := len(alphabet)
	core.ParallelFor(n*n, func(shard int) {
		var lc core.LocalCounters
		oc := map[string]int64{}
		buf := []byte{alphabet[shard/n], alphabet[shard%n]}
		var rec func()
		rec = func() {
			for _, c := range cfgs {
				fs, outcome := CheckDecode(c, buf)
				lc.Transitions++
				lc.Evals++
				oc[c.Codec+":"+outcome]++
				if len(fs) > 0 {
					r.Report("decode", DecCase{c, hex.EncodeToString(buf)}, fs)
				}
			}
			lc.States++
			lc.Traces++
			if len(buf) == maxLen {
				return
			}
			for _, ch := range alphabet {
				buf = append(buf, ch)
				rec()
				buf = buf[:len(buf)-1]
			}
		}
		rec()
		nStates := lc.States
		r.Merge(&lc)
		r.NontrivialN(nStates)
		for k, v := range oc {
			r.OutcomeN(k, v)
		}
	})
	r.Add("sweep_"+label+"_alphabet", int64(n))
}

// depthBombs: nesting of MaxDepth±1 in both codecs, maps and lists.
func depthBombs(r *core.Run) {
	for _, d := range []int{1, 2, 3, 4, 1023, 1024, 1025, 1026, 5000} {
		for _, md := range []int64{0, 1, 2, 3} {
			cb := append(bytes.Repeat([]byte{0x81}, d), 0x00)
			cm := append(bytes.Repeat([]byte{0xa1, 0x61, 0x61}, d), 0x00)
			jl := []byte(strings.Repeat("[", d) + "1" + strings.Repeat("]", d))
			jm := []byte(strings.Repeat(`{"a":`, d) + "1" + strings.Repeat("}", d))
			// maps under the reserved key and its "bytes" companion: the decoder reads these through its
			// link/bytes lookahead, a different path to the same nesting
			js := []byte(strings.Repeat(`{"/":`, d) + "1" + strings.Repeat("}", d))
			jb := []byte(strings.Repeat(`{"/":{"bytes":`, (d+1)/2) + "1" + strings.Repeat("}}", (d+1)/2))
			jsl := []byte(strings.Repeat(`[{"/":`, (d+1)/2) + "1" + strings.Repeat("}]", (d+1)/2))
			cases := []struct {
				c  Cfg
				in []byte
				d  int
			}{{Cfg{Codec: "dag-cbor", MaxDepth: md, Target: "any"}, cb, d}, {Cfg{Codec: "dag-cbor", MaxDepth: md, Target: "any"}, cm, d}, {Cfg{Codec: "dag-json", MaxDepth: md, Target: "any"}, jl, d}, {Cfg{Codec: "dag-json", MaxDepth: md, Target: "any"}, jm, d},
				{Cfg{Codec: "dag-json", MaxDepth: md, Target: "any"}, js, d}}
			if md == 0 {
				// (the plain json codec has no depth option: its limit is the default one)
				cases = append(cases, struct {
					c  Cfg
					in []byte
					d  int
				}{Cfg{Codec: "json", Target: "any"}, js, d})
			}
			if d%2 == 0 {
				cases = append(cases, struct {
					c  Cfg
					in []byte
					d  int
				}{Cfg{Codec: "dag-json", MaxDepth: md, Target: "any"}, jb, d}, struct {
					c  Cfg
					in []byte
					d  int
				}{Cfg{Codec: "dag-json", MaxDepth: md, Target: "any"}, jsl, d})
			}
			for _, in := range cases {
				fs, outcome := CheckDecode(in.c, in.in)
				exp := effectiveDepth(in.c)
				if outcome == "result" && d > exp || outcome == "error" && d <= exp {
					fs = append(fs, core.F("decode/"+in.c.Codec+"/depth-limit-off", "%s: input nested %d deep: %s (limit %d)", in.c, d, outcome, exp))
				}
				r.States.Add(1)
				r.Transitions.Add(1)
				r.Evals.Add(1)
				r.NontrivialN(1)
				r.Outcome("depthbomb:" + outcome)
				r.Report("decode", DecCase{in.c, hex.EncodeToString(trunc(in.in))}, fs)
			}
		}
	}
}

// ---- hostile claimed lengths: run in a worker subprocess under an address-space limit ----

func hostileInputs() [][]byte {
	var out [][]byte
	claims := []uint64{24, 1 << 16, 1 << 31, 1 << 32, math.MaxInt64, math.MaxUint64}
	for major := byte(2); major <= 5; major++ {
		for _, n := range claims {
			head := ref.CborHeadBytes(major, n, 27)
			if n < 1<<32 {
				head = ref.CborHeadBytes(major, n, 26)
			}
			for _, payload := range [][]byte{nil, {0x00}, {0x61, 0x61}} {
				in := append(append([]byte{}, head...), payload...)
				out = append(out, in)
				for depth := 1; depth <= 4; depth++ {
					nested := append(bytes.Repeat([]byte{0x81}, depth), in...)
					out = append(out, nested)
					nestedM := append(bytes.Repeat([]byte{0xa1, 0x61, 0x6b}, depth), in...)
					out = append(out, nestedM)
				}
			}
		}
	}
	return out
}

type allocResult struct {
	Idx    int    `json:"i"`
	Cfg    int    `json:"c"`
	Alloc  uint64 `json:"alloc"`
	Panic  string `json:"panic,omitempty"`
	Result bool   `json:"result"`
}

func hostileConfigs() []Cfg {
	return []Cfg{
		{Codec: "dag-cbor", Target: "any"},
		{Codec: "dag-cbor", Budget: 64, Target: "any"},
		{Codec: "dag-cbor", Budget: 1 << 20, Relaxed: true, Target: "any"},
		{Codec: "dag-cbor", Prealloc: 1 << 40, Target: "any"},
		{Codec: "cbor", Target: "any"},
		{Codec: "dag-cbor", Target: "map"}, {Codec: "dag-cbor", Target: "list"}, {Codec: "dag-cbor", Target: "bytes"}, {Codec: "dag-cbor", Target: "string"},
	}
}

// AllocWorker: single goroutine, address-space limited; announces each case before running it.
func AllocWorker() {
	var lim syscall.Rlimit
	lim.Cur, lim.Max = 6<<30, 6<<30
	syscall.Setrlimit(syscall.RLIMIT_AS, &lim)
	runtime.GOMAXPROCS(1)
	ins := hostileInputs()
	cfgs := hostileConfigs()
	w := bufio.NewWriter(os.Stdout)
	for i, in := range ins {
		for ci, c := range cfgs {
			fmt.Fprintf(w, "START %d %d\n", i, ci)
			w.Flush()
			var m0, m1 runtime.MemStats
			runtime.ReadMemStats(&m0)
			errText, pan, _ := Decode(c, in)
			runtime.ReadMemStats(&m1)
			b, _ := json.Marshal(allocResult{i, ci, m1.TotalAlloc - m0.TotalAlloc, pan, errText == "" && pan == ""})
			fmt.Fprintf(w, "DONE %s\n", b)
			w.Flush()
		}
	}
	fmt.Fprintln(w, "END")
	w.Flush()
}

const allocK, allocC0 = 512, 256 << 10

func budgetOf(c Cfg) uint64 {
	if c.Budget > 0 {
		return uint64(c.Budget)
	}
	return 1048576 * 10
}

func hostile(r *core.Run) {
	ins := hostileInputs()
	cfgs := hostileConfigs()
	cmd := exec.Command(os.Args[0], "C10-alloc-worker")
	stdout, _ := cmd.StdoutPipe()
	var stderr bytes.Buffer
	cmd.Stderr = &stderr
	if err := cmd.Start(); err != nil {
		fmt.Fprintf(os.Stderr, "CHECK-BROKEN: cannot start worker: %v\n", err)
		os.Exit(2)
	}
	timer := time.AfterFunc(120*time.Second, func() { cmd.Process.Kill() })
	defer timer.Stop()
	sc := bufio.NewScanner(stdout)
	sc.Buffer(make([]byte, 1<<20), 1<<20)
	lastI, lastC, ended := -1, -1, false
	var worst float64
	for sc.Scan() {
		line := sc.Text()
		switch {
		case strings.HasPrefix(line, "START "):
			fmt.Sscanf(line, "START %d %d", &lastI, &lastC)
		case strings.HasPrefix(line, "DONE "):
			var a allocResult
			json.Unmarshal([]byte(line[5:]), &a)
			c, in := cfgs[a.Cfg], ins[a.Idx]
			r.States.Add(1)
			r.Transitions.Add(1)
			r.Evals.Add(1)
			r.Traces.Add(1)
			r.NontrivialN(1)
			bound := uint64(allocK)*(budgetOf(c)+uint64(len(in))) + allocC0
			ratio := float64(a.Alloc) / float64(bound)
			if ratio > worst {
				worst = ratio
			}
			dc := DecCase{c, hex.EncodeToString(in)}
			if a.Panic != "" {
				r.Report("alloc", dc, []core.Finding{core.F("decode/"+c.Codec+"/panic("+c.Target+"|"+core.Class(a.Panic)+")", "%s input %x: %s", c, in, a.Panic)})
			} else if a.Alloc > bound {
				r.Report("alloc", dc, []core.Finding{core.F("decode/"+c.Codec+"/alloc>bound("+c.Target+")", "%s input %x (%d bytes): allocated %d bytes, bound %d·(budget %d + len) + %d = %d", c, in, len(in), a.Alloc, allocK, budgetOf(c), allocC0, bound)})
			}
			r.Outcome(fmt.Sprintf("hostile:result=%v", a.Result))
		case line == "END":
			ended = true
		}
	}
	cmd.Wait()
	if !ended {
		c, in := cfgs[max(lastC, 0)], ins[max(lastI, 0)]
		cause := "abort"
		if strings.Contains(stderr.String(), "out of memory") || strings.Contains(stderr.String(), "cannot allocate") {
			cause = "oom"
		}
		r.Report("alloc", DecCase{c, hex.EncodeToString(in)}, []core.Finding{core.F("decode/"+c.Codec+"/"+cause+"("+c.Target+")", "%s input %x: the worker died (address-space limit 6 GiB / 120 s watchdog): %s", c, in, short(stderr.String()))})
	}
	r.Set("hostile_length_inputs", len(ins))
	r.Set("alloc_worst_ratio_to_bound", worst)
}

func short(s string) string {
	if len(s) > 300 {
		return s[:300]
	}
	return s
}

// ---- selectors: compile anything, walk what compiles ----

var extremeInts = []int64{math.MinInt64, -1, 0, 1, 1 << 31, math.MaxInt64}

func selectorSpecs(quick bool) []ref.Val {
	var out []ref.Val
	// well-shaped selectors with each integer replaced by each extreme
	for _, s := range trav.Enumerate(trav.QuickAlphabet(), 3) {
		out = append(out, s.Spec())
	}
	// the targeted families of C07 (unions under recursion, uneven edge distances, nested recursion …)
	for _, s := range c07.Families(quick) {
		out = append(out, s.Spec())
	}
	for _, x := range extremeInts {
		for _, y := range extremeInts {
			out = append(out,
				(&trav.Sel{Op: "r", Start: x, End: y, Next: trav.M()}).Spec(),
				trav.All((&trav.Sel{Op: "r", Start: x, End: y, Next: trav.M()})).Spec(),
				trav.Sub(x, y).Spec(), trav.All(trav.Sub(x, y)).Spec(),
				trav.Un(trav.Idx(x, trav.M()), (&trav.Sel{Op: "r", Start: x, End: y, Next: trav.M()})).Spec(),
			)
		}
		out = append(out, trav.Idx(x, trav.M()).Spec(), trav.Rec(x, trav.All(trav.Edge())).Spec(), trav.Rec(x, trav.Un(trav.Edge(), trav.All(trav.M()))).Spec(),
			trav.Rec(x, trav.Edge()).Spec(), trav.Rec(x, trav.All(trav.Rec(x, trav.All(trav.Edge())))).Spec())
	}
	// arbitrary small trees over the selector key alphabet (well-formed or not)
	keys := []string{".", "a", "f", "i", "r", "R", "|", "@", ">", "f>", "^", "$", ":>", "l", "depth", "none", "!", "subset", "[", "]", "~", "as", "&", "/", "zz"}
	leaves := []ref.Val{ref.Map(), ref.List(), ref.Int(1), ref.Int(-1), ref.Str("a"), ref.Null(), ref.Link(ref.LinksFull()[1])}
	var lvl1 []ref.Val
	for _, k := range keys {
		for _, l := range leaves {
			lvl1 = append(lvl1, ref.Map(ref.E(k, l)))
		}
	}
	out = append(out, leaves...)
	out = append(out, lvl1...)
	for _, k := range keys {
		for i, inner := range lvl1 {
			if quick && i%3 != 0 {
				continue
			}
			out = append(out, ref.Map(ref.E(k, inner)), ref.Map(ref.E(k, ref.List(inner))), ref.Map(ref.E(k, ref.Map(ref.E(">", inner)))))
		}
	}
	for _, k1 := range []string{"a", "f", "R", "|", "i", "r"} {
		for _, k2 := range keys {
			for _, k3 := range keys {
				if k2 == k3 {
					continue
				}
				out = append(out, ref.Map(ref.E(k1, ref.Map(ref.E(k2, ref.Map(ref.E(k3, ref.Map())))))),
					ref.Map(ref.E(k1, ref.Map(ref.E(k2, ref.Int(1)), ref.E(k3, ref.Map(ref.E(".", ref.Map())))))))
			}
		}
	}
	return out
}

type SelCase struct {
	Spec  ref.Val `json:"selector_spec"`
	Graph string  `json:"graph,omitempty"`
}

// selGraphSpecs: the graphs every compiled selector is walked over.
func selGraphSpecs() []trav.GraphSpec {
	var out []trav.GraphSpec
	for _, t := range trav.GraphTrees(3, trav.GraphLeaves(true)) {
		out = append(out, trav.GraphSpec{Tree: t})
	}
	deep := ref.List(ref.List(ref.List(ref.Int(1), ref.Str("xyz")), ref.Map(ref.E("a", ref.List(ref.Int(2))))), ref.Bytes("abc"))
	return append(out, trav.GraphSpec{Tree: deep}, trav.GraphSpec{Tree: deep, Cuts: []int{1, 2}})
}

type selWalkFinding struct {
	Graph int    `json:"g"`
	Kind  string `json:"kind"` // panic, nonterm
	Text  string `json:"text,omitempty"`
}

type selResult struct {
	Idx     int              `json:"i"`
	Compile string           `json:"compile"` // ok, rejected, panic:<text>
	Alloc   uint64           `json:"alloc"`
	Walks   int              `json:"walks"`
	Bad     []selWalkFinding `json:"bad,omitempty"`
}

// selector compilation and the walks of what compiles allocate at most this much per specification
// (specifications are < 200 bytes, graphs ≤ 8 nodes; measured worst on the unchanged tree: 85 kB)
const selAllocBound = 4 << 20

// SelectorWorker compiles and walks specifications from..end of the tier's list, one goroutine, under
// an address-space limit, announcing each before it starts: an allocation bomb in the compiler or the
// walker kills this process, not the check, and is attributed to its specification.
func SelectorWorker(tier string, from, stride int) {
	var lim syscall.Rlimit
	lim.Cur, lim.Max = 4<<30, 4<<30
	syscall.Setrlimit(syscall.RLIMIT_AS, &lim)
	runtime.GOMAXPROCS(1)
	specs := selectorSpecs(tier == "quick")
	var graphs []*trav.Built
	for _, g := range selGraphSpecs() {
		graphs = append(graphs, trav.Build(g))
	}
	w := bufio.NewWriter(os.Stdout)
	for i := from; i < len(specs); i += stride {
		fmt.Fprintf(w, "START %d\n", i)
		w.Flush()
		res := selResult{Idx: i}
		var m0, m1 runtime.MemStats
		runtime.ReadMemStats(&m0)
		var sel selector.Selector
		var err error
		pan := core.Guard(func() { sel, err = selector.CompileSelector(ref.Basic(specs[i])) })
		switch {
		case pan != "":
			res.Compile = "panic:" + pan
		case err != nil || sel == nil:
			res.Compile = "rejected"
		default:
			res.Compile = "ok"
			for gi, g := range graphs {
				var werr error
				pan := core.Guard(func() {
					bud := &traversal.Budget{NodeBudget: 100000, LinkBudget: 1000}
					werr = traversal.Progress{Cfg: g.Config(), Budget: bud}.WalkAdv(g.Root, sel, func(traversal.Progress, datamodel.Node, traversal.VisitReason) error { return nil })
				})
				res.Walks++
				if pan != "" {
					res.Bad = append(res.Bad, selWalkFinding{gi, "panic", pan})
				} else if werr != nil && strings.Contains(werr.Error(), "budget") {
					res.Bad = append(res.Bad, selWalkFinding{gi, "nonterm", ""})
				}
			}
		}
		runtime.ReadMemStats(&m1)
		res.Alloc = m1.TotalAlloc - m0.TotalAlloc
		b, _ := json.Marshal(res)
		fmt.Fprintf(w, "DONE %s\n", b)
		w.Flush()
	}
	fmt.Fprintln(w, "END")
	w.Flush()
}

func selectors(r *core.Run, quick bool) {
	tier := "thorough"
	if quick {
		tier = "quick"
	}
	specs := selectorSpecs(quick)
	gspecs := selGraphSpecs()
	const shards = 16
	var worst atomic.Uint64
	core.ParallelFor(shards, func(shard int) {
		next := shard // first index this shard still has to run
		for restarts := 0; next < len(specs) && restarts < 50; restarts++ {
			cmd := exec.Command(os.Args[0], "C10-selector-worker", tier, fmt.Sprint(next), fmt.Sprint(shards))
			stdout, _ := cmd.StdoutPipe()
			var stderr bytes.Buffer
			cmd.Stderr = &stderr
			if err := cmd.Start(); err != nil {
				fmt.Fprintf(os.Stderr, "CHECK-BROKEN: cannot start selector worker: %v\n", err)
				os.Exit(2)
			}
			timer := time.AfterFunc(300*time.Second, func() { cmd.Process.Kill() })
			sc := bufio.NewScanner(stdout)
			sc.Buffer(make([]byte, 4<<20), 4<<20)
			started, ended := -1, false
			for sc.Scan() {
				line := sc.Text()
				switch {
				case strings.HasPrefix(line, "START "):
					fmt.Sscanf(line, "START %d", &started)
				case strings.HasPrefix(line, "DONE "):
					var res selResult
					json.Unmarshal([]byte(line[5:]), &res)
					started = -1
					next = res.Idx + shards
					spec := specs[res.Idx]
					r.States.Add(1)
					r.Transitions.Add(1 + int64(res.Walks))
					r.Traces.Add(int64(res.Walks))
					r.Evals.Add(1)
					for {
						w := worst.Load()
						if res.Alloc <= w || worst.CompareAndSwap(w, res.Alloc) {
							break
						}
					}
					switch {
					case strings.HasPrefix(res.Compile, "panic:"):
						r.Report("selector", SelCase{Spec: spec}, []core.Finding{core.F("selector-compile/panic("+core.Class(res.Compile[6:])+")", "spec %s: %s", spec, res.Compile[6:])})
						r.Outcome("compile:panic")
					case res.Compile == "rejected":
						r.Outcome("compile:rejected")
					default:
						r.Outcome("compile:ok")
						r.NontrivialN(1)
					}
					for _, b := range res.Bad {
						g := gspecs[b.Graph]
						if b.Kind == "panic" {
							r.Report("selector", SelCase{spec, g.String()}, []core.Finding{core.F("selector-walk/panic("+core.Class(b.Text)+")", "spec %s over %s: %s", spec, g, b.Text)})
						} else {
							r.Report("selector", SelCase{spec, g.String()}, []core.Finding{core.F("selector-walk/does-not-terminate", "spec %s over %s: more than 100000 visits of a %d-node graph", spec, g, g.Tree.Size())})
						}
					}
					if res.Alloc > selAllocBound {
						r.Report("selector", SelCase{Spec: spec}, []core.Finding{core.F("selector/alloc>bound", "spec %s: compiling it and walking %d small graphs allocated %d bytes (bound %d)", spec, res.Walks, res.Alloc, selAllocBound)})
					}
				case line == "END":
					ended = true
				}
			}
			cmd.Wait()
			timer.Stop()
			if ended {
				break
			}
			if started < 0 {
				fmt.Fprintf(os.Stderr, "CHECK-BROKEN: selector worker died between cases: %s\n", short(stderr.String()))
				os.Exit(2)
			}
			// the worker died inside specification `started`
			cause := "abort"
			if strings.Contains(stderr.String(), "out of memory") || strings.Contains(stderr.String(), "cannot allocate") {
				cause = "oom"
			}
			r.Report("selector", SelCase{Spec: specs[started]}, []core.Finding{core.F("selector/"+cause, "spec %s: the worker died compiling or walking it (address-space limit 4 GiB / 300 s watchdog): %s", specs[started], short(stderr.String()))})
			r.Outcome("compile:worker-died")
			r.States.Add(1)
			next = started + shards
		}
	})
	r.Set("selector_specs", len(specs))
	r.Set("selector_alloc_worst_bytes", worst.Load())
}

// ---- paths ----

func paths(r *core.Run) {
	alpha := []string{"/", ".", "-", "+", "0", "1", "9", "a", "\x00", "\xc3", "\xa9"}
	var strs []string
	var rec func(cur string, n int)
	rec = func(cur string, n int) {
		strs = append(strs, cur)
		if n == 4 {
			return
		}
		for _, a := range alpha {
			rec(cur+a, n+1)
		}
	}
	rec("", 0)
	strs = append(strs, "9223372036854775807", "9223372036854775808", "-9223372036854775808", "18446744073709551616", "99999999999999999999", "00000000000000000001")
	for _, s := range strs {
		pan := core.Guard(func() {
			p := datamodel.ParsePath(s)
			_ = p.String()
			for _, seg := range p.Segments() {
				seg.Index()
				_ = seg.String()
				seg.Equals(datamodel.PathSegmentOfInt(0))
			}
			seg := datamodel.ParsePathSegment(s)
			seg.Index()
			p.AppendSegment(seg).Parent().Last()
			p.Shift()
			p.Pop()
		})
		r.States.Add(1)
		r.Transitions.Add(1)
		r.Evals.Add(1)
		if pan != "" {
			r.Report("path", map[string]string{"hex": hex.EncodeToString([]byte(s))}, []core.Finding{core.F("path/panic("+core.Class(pan)+")", "%q: %s", s, pan)})
		}
	}
	r.Set("path_strings", len(strs))
	r.Outcome("paths")
}

func Main(r *core.Run) {
	quick := r.Quick()
	cl, jl := 3, 4
	if !quick {
		cl, jl = 4, 5
	}
	r.Rule(fmt.Sprintf("(1) decoders: every string ≤%d over a %d-byte CBOR structural alphabet under %d configurations (MaxDepth {default,1,2,3} × AllocationBudget {default,1,8,64} × strict/relaxed; prealloc cap, links off, stream mode; cbor codec; kind-specific targets) and every string ≤%d over a %d-byte JSON alphabet under %d configurations, raw on empty/1-byte/70 kB inputs; depth bombs of MaxDepth±1 through a depth-observing assembler proxy; every head of major types 2–5 claiming {24, 2^16, 2^31, 2^32, 2^63-1, 2^64-1} with 0–2 payload bytes, nested 1–4 deep in lists and maps, in a single-goroutine worker under a 6 GiB address-space limit measuring TotalAlloc against %d·(budget+len)+%d; (2) selector compilation of every well-shaped selector ≤3 clauses, every extreme-integer substitution, and thousands of arbitrary small trees over the selector key alphabet; everything that compiles is walked over every graph ≤3 nodes and two deeper ones; (3) ParsePath/Segment on every string ≤4 over an 11-symbol alphabet and 19–20 digit numerals. Oracle: result or error, never a panic; depth ≤ MaxDepth; allocation within the bound; walks terminate. Non-trivial: every case (distinct by construction).", cl, len(cborAlphabet), len(cborConfigs(quick)), jl, len(jsonAlphabet), len(jsonConfigs()), allocK, allocC0))
	r.Assume("generated assemblers as decode targets are exercised by C09/C13's dag-cbor route (every mutation of every conforming encoding through the generated representation builders); the reflection binding's builders are decode targets here")
	sweep(r, cborAlphabet, cl, cborConfigs(quick), "cbor")
	sweep(r, jsonAlphabet, jl, jsonConfigs(), "json")
	depthBombs(r)
	hostile(r)
	typedTargets(r)
	selectors(r, quick)
	paths(r)
	for _, in := range [][]byte{nil, {0}, bytes.Repeat([]byte{0xff}, 70000)} {
		fs, _ := CheckDecode(Cfg{Codec: "raw", Target: "any"}, in)
		r.Report("decode", DecCase{Cfg{Codec: "raw"}, hex.EncodeToString(trunc(in))}, fs)
		fs, _ = CheckDecode(Cfg{Codec: "raw", Target: "map"}, in)
		r.Report("decode", DecCase{Cfg{Codec: "raw", Target: "map"}, hex.EncodeToString(trunc(in))}, fs)
	}
	r.Sample(DecCase{Cfg{Codec: "dag-cbor", MaxDepth: 2, Budget: 8, Target: "any"}, "9b7fffffffffffffff00"})
	r.Sample(SelCase{Spec: (&trav.Sel{Op: "r", Start: 0, End: math.MaxInt64, Next: trav.M()}).Spec()})
}

func Replay(r *core.Run, mode string, raw json.RawMessage) {
	switch mode {
	case "decode", "alloc":
		var c DecCase
		json.Unmarshal(raw, &c)
		in, _ := hex.DecodeString(c.Hex)
		fs, _ := CheckDecode(c.Cfg, in)
		r.Report("decode", c, fs)
	case "decode-typed":
		var c TypedDecCase
		json.Unmarshal(raw, &c)
		replayTyped(r, c)
	case "selector":
		selectors(r, false)
	case "path":
		paths(r)
	}
}

var _ = io.EOF
