package c10

import (
	"bytes"
	"encoding/hex"
	"encoding/json"
	"fmt"
	"os"
	"os/exec"
	"path/filepath"

	"github.com/ipld/go-ipld-prime/codec/cbor"
	"github.com/ipld/go-ipld-prime/codec/dagcbor"
	"github.com/ipld/go-ipld-prime/codec/dagjson"
	cjson "github.com/ipld/go-ipld-prime/codec/json"

	"verif/mc/core"
	"verif/mc/props/c09"
	"verif/mc/ref"
	"verif/mc/rs"
	"verif/mc/typed"
)

// Typed assemblers as decode targets: every input tree of C09's space (conforming trees of every
// value of every family root type at both levels, and every local mutation of them), encoded as
// DAG-CBOR and as DAG-JSON, and every proper prefix of the conforming encodings, decoded by all four
// structured decoders into the reflection binding's type-level and representation-level builders.
// Oracle: result or error, never a panic; a result must be a readable node.

type TypedDecCase struct {
	Schema string `json:"schema"`
	Type   string `json:"type"`
	Repr   bool   `json:"representation_level_builder"`
	Codec  string `json:"codec"`
	Hex    string `json:"input_hex"`
	Mut    string `json:"input_is"`
}

func CheckTypedDecode(eng typed.Engine, s *rs.Schema, c TypedDecCase) []core.Finding {
	in, _ := hex.DecodeString(c.Hex)
	var err error
	pan := core.Guard(func() {
		nb := eng.Proto(s, c.Type, c.Repr).NewBuilder()
		rd := bytes.NewReader(in)
		switch c.Codec {
		case "dag-cbor":
			err = dagcbor.Decode(nb, rd)
		case "cbor":
			err = cbor.Decode(nb, rd)
		case "dag-json":
			err = dagjson.Decode(nb, rd)
		case "json":
			err = cjson.Decode(nb, rd)
		}
		if err == nil {
			if v := ref.ReadTyped(nb.Build()); v.K == ref.KString && len(v.S) > 7 && v.S[:7] == "\x00PANIC:" {
				panic("reading the decoded node: " + v.S[7:])
			}
		}
	})
	if pan == "" {
		return nil
	}
	lvl := map[bool]string{false: "type", true: "repr"}[c.Repr]
	return []core.Finding{core.F(fmt.Sprintf("decode-typed/%s/%s/%s/panic(%s|%s)", eng.Name(), c.Codec, lvl, rs.Strategy(s.T(c.Type)), core.Class(pan)),
		"%s %s.%s %s-level builder, %s input %x (%s): %s", eng.Name(), s.Name, c.Type, lvl, c.Codec, trunc(in), c.Mut, pan)}
}

func typedTargets(r *core.Run) {
	TypedTargets(r, typed.NewBindEngine())
	// generated builders: the same inputs, in the binary that links the packages generated from the
	// working tree (a worker process; its counters and findings are merged into this run)
	bin := filepath.Join(core.VerifDir, ".work", "bin", "mctyped")
	cmd := exec.Command(bin, "C10-generated-worker", r.Tier)
	var out, errb bytes.Buffer
	cmd.Stdout, cmd.Stderr = &out, &errb
	if err := cmd.Run(); err != nil {
		fmt.Fprintf(os.Stderr, "CHECK-BROKEN: generated-code worker of C10 failed: %v: %s\n", err, errb.String())
		os.Exit(2)
	}
	var p core.Partial
	if err := json.Unmarshal(out.Bytes(), &p); err != nil {
		fmt.Fprintf(os.Stderr, "CHECK-BROKEN: generated-code worker of C10: unreadable result: %v\n", err)
		os.Exit(2)
	}
	r.ImportPartial(p, "-generated")
	r.Set("typed_targets_generated", map[string]any{"worker": "mctyped C10-generated-worker", "decodes": p.Transitions})
}

// TypedTargets runs the typed decode targets of one engine.
func TypedTargets(r *core.Run, eng typed.Engine) {
	type job struct {
		s *rs.Schema
		t string
	}
	var jobs []job
	for _, s := range rs.Families(r.Quick()) {
		if eng.Proto(s, "Int", false) == nil {
			continue
		}
		for _, tn := range s.Roots {
			jobs = append(jobs, job{s, tn})
		}
	}
	core.ParallelFor(len(jobs), func(i int) {
		j := jobs[i]
		var lc core.LocalCounters
		seen := map[string]bool{}
		run := func(codec string, in []byte, mut string) {
			k := codec + string(in)
			if seen[k] {
				return
			}
			seen[k] = true
			for _, repr := range []bool{false, true} {
				c := TypedDecCase{j.s.Name, j.t, repr, codec, hex.EncodeToString(in), mut}
				fs := CheckTypedDecode(eng, j.s, c)
				lc.States++
				lc.Transitions++
				lc.Evals++
				lc.Traces++
				r.Report("decode-typed", c, fs)
			}
		}
		for _, tr := range c09.InputTrees(j.s, j.s.T(j.t), r.Quick()) {
			if enc, err := ref.CborEncodeRaw(tr.V); err == nil {
				run("dag-cbor", enc, tr.Mut)
				run("cbor", enc, tr.Mut)
				if tr.Mut == "conforming" {
					for n := 0; n < len(enc); n++ {
						run("dag-cbor", enc[:n], "prefix of a conforming encoding")
					}
				}
			}
			var buf bytes.Buffer
			if core.Guard(func() {
				if err := dagjson.Encode(ref.Basic(tr.V), &buf); err != nil {
					buf.Reset()
				}
			}) == "" && buf.Len() > 0 {
				run("dag-json", buf.Bytes(), tr.Mut)
				run("json", buf.Bytes(), tr.Mut)
				if tr.Mut == "conforming" {
					for n := 0; n < buf.Len(); n++ {
						run("dag-json", buf.Bytes()[:n], "prefix of a conforming encoding")
					}
				}
			}
		}
		r.Merge(&lc)
		r.NontrivialN(lc.Evals)
	})
	r.Outcome("typed-targets:" + eng.Name())
	r.Set("typed_targets_"+eng.Name(), map[string]any{"engine": eng.Name(), "root_types": len(jobs), "inputs": "C09's input trees (conforming + every local mutation) as dag-cbor and dag-json, plus every proper prefix of the conforming encodings", "decoders": []string{"dag-cbor", "cbor", "dag-json", "json"}, "builders": []string{"type-level", "representation-level"}})
}

func replayTyped(r *core.Run, c TypedDecCase) { ReplayTyped(r, typed.NewBindEngine(), c) }

func ReplayTyped(r *core.Run, eng typed.Engine, c TypedDecCase) {
	for _, s := range rs.Families(false) {
		if s.Name == c.Schema {
			r.Report("decode-typed", c, CheckTypedDecode(eng, s, c))
		}
	}
}
