// Package c08: type-level and representation views of a typed node obey the schema's strategy.
package c08

import (
	"bytes"
	"encoding/json"
	"fmt"
	"sort"
	"strings"

	"github.com/ipld/go-ipld-prime/codec/dagcbor"
	"github.com/ipld/go-ipld-prime/codec/dagjson"
	"github.com/ipld/go-ipld-prime/datamodel"
	"github.com/ipld/go-ipld-prime/node/basicnode"
	"github.com/ipld/go-ipld-prime/schema"

	"verif/mc/core"
	"verif/mc/ref"
	"verif/mc/rs"
	"verif/mc/typed"
)

type Case struct {
	Engine string  `json:"engine"`
	Schema string  `json:"schema"`
	Type   string  `json:"type"`
	Value  ref.Val `json:"typed_value"`
}

func strategy(t *rs.Type) string {
	switch t.Kind {
	case rs.TStruct:
		return "struct/" + t.SRepr
	case rs.TUnion:
		return "union/" + t.URepr
	case rs.TEnum:
		return "enum/" + t.ERepr
	case rs.TMap:
		return "map"
	case rs.TList:
		return "list"
	}
	return "scalar"
}

// observeTyped reads a typed node's two views.
func observeTyped(n datamodel.Node) (tv, rv ref.Val, incs []ref.Inc, pan string) {
	pan = core.Guard(func() {
		var i1, i2 []ref.Inc
		tv, i1 = ref.ObserveTyped(n)
		tn, ok := n.(schema.TypedNode)
		if !ok {
			incs = append(i1, ref.Inc{Cause: "not-a-typed-node", Detail: fmt.Sprintf("%T", n)})
			return
		}
		rv, i2 = ref.ObserveTyped(tn.Representation())
		for i := range i1 {
			i1[i].Cause = "typeview:" + i1[i].Cause
		}
		for i := range i2 {
			i2[i].Cause = "reprview:" + i2[i].Cause
		}
		incs = append(i1, i2...)
	})
	return
}

var routes = []string{"type-builder", "repr-builder", "dagcbor-decode", "dagjson-decode"}

// buildRoute constructs the typed value through one route.
func buildRoute(eng typed.Engine, s *rs.Schema, t *rs.Type, v, repr ref.Val, route string) (n datamodel.Node, err error, pan string) {
	pan = core.Guard(func() {
		switch route {
		case "type-builder":
			nb := eng.Proto(s, t.Name, false).NewBuilder()
			if err = ref.Assign(nb, s.FeedType(t, v)); err == nil {
				n = nb.Build()
			}
		case "repr-builder":
			nb := eng.Proto(s, t.Name, true).NewBuilder()
			if err = ref.Assign(nb, repr); err == nil {
				n = nb.Build()
			}
		case "dagcbor-decode":
			enc, e := ref.CborEncode(repr)
			if e != nil {
				err = e
				return
			}
			nb := eng.Proto(s, t.Name, true).NewBuilder()
			if err = dagcbor.Decode(nb, bytes.NewReader(enc)); err == nil {
				n = nb.Build()
			}
		case "dagjson-decode":
			var buf bytes.Buffer
			if err = dagjson.Encode(ref.Basic(repr), &buf); err != nil {
				return
			}
			nb := eng.Proto(s, t.Name, true).NewBuilder()
			if err = dagjson.Decode(nb, bytes.NewReader(buf.Bytes())); err == nil {
				n = nb.Build()
			}
		}
	})
	return
}

func Check(eng typed.Engine, s *rs.Schema, c Case) (fs []core.Finding, outcome string) {
	t := s.T(c.Type)
	v := c.Value
	repr, ok := s.Repr(t, v)
	if !ok {
		return nil, "no-representation"
	}
	site := eng.Name() + "/" + strategy(t)
	where := fmt.Sprintf("%s %s.%s value %s (repr %s)", eng.Name(), s.Name, t.Name, v, repr)
	wantBytes, _ := ref.CborEncode(repr)
	var nodes []datamodel.Node
	for _, route := range routes {
		if route == "type-builder" && s.ComplexKeys(t) {
			continue // how a struct key is supplied at type level is outside the enumerated space (rs.ComplexKeys)
		}
		n, err, pan := buildRoute(eng, s, t, v, repr, route)
		if pan != "" {
			fs = append(fs, core.F(site+"/"+route+"/panic("+core.Class(pan)+")", "%s: %s", where, pan))
			continue
		}
		if err != nil {
			fs = append(fs, core.F(site+"/"+route+"/rejects-own-value("+rejectClass(err.Error())+")", "%s: %v", where, err))
			continue
		}
		tv, rv, incs, pan := observeTyped(n)
		if pan != "" {
			fs = append(fs, core.F(site+"/"+route+"/read-panic("+core.Class(pan)+")", "%s: %s", where, pan))
			continue
		}
		for _, inc := range incs {
			fs = append(fs, core.F(site+"/"+inc.Cause, "%s via %s: %s", where, route, inc.Detail))
		}
		wantT, wantR := v, repr
		if route == "dagcbor-decode" || route == "dagjson-decode" {
			// typed-map order is canonicalised by the codec, as the property allows
			less := ref.LessLenFirst
			if route == "dagjson-decode" {
				less = ref.LessBytewise
			}
			wantT, wantR = sortTypedMaps(s, t, v, less), ref.Val{}
			wantR, _ = s.Repr(t, wantT)
		}
		if !ref.Equal(tv, wantT) {
			fs = append(fs, core.F(site+"/"+route+"/typeview-differs", "%s: type-level view reads %s", where, tv))
		}
		repr := wantR
		if !ref.Equal(rv, repr) {
			fs = append(fs, core.F(site+"/"+route+"/repr-differs", "%s: representation reads %s", where, rv))
		}
		// encode the representation: reference canonical bytes; decoding them back reproduces bytes and value
		var buf bytes.Buffer
		var eerr error
		if pan := core.Guard(func() { eerr = dagcbor.Encode(n.(schema.TypedNode).Representation(), &buf) }); pan != "" || eerr != nil {
			fs = append(fs, core.F(site+"/"+route+"/repr-encode-fails", "%s: panic=%q err=%v", where, pan, eerr))
		} else if !bytes.Equal(buf.Bytes(), wantBytes) {
			fs = append(fs, core.F(site+"/"+route+"/reencode-differs", "%s: encoded %x, reference %x", where, buf.Bytes(), wantBytes))
		}
		nodes = append(nodes, n)
	}
	// across implementations: the views are equal to, and copy into, a generic node holding the same value
	if len(nodes) > 0 {
		tv := v
		if s.ComplexKeys(t) {
			tv = ref.Absent() // the type-level view has struct-kinded keys: no generic node holds the same value
		}
		fs = append(fs, crossImpl(site, where, nodes[0], tv, repr)...)
	}
	// the routes give the same node (typed maps compared up to entry order: codecs canonicalise it)
	if hasUnsortedTypedMap(s, t, v) {
		nodes = nil
	}
	for i := 1; i < len(nodes); i++ {
		var eqT, eqR bool
		pan := core.Guard(func() {
			eqT = datamodel.DeepEqual(nodes[0], nodes[i])
			eqR = datamodel.DeepEqual(nodes[0].(schema.TypedNode).Representation(), nodes[i].(schema.TypedNode).Representation())
		})
		if pan != "" || !eqT || !eqR {
			fs = append(fs, core.F(site+"/routes-differ", "%s: DeepEqual(type)=%v DeepEqual(repr)=%v panic=%q", where, eqT, eqR, pan))
		}
	}
	if len(fs) > 0 {
		return mergeRoutes(fs), "bad"
	}
	return nil, "ok:" + strategy(t)
}

func Run(r *core.Run, engines []typed.Engine, fams []*rs.Schema) {
	type job struct {
		eng typed.Engine
		s   *rs.Schema
		t   string
	}
	var jobs []job
	for _, s := range fams {
		for _, eng := range engines {
			if eng.Proto(s, "Int", false) == nil {
				continue
			}
			for _, tn := range s.Roots {
				jobs = append(jobs, job{eng, s, tn})
			}
		}
	}
	core.ParallelFor(len(jobs), func(i int) {
		j := jobs[i]
		t := j.s.T(j.t)
		vals := j.s.Values(t, 0)
		var lc core.LocalCounters
		for _, v := range vals {
			c := Case{j.eng.Name(), j.s.Name, j.t, v}
			fs, outcome := Check(j.eng, j.s, c)
			lc.States++
			lc.Transitions += int64(len(routes))
			lc.Traces += int64(len(routes))
			lc.Evals++
			r.Outcome(j.eng.Name() + "/" + outcome)
			r.Report("value", c, fs)
		}
		r.Merge(&lc)
		r.NontrivialN(int64(len(vals)))
		r.Add("types", 1)
	})
	r.Sample(Case{"bindnode", "fam01", "SM05", fams[0].Values(fams[0].T("SM05"), 0)[2]})
	every := 4
	if !r.Quick() {
		every = 1
	}
	RunRoutes(r, engines, fams, every)
}

func Replay(r *core.Run, engines []typed.Engine, fams []*rs.Schema, raw json.RawMessage) {
	var c Case
	if err := json.Unmarshal(raw, &c); err != nil {
		panic(err)
	}
	for _, s := range fams {
		if s.Name != c.Schema {
			continue
		}
		for _, e := range engines {
			if e.Name() == c.Engine {
				fs, _ := Check(e, s, c)
				r.Report("value", c, fs)
				fs2, _ := CheckRoutes(e, s, c)
				r.Report("routes", c, fs2)
			}
		}
	}
}

// sortTypedMaps orders the entries of every typed map inside v (struct field order is fixed by the type).
// SortTypedMaps: the typed value with every typed map in the order a codec writes it.
func SortTypedMaps(s *rs.Schema, t *rs.Type, v ref.Val, less func(a, b string) bool) ref.Val {
	return sortTypedMaps(s, t, v, less)
}

func sortTypedMaps(s *rs.Schema, t *rs.Type, v ref.Val, less func(a, b string) bool) ref.Val {
	if v.K == ref.KNull || v.K == ref.KAbsent {
		return v
	}
	switch t.Kind {
	case rs.TStruct:
		o := ref.Map()
		for i, f := range t.Fields {
			o.M = append(o.M, ref.Entry{K: f.Name, V: sortTypedMaps(s, s.T(f.Type), v.M[i].V, less)})
		}
		return o
	case rs.TUnion:
		return ref.Map(ref.E(v.M[0].K, sortTypedMaps(s, s.T(v.M[0].K), v.M[0].V, less)))
	case rs.TList:
		o := ref.List()
		for _, c := range v.L {
			o.L = append(o.L, sortTypedMaps(s, s.T(t.ValType), c, less))
		}
		return o
	case rs.TMap:
		o := ref.Map()
		for _, e := range v.M {
			o.M = append(o.M, ref.Entry{K: e.K, V: sortTypedMaps(s, s.T(t.ValType), e.V, less)})
		}
		// the codec orders the entries by the key as it is written: the key's representation string
		rk := func(k string) string {
			if t.KeyType != "" && t.KeyType != "String" && s.T(t.KeyType).Kind == rs.TEnum {
				if r, ok := s.Repr(s.T(t.KeyType), ref.Str(k)); ok && r.K == ref.KString {
					return r.S
				}
			}
			return k
		}
		sort.SliceStable(o.M, func(i, j int) bool { return less(rk(o.M[i].K), rk(o.M[j].K)) })
		return o
	case rs.TAny:
		return ref.SortMaps(v, less)
	}
	return v
}

func hasUnsortedTypedMap(s *rs.Schema, t *rs.Type, v ref.Val) bool {
	// (in the order of both codecs: dag-cbor sorts length-first, dag-json bytewise)
	return !ref.Equal(sortTypedMaps(s, t, v, ref.LessLenFirst), v) || !ref.Equal(sortTypedMaps(s, t, v, ref.LessBytewise), v)
}

func rejectClass(msg string) string {
	switch {
	case strings.Contains(msg, "union structure constraints") && strings.Contains(msg, "AssignNull"):
		return "kinded-union-refuses-null-in-nullable-position"
	case strings.Contains(msg, "typeinfomissing"):
		return "stringprefix-without-delimiter-not-matched"
	}
	c := core.Class(msg)
	if len(c) > 48 {
		c = c[:48]
	}
	return c
}

// mergeRoutes turns per-route findings with otherwise equal signatures into one finding naming the route set.
func mergeRoutes(fs []core.Finding) []core.Finding {
	type agg struct {
		f      core.Finding
		routes []string
	}
	m := map[string]*agg{}
	var order []string
	for _, f := range fs {
		key, route := f.Sig, ""
		for _, r := range routes {
			if strings.Contains(f.Sig, "/"+r+"/") {
				key, route = strings.Replace(f.Sig, "/"+r+"/", "/{route}/", 1), r
			}
		}
		a := m[key]
		if a == nil {
			a = &agg{f: f}
			m[key] = a
			order = append(order, key)
		}
		if route != "" {
			a.routes = append(a.routes, route)
		}
	}
	var out []core.Finding
	for _, k := range order {
		a := m[k]
		a.f.Sig = strings.Replace(k, "{route}", strings.Join(a.routes, "+"), 1)
		out = append(out, a.f)
	}
	return out
}

// CheckRoutes: the typed value built through every single deviation from the default way of making
// the assembler calls (AssignNode of prebuilt basicnode / kind-specific / foreign nodes for scalars and
// containers, keys through AssembleKey+AssignString / AssignNode, size hints), at both levels.
func CheckRoutes(eng typed.Engine, s *rs.Schema, c Case) (fs []core.Finding, runs int) {
	t := s.T(c.Type)
	v := c.Value
	repr, ok := s.Repr(t, v)
	if !ok {
		return nil, 0
	}
	site := eng.Name() + "/" + strategy(t)
	for _, lvl := range []string{"type", "repr"} {
		if lvl == "type" && s.ComplexKeys(t) {
			continue
		}
		tree := s.FeedType(t, v)
		if lvl == "repr" {
			tree = repr
		}
		opts := ref.RouteOptionsWithDonor(tree)
		// the donor: the same value built by the default route; its sub-nodes are assigned by route 10
		var donor datamodel.Node
		core.Guard(func() {
			if d, err := ref.BuildRouted(eng.Proto(s, t.Name, lvl == "repr"), tree, nil, false); err == nil && d != nil {
				donor = d
				if tn, ok := d.(schema.TypedNode); ok && lvl == "repr" {
					donor = tn.Representation()
				}
			}
		})
		for pos, alts := range opts {
			for _, a := range alts {
				routes := ref.Routes{pos: a}
				var n datamodel.Node
				var err error
				pan := core.Guard(func() {
					n, err = ref.BuildRoutedDonor(eng.Proto(s, t.Name, lvl == "repr"), tree, routes, donor)
				})
				runs++
				rc := fmt.Sprintf("%s-level route %d@%d", lvl, a, pos)
				where := fmt.Sprintf("%s %s.%s value %s, %s over tree %s", eng.Name(), s.Name, t.Name, v, rc, tree)
				cls := fmt.Sprintf("%s:%s", lvl, routeName(tree, pos, a))
				if pan != "" || err != nil && strings.HasPrefix(err.Error(), "panic") {
					fs = append(fs, core.F(site+"/route/panic("+cls+")", "%s: %s %v", where, pan, err))
					continue
				}
				if err != nil {
					// the route is not part of the signature: the same refusal through another way of
					// making the calls is the same finding (the route is in the detail and the replay)
					fs = append(fs, core.F(site+"/route/rejects-own-value("+lvl+"|"+rejectClass(err.Error())+")", "%s: %v", where, err))
					continue
				}
				tv, rv, incs, pan := observeTyped(n)
				if pan != "" {
					fs = append(fs, core.F(site+"/route/read-panic("+cls+")", "%s: %s", where, pan))
					continue
				}
				for _, inc := range incs {
					fs = append(fs, core.F(site+"/route/"+inc.Cause+"("+cls+")", "%s: %s", where, inc.Detail))
				}
				if !ref.Equal(tv, v) {
					fs = append(fs, core.F(site+"/route/typeview-differs("+cls+")", "%s: type-level view reads %s", where, tv))
				}
				if !ref.Equal(rv, repr) {
					fs = append(fs, core.F(site+"/route/repr-differs("+cls+")", "%s: representation reads %s", where, rv))
				}
			}
		}
	}
	return fs, runs
}

func routeName(tree ref.Val, pos, a int) string {
	// kind of the node at preorder position pos
	idx := 0
	kind := "scalar"
	var rec func(v ref.Val)
	rec = func(v ref.Val) {
		if idx == pos {
			if v.K == ref.KMap {
				kind = "map"
			} else if v.K == ref.KList {
				kind = "list"
			}
		}
		idx++
		for _, c := range v.L {
			rec(c)
		}
		for _, e := range v.M {
			rec(e.V)
		}
	}
	rec(tree)
	names := map[int]string{10: "AssignNode(own)", 1: "AssignNode(basic)", 2: "AssignNode(foreign)", 3: "hint-1", 4: "hint0", 5: "hint+2", 6: "AssignNode(basic-kind)", 7: "AssembleKey.AssignString", 8: "AssembleKey.AssignNode(basic)", 9: "AssembleKey.AssignNode(foreign)"}
	return kind + ":" + names[a]
}

// RunRoutes runs CheckRoutes over the families for the given engines.
func RunRoutes(r *core.Run, engines []typed.Engine, fams []*rs.Schema, every int) {
	RunRoutesOn(r, engines, fams, every, func(s *rs.Schema) []string { return s.Roots })
}

// RunRoutesOn is RunRoutes over the types roots(s) names, used as builder roots.
func RunRoutesOn(r *core.Run, engines []typed.Engine, fams []*rs.Schema, every int, roots func(*rs.Schema) []string) {
	type job struct {
		eng typed.Engine
		s   *rs.Schema
		t   string
	}
	var jobs []job
	for _, s := range fams {
		for _, eng := range engines {
			if eng.Proto(s, "Int", false) == nil {
				continue
			}
			for _, tn := range roots(s) {
				jobs = append(jobs, job{eng, s, tn})
			}
		}
	}
	core.ParallelFor(len(jobs), func(i int) {
		j := jobs[i]
		vals := j.s.Values(j.s.T(j.t), 0)
		var lc core.LocalCounters
		for vi, v := range vals {
			if every > 1 && vi%every != 0 && vi != len(vals)-1 {
				continue
			}
			c := Case{j.eng.Name(), j.s.Name, j.t, v}
			fs, runs := CheckRoutes(j.eng, j.s, c)
			// builder reuse: the value, Reset, then its neighbour in V(T) with the same builder
			rfs, rruns := CheckReuse(j.eng, j.s, j.s.T(j.t), v, vals[(vi+1)%len(vals)])
			fs, runs = append(fs, rfs...), runs+rruns
			lc.States++
			lc.Transitions += int64(runs)
			lc.Traces += int64(runs)
			lc.Evals += int64(runs)
			r.NontrivialN(int64(runs))
			r.Outcome(j.eng.Name() + "/routes")
			r.Report("routes", c, fs)
		}
		r.Merge(&lc)
	})
}

func holdsOnlyGenericValues(v ref.Val) bool {
	switch v.K {
	case ref.KAbsent, ref.KUint:
		return false
	case ref.KFloat:
		return v.F == v.F // NaN is outside DeepEqual's domain
	}
	for _, c := range v.L {
		if !holdsOnlyGenericValues(c) {
			return false
		}
	}
	for _, e := range v.M {
		if !holdsOnlyGenericValues(e.V) {
			return false
		}
	}
	return true
}

// crossImpl: DeepEqual and Copy between a typed node's views and basicnode nodes of the same abstract
// value agree with equality of the abstract values (C01's clause, on the typed implementations).
func crossImpl(site, where string, n datamodel.Node, v, repr ref.Val) (fs []core.Finding) {
	views := []struct {
		name string
		node datamodel.Node
		val  ref.Val
	}{{"type", n, v}, {"repr", n.(schema.TypedNode).Representation(), repr}}
	for _, vw := range views {
		if !holdsOnlyGenericValues(vw.val) {
			continue
		}
		var eq1, eq2, neq bool
		var copied ref.Val
		var cerr error
		pan := core.Guard(func() {
			b := ref.Basic(vw.val)
			eq1, eq2 = datamodel.DeepEqual(vw.node, b), datamodel.DeepEqual(b, vw.node)
			// a generic node that differs in one place (one more list element / map entry, or another scalar)
			neq = datamodel.DeepEqual(vw.node, ref.Basic(perturb(vw.val))) || datamodel.DeepEqual(ref.Basic(perturb(vw.val)), vw.node)
			nb := basicnode.Prototype.Any.NewBuilder()
			cerr = datamodel.Copy(vw.node, nb)
			if cerr == nil {
				copied, _ = ref.Read1(nb.Build())
			}
		})
		switch {
		case pan != "":
			fs = append(fs, core.F(site+"/cross-impl/panic("+vw.name+"|"+core.Class(pan)+")", "%s: DeepEqual/Copy against a basicnode node of the %s-level value: %s", where, vw.name, pan))
		case !eq1 || !eq2:
			fs = append(fs, core.F(site+"/cross-impl/deepequal-false-on-equal-values("+vw.name+")", "%s: DeepEqual(typed %s view, basicnode %s) = %v, reversed = %v", where, vw.name, vw.val, eq1, eq2))
		case neq:
			fs = append(fs, core.F(site+"/cross-impl/deepequal-true-on-different-values("+vw.name+")", "%s: DeepEqual(typed %s view, basicnode %s) is true", where, vw.name, perturb(vw.val)))
		case cerr != nil:
			fs = append(fs, core.F(site+"/cross-impl/copy-error("+vw.name+")", "%s: Copy of the %s view into a basicnode builder: %v", where, vw.name, cerr))
		case !ref.Equal(copied, vw.val):
			fs = append(fs, core.F(site+"/cross-impl/copy-differs("+vw.name+")", "%s: Copy of the %s view reads %s, want %s", where, vw.name, copied, vw.val))
		}
	}
	return
}

// perturb returns a value differing from v in exactly one place (the last leaf, or one more element).
func perturb(v ref.Val) ref.Val {
	switch v.K {
	case ref.KList:
		o := ref.List(v.L...)
		if len(o.L) == 0 {
			o.L = append(o.L, ref.Null())
			return o
		}
		o.L = append([]ref.Val(nil), v.L...)
		o.L[len(o.L)-1] = perturb(o.L[len(o.L)-1])
		return o
	case ref.KMap:
		o := ref.Map()
		o.M = append(o.M, v.M...)
		if len(o.M) == 0 {
			o.M = append(o.M, ref.E("zz", ref.Null()))
			return o
		}
		last := o.M[len(o.M)-1]
		o.M[len(o.M)-1] = ref.Entry{K: last.K, V: perturb(last.V)}
		return o
	case ref.KNull:
		return ref.Bool(false)
	case ref.KBool:
		return ref.Bool(!v.B)
	case ref.KInt:
		return ref.Int(v.I ^ 1)
	case ref.KFloat:
		return ref.Float(v.F + 1)
	case ref.KString:
		return ref.Str(v.S + "x")
	case ref.KBytes:
		return ref.Bytes(v.S + "x")
	case ref.KLink:
		return ref.Null()
	}
	return ref.Null()
}

// CheckReuse: one builder makes value a, is Reset, and makes value b. The first node must still read
// as a afterwards (it is finished: C11's clause, on builders of the typed engines), and the second as b.
// An engine whose Reset is not implemented (it says so by panicking with a TODO) is left out.
func CheckReuse(eng typed.Engine, s *rs.Schema, t *rs.Type, a, b ref.Val) (fs []core.Finding, runs int) {
	site := eng.Name() + "/" + strategy(t)
	for _, lvl := range []string{"type", "repr"} {
		if lvl == "type" && s.ComplexKeys(t) {
			continue
		}
		feed := func(v ref.Val) ref.Val {
			if lvl == "repr" {
				r, _ := s.Repr(t, v)
				return r
			}
			return s.FeedType(t, v)
		}
		if _, ok := s.Repr(t, a); !ok {
			continue
		}
		if _, ok := s.Repr(t, b); !ok {
			continue
		}
		var n1, n2 datamodel.Node
		var e1, e2 error
		var before ref.Val
		unimplemented := false
		pan := core.Guard(func() {
			nb := eng.Proto(s, t.Name, lvl == "repr").NewBuilder()
			if e1 = ref.Assign(nb, feed(a)); e1 != nil {
				return
			}
			n1 = nb.Build()
			before = bothViewsOf(n1)
			if p := core.Guard(func() { nb.Reset() }); p != "" {
				if strings.Contains(p, "TODO") {
					unimplemented = true
					return
				}
				panic(p)
			}
			if e2 = ref.Assign(nb, feed(b)); e2 != nil {
				return
			}
			n2 = nb.Build()
		})
		runs++
		where := fmt.Sprintf("%s %s.%s %s-level builder: value %s, Reset, value %s", eng.Name(), s.Name, t.Name, lvl, a, b)
		switch {
		case unimplemented:
			continue
		case pan != "":
			fs = append(fs, core.F(site+"/reuse/panic("+lvl+"|"+core.Class(pan)+")", "%s: %s", where, pan))
		case e1 != nil:
			// rejecting its own value is the route check's finding
		case e2 != nil:
			var fresh error
			core.Guard(func() { fresh = ref.Assign(eng.Proto(s, t.Name, lvl == "repr").NewBuilder(), feed(b)) })
			if fresh != nil {
				continue // a fresh builder refuses the value too: the route check's finding, not reuse
			}
			fs = append(fs, core.F(site+"/reuse/second-value-rejected("+lvl+"|"+rejectClass(e2.Error())+")", "%s: %v", where, e2))
		default:
			if after := bothViewsOf(n1); !ref.Equal(after, before) {
				fs = append(fs, core.F(site+"/reuse/first-node-changed("+lvl+")", "%s: the first node read %s, after the builder was reused %s", where, before, after))
			}
			want, _ := s.Repr(t, b)
			if got := ref.ReadTyped(n2.(schema.TypedNode).Representation()); !ref.Equal(got, want) && !hasUnsortedTypedMap(s, t, b) {
				fs = append(fs, core.F(site+"/reuse/second-node-differs("+lvl+")", "%s: the second node's representation reads %s, want %s", where, got, want))
			}
		}
	}
	return
}

func bothViewsOf(n datamodel.Node) ref.Val {
	v := ref.ReadTyped(n)
	if tn, ok := n.(schema.TypedNode); ok {
		return ref.List(v, ref.ReadTyped(tn.Representation()))
	}
	return ref.List(v)
}
