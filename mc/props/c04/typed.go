package c04

import (
	"bytes"
	"fmt"
	"math"

	"github.com/ipld/go-ipld-prime/codec/dagjson"
	"github.com/ipld/go-ipld-prime/datamodel"
	"github.com/ipld/go-ipld-prime/schema"

	"verif/mc/core"
	"verif/mc/props/c08"
	"verif/mc/ref"
	"verif/mc/rs"
	"verif/mc/typed"
)

// Typed nodes as one more node implementation able to hold a value: every value of every family root
// type, held by the reflection binding, is written as DAG-JSON through its representation (the text
// must be the text of the generic node holding the same representation), decoded back into the
// binding's representation builder (both views must read as the value, typed maps in codec order),
// and written again (same text).

type TypedCase struct {
	Schema string  `json:"schema"`
	Type   string  `json:"type"`
	Value  ref.Val `json:"typed_value"`
}

func hasIntegralFloat(v ref.Val) bool {
	if v.K == ref.KFloat && v.F == math.Trunc(v.F) {
		return true
	}
	for _, c := range v.L {
		if hasIntegralFloat(c) {
			return true
		}
	}
	for _, e := range v.M {
		if hasIntegralFloat(e.V) {
			return true
		}
	}
	return false
}

func CheckTyped(eng typed.Engine, s *rs.Schema, c TypedCase) (fs []core.Finding, ran bool) {
	t := s.T(c.Type)
	repr, ok := s.Repr(t, c.Value)
	if !ok || !InDomain(repr) || hasIntegralFloat(repr) {
		return nil, false // outside DAG-JSON's domain (integral floats: the recorded finding)
	}
	site := "typed/" + eng.Name() + "/" + rs.Strategy(t)
	where := fmt.Sprintf("%s %s.%s value %s (repr %s)", eng.Name(), s.Name, c.Type, c.Value, repr)
	var want bytes.Buffer
	if err := dagjson.Encode(ref.Basic(repr), &want); err != nil {
		return nil, false
	}
	var n datamodel.Node
	var err error
	// the value is assembled at type level (field names, member names), so that reading the text back
	// through the representation builder is the first time a serial key is mapped to a field; a map
	// with struct keys can only be fed at representation level
	if pan := core.Guard(func() {
		if s.ComplexKeys(t) {
			n, err = ref.Build(eng.Proto(s, c.Type, true), repr)
		} else {
			n, err = ref.Build(eng.Proto(s, c.Type, false), s.FeedType(t, c.Value))
		}
	}); pan != "" || err != nil {
		return nil, false // that the binding builds its own values is C08's business
	}
	encode := func(n datamodel.Node) (string, string) {
		var buf bytes.Buffer
		var e error
		pan := core.Guard(func() { e = dagjson.Encode(n.(schema.TypedNode).Representation(), &buf) })
		if pan != "" {
			return "", "panic: " + pan
		}
		if e != nil {
			return "", e.Error()
		}
		return buf.String(), ""
	}
	text, bad := encode(n)
	if bad != "" {
		return []core.Finding{core.F(site+"/encode-fails", "%s: %s", where, bad)}, true
	}
	if text != want.String() {
		fs = append(fs, core.F(site+"/encode-differs-from-generic-node", "%s: wrote %s, the generic node writes %s", where, text, want.String()))
	}
	var back datamodel.Node
	pan := core.Guard(func() {
		nb := eng.Proto(s, c.Type, true).NewBuilder()
		if err = dagjson.Decode(nb, bytes.NewReader([]byte(text))); err == nil {
			back = nb.Build()
		}
	})
	if pan != "" || err != nil {
		return append(fs, core.F(site+"/decode-of-own-text-fails", "%s: text %s: %v %s", where, text, err, pan)), true
	}
	wantT := c08.SortTypedMaps(s, t, c.Value, ref.LessBytewise)
	wantR, _ := s.Repr(t, wantT)
	var tv, rv ref.Val
	if pan := core.Guard(func() {
		tv = ref.ReadTyped(back)
		rv = ref.ReadTyped(back.(schema.TypedNode).Representation())
	}); pan != "" {
		return append(fs, core.F(site+"/decoded-node-unreadable", "%s: %s", where, pan)), true
	}
	if !ref.Equal(tv, wantT) {
		fs = append(fs, core.F(site+"/decoded-value-differs(type-level)", "%s: text %s decodes to %s", where, text, tv))
	}
	if !ref.Equal(rv, wantR) {
		fs = append(fs, core.F(site+"/decoded-value-differs(representation)", "%s: text %s decodes to representation %s", where, text, rv))
	}
	if again, bad := encode(back); bad != "" || again != text {
		fs = append(fs, core.F(site+"/re-encode-differs", "%s: %s then %s %s", where, text, again, bad))
	}
	return fs, true
}

func typedValues(r *core.Run) {
	eng := typed.NewBindEngine()
	type job struct {
		s *rs.Schema
		t string
	}
	var jobs []job
	for _, s := range rs.Families(r.Quick()) {
		if eng.Proto(s, "Int", false) == nil {
			continue
		}
		for _, tn := range s.Roots {
			jobs = append(jobs, job{s, tn})
		}
	}
	core.ParallelFor(len(jobs), func(i int) {
		j := jobs[i]
		var lc core.LocalCounters
		var nt int64
		for _, v := range j.s.Values(j.s.T(j.t), 0) {
			c := TypedCase{j.s.Name, j.t, v}
			fs, ran := CheckTyped(eng, j.s, c)
			if !ran {
				continue
			}
			lc.States++
			lc.Transitions += 3
			lc.Evals++
			lc.Traces++
			nt++
			r.Report("typed", c, fs)
		}
		r.Merge(&lc)
		r.NontrivialN(nt)
	})
	r.Outcome("typed-values")
	r.Set("typed_values", map[string]any{"engine": "bindnode", "root_types": len(jobs)})
}

func replayTyped(r *core.Run, c TypedCase) {
	for _, s := range rs.Families(false) {
		if s.Name == c.Schema {
			fs, _ := CheckTyped(typed.NewBindEngine(), s, c)
			r.Report("typed", c, fs)
		}
	}
}
