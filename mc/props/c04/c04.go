// Package c04: DAG-JSON encoding round-trips with kinds preserved and is deterministic.
package c04

import (
	"bytes"
	"encoding/json"
	"math"
	"unicode/utf8"

	"github.com/ipld/go-ipld-prime/codec/dagjson"
	"github.com/ipld/go-ipld-prime/node/basicnode"

	"verif/mc/core"
	"verif/mc/props/c02"
	"verif/mc/ref"
)

type Case struct {
	V    ref.Val `json:"value"`
	Impl string  `json:"impl"`
}

// InDomain: finite floats, valid UTF-8 strings and keys, defined links, int64 ints, no reserved shape.
func InDomain(v ref.Val) bool {
	switch v.K {
	case ref.KUint, ref.KAbsent, ref.KInvalid:
		return false
	case ref.KFloat:
		return !math.IsNaN(v.F) && !math.IsInf(v.F, 0)
	case ref.KString:
		return utf8.ValidString(v.S)
	case ref.KLink:
		return v.S != ""
	case ref.KList:
		for _, c := range v.L {
			if !InDomain(c) {
				return false
			}
		}
	case ref.KMap:
		for _, e := range v.M {
			if !utf8.ValidString(e.K) || !InDomain(e.V) {
				return false
			}
		}
		return !ref.JsonReserved(v)
	}
	return true
}

func floatClass(f float64) string {
	a := math.Abs(f)
	switch {
	case f == 0 && math.Signbit(f):
		return "neg-zero"
	case f == math.Trunc(f) && a < 9.3e18:
		return "integral,fits-int64"
	case f == math.Trunc(f) && a < 1e21:
		return "integral,2^63≤|f|<1e21"
	case f == math.Trunc(f):
		return "integral≥1e21"
	case a < 1e-6:
		return "tiny"
	}
	return "fractional"
}

// firstDiff returns a cause class describing how got differs from want.
func diffClass(want, got ref.Val) string {
	if want.K != got.K {
		c := "kind-changed(" + want.K.String() + "→" + got.K.String()
		if want.K == ref.KFloat {
			c += "," + floatClass(want.F)
		}
		return c + ")"
	}
	switch want.K {
	case ref.KList:
		if len(want.L) != len(got.L) {
			return "list-length"
		}
		for i := range want.L {
			if !ref.Equal(want.L[i], got.L[i]) {
				return diffClass(want.L[i], got.L[i])
			}
		}
	case ref.KMap:
		if len(want.M) != len(got.M) {
			return "map-length"
		}
		for i := range want.M {
			if want.M[i].K != got.M[i].K {
				return "key-differs"
			}
			if !ref.Equal(want.M[i].V, got.M[i].V) {
				return diffClass(want.M[i].V, got.M[i].V)
			}
		}
	case ref.KFloat:
		return "float-value(" + floatClass(want.F) + ")"
	}
	return want.K.String() + "-differs"
}

func firstFloatClass(v ref.Val) string {
	if v.K == ref.KFloat {
		return floatClass(v.F)
	}
	for _, c := range v.L {
		if s := firstFloatClass(c); s != "" {
			return s
		}
	}
	for _, e := range v.M {
		if s := firstFloatClass(e.V); s != "" {
			return s
		}
	}
	return ""
}

func encode(impl string, v ref.Val) ([]byte, string) {
	n, err := ref.ImplBuild(impl, v)
	if err != nil {
		return nil, "harness-build: " + err.Error()
	}
	var buf bytes.Buffer
	var eerr error
	if p := core.Guard(func() { eerr = dagjson.Encode(n, &buf) }); p != "" {
		return nil, "panic: " + p
	}
	if eerr != nil {
		return nil, "error: " + eerr.Error()
	}
	return buf.Bytes(), ""
}

func Check(c Case) (fs []core.Finding, outcome string) {
	v := c.V
	canon := ref.SortMaps(v, ref.LessBytewise)
	out, bad := encode(c.Impl, v)
	if bad != "" {
		return []core.Finding{core.F("encode/"+c.Impl+"/"+core.Class(bad), "value %s: %s", v, bad)}, "bad"
	}
	// (b) a function of the value alone: equal to the encoding of the canonical order in basicnode
	if c.Impl != "basic-any" || !ref.Equal(v, canon) {
		cout, cbad := encode("basic-any", canon)
		if cbad == "" && !bytes.Equal(cout, out) {
			cause := "order-dependent"
			if ref.Equal(v, canon) {
				cause = "impl-dependent(" + c.Impl + ")"
			}
			fs = append(fs, core.F("encode/"+cause, "value %s: %q vs canonical-order basicnode %q", v, out, cout))
		}
	}
	// (c) independent reader: well-formed, keys sorted, denotes the value
	rv, sorted, rerr := ref.JsonRead(out)
	if rerr != nil {
		fs = append(fs, core.F("encode/output-not-readable("+firstFloatClass(v)+")", "value %s: output %q: stdlib-based reader: %v", v, out, rerr))
	} else {
		if !sorted {
			fs = append(fs, core.F("encode/keys-unsorted", "value %s: output %q", v, out))
		}
		if !ref.Equal(rv, canon) {
			fs = append(fs, core.F("encode/output-denotes-other:"+diffClass(canon, rv), "value %s: output %q denotes %s", v, out, rv))
		}
	}
	// (a) the library's own decoder returns the same value with the same kinds
	nb := basicnode.Prototype.Any.NewBuilder()
	var derr error
	if p := core.Guard(func() { derr = dagjson.Decode(nb, bytes.NewReader(out)) }); p != "" {
		fs = append(fs, core.F("roundtrip/decode-panic", "value %s output %q: %s", v, out, p))
		return fs, "bad"
	}
	if derr != nil {
		fs = append(fs, core.F("roundtrip/undecodable-own-output("+firstFloatClass(v)+"|"+core.Class(derr.Error())+")", "value %s: own output %q rejected: %v", v, out, derr))
		return fs, "bad"
	}
	back, incs := ref.Observe(nb.Build())
	if len(incs) > 0 {
		fs = append(fs, core.F("roundtrip/decoded-node-inconsistent:"+incs[0].Cause, "value %s: %s", v, incs[0].Detail))
	}
	if !ref.Equal(back, canon) {
		fs = append(fs, core.F("roundtrip/"+diffClass(canon, back), "value %s: output %q decodes to %s", v, out, back))
	} else {
		// (d) re-encoding the decoded node gives the same bytes
		var b2 bytes.Buffer
		if err := dagjson.Encode(nb.Build(), &b2); err != nil || !bytes.Equal(b2.Bytes(), out) {
			fs = append(fs, core.F("roundtrip/reencode-differs", "value %s: %q then %q (err %v)", v, out, b2.Bytes(), err))
		}
	}
	if len(fs) > 0 {
		return fs, "bad"
	}
	return nil, "ok:" + v.K.String()
}

// NearMisses: shapes next to the ones DAG-JSON reserves.
func NearMisses() []ref.Val { return nearMisses() }

// ReservedShapes: the shapes DAG-JSON reserves (ordinary maps for every other codec), alone and nested.
func ReservedShapes() []ref.Val {
	cidText := "bafkreifw7plhl6mofk6sfvhnfh64qmkq73oeqwl6sloru6rehaoujituke"
	var out []ref.Val
	for _, in := range []ref.Val{ref.Str("x"), ref.Str(""), ref.Str(cidText), ref.Map(ref.E("bytes", ref.Str("aGk"))), ref.Map(ref.E("bytes", ref.Str(""))), ref.Map(ref.E("bytes", ref.Str("not base64!")))} {
		m := ref.Map(ref.E("/", in))
		out = append(out, m, ref.List(m), ref.Map(ref.E("a", m)), ref.Map(ref.E("/", ref.Map(ref.E("/", in)))))
	}
	return out
}

func nearMisses() []ref.Val {
	s, i := ref.Str("x"), ref.Int(1)
	return []ref.Val{
		ref.Map(ref.E("/", i)),
		ref.Map(ref.E("/", ref.Null())),
		ref.Map(ref.E("/", ref.List())),
		ref.Map(ref.E("/", s), ref.E("b", i)),
		ref.Map(ref.E("b", i), ref.E("/", s)),
		ref.Map(ref.E("/", s), ref.E("", i)),
		ref.Map(ref.E("/", ref.Map(ref.E("bytes", i)))),
		ref.Map(ref.E("/", ref.Map(ref.E("bytes", ref.Null())))),
		ref.Map(ref.E("/", ref.Map(ref.E("bytes", s), ref.E("c", i)))),
		ref.Map(ref.E("/", ref.Map(ref.E("bytes", s), ref.E("a", i)))),
		ref.Map(ref.E("/", ref.Map(ref.E("bytes", s))), ref.E("z", i)),
		ref.Map(ref.E("/", ref.Map(ref.E("bytes", s))), ref.E("", i)),
		ref.Map(ref.E("/", ref.Map(ref.E("Bytes", s)))),
		ref.Map(ref.E("/", ref.Map(ref.E("byte", s)))),
		ref.Map(ref.E("/", ref.Map())),
		ref.Map(ref.E("/", ref.Map(ref.E("/", i)))),
		ref.Map(ref.E("/", ref.Map(ref.E("/", ref.Map(ref.E("bytes", i)))))),
		ref.Map(ref.E("//", s)),
		ref.Map(ref.E("", s)),
		ref.Map(ref.E("/", ref.Bytes("ab"))),
		ref.Map(ref.E("/", ref.Link(ref.LinksFull()[1]))),
		ref.Map(ref.E("/", ref.Map(ref.E("bytes", ref.Bytes("ab"))))),
		ref.Map(ref.E("/", ref.Map(ref.E("bytes", ref.Link(ref.LinksFull()[0]))))),
		ref.List(ref.Map(ref.E("/", i)), ref.Map(ref.E("/", ref.Map(ref.E("bytes", i))))),
		ref.Map(ref.E("a", ref.Map(ref.E("/", ref.Map(ref.E("bytes", s), ref.E("c", i)))))),
	}
}

func Universe(quick bool) []Case {
	n, permK, jsonK := 4, 4, 3
	if !quick {
		n, permK, jsonK = 6, 5, 4
	}
	var vals []ref.Val
	vals = append(vals, ref.Trees(n, ref.LeavesSmall())...)
	vals = append(vals, ref.Sweep(ref.ScalarsFull())...)
	vals = append(vals, nearMisses()...)
	vals = append(vals, c02.PermutedMaps(ref.ComparatorKeys, permK)...)
	jsonKeys := []string{"/", "bytes", "a", "\"", "\\", " ", "\n", "\x7f", "é", "😀", "", " "}
	vals = append(vals, c02.PermutedMaps(jsonKeys, jsonK)...)
	nestKeys := []string{"a", "/", "aa", "B", ""}
	inner := c02.PermutedMaps(nestKeys, 3)
	for _, o := range c02.PermutedMaps(nestKeys, 2) {
		for pos := range o.M {
			for _, in := range inner {
				m := append([]ref.Entry(nil), o.M...)
				m[pos] = ref.Entry{K: m[pos].K, V: in}
				vals = append(vals, ref.Val{K: ref.KMap, M: m})
			}
		}
	}
	var cases []Case
	// every non-negative integer of the sweep once more held by basicnode's uint-backed node
	for _, v := range ref.Sweep(ref.IntsFull()) {
		if ref.HasNonNegInt(v) {
			cases = append(cases, Case{V: v, Impl: "basic-newuint"})
		}
	}
	// every bytes value of the sweep once more held by basicnode's reader-backed bytes node (a node that
	// is read more than once per check: length, encode, observation)
	for _, v := range ref.Sweep(bytesVals()) {
		if ref.HasBytes(v) {
			cases = append(cases, Case{V: v, Impl: "basic-readerbytes"})
			if v.K == ref.KBytes {
				cases = append(cases, Case{V: v, Impl: "basic-bytes-proto-of-reader"})
			}
		}
	}
	for _, v := range vals {
		if !InDomain(v) {
			continue
		}
		for _, impl := range ref.GenericImpls {
			cases = append(cases, Case{V: v, Impl: impl})
		}
	}
	return cases
}

func Main(r *core.Run) {
	cases := Universe(r.Quick())
	r.Rule("every in-domain tree ≤4/≤6 nodes over 13 leaves; every alphabet scalar (full float, string, bytes, link alphabets) at every position kind incl. as map key; reserved-shape near misses; every permutation of key sets ≤4/≤5 (comparator keys) and ≤3/≤4 (JSON-hostile keys: \"/\", \"bytes\", quote, backslash, U+2028, control, non-BMP); permuted map nested in permuted map; × {basicnode Any, basicnode kind prototypes, foreign refnode}; histories of two encodes on one goroutine (the first meets a failing or short writer at its k-th write, or a node that gives up): the second equals its output alone. Non-trivial = contains a float, bytes, link, a map with ≥2 entries or a string needing escapes; distinct by (value with order, impl).")
	r.Assume("reference reader mc/ref/refjson.go over encoding/json's tokenizer; cid.Decode and base64 from the standard/ CID libraries")
	core.ParallelFor(len(cases), func(i int) {
		c := cases[i]
		fs, outcome := Check(c)
		r.States.Add(1)
		r.Transitions.Add(4)
		r.Traces.Add(1)
		r.Evals.Add(1)
		r.Outcome(outcome)
		if nontrivial(c.V) {
			r.Nontrivial(c.Impl + "|" + c.V.Key())
		}
		r.Report("value", c, fs)
	})
	histories(r)
	typedValues(r)
	var hv []ref.Val
	for _, c := range cases {
		if c.Impl == "basic-any" {
			hv = append(hv, c.V)
		}
	}
	c02.RunHelpers(r, "dag-json", dagjson.Encode, dagjson.Decode, hv)
	r.Sample(map[string]any{"value": cases[len(cases)/2].V.String(), "impl": cases[len(cases)/2].Impl})
	r.Sample(map[string]any{"value": nearMisses()[3].String(), "what": "reserved-shape near miss: two entries, first is \"/\": string"})
	r.Set("cases", len(cases))
}

func nontrivial(v ref.Val) bool {
	switch v.K {
	case ref.KFloat, ref.KBytes, ref.KLink:
		return true
	case ref.KString:
		for _, c := range v.S {
			if c < 0x20 || c == '"' || c == '\\' || c > 0x7e {
				return true
			}
		}
	case ref.KMap:
		if len(v.M) >= 2 {
			return true
		}
	}
	for _, c := range v.L {
		if nontrivial(c) {
			return true
		}
	}
	for _, e := range v.M {
		if nontrivial(e.V) || nontrivial(ref.Str(e.K)) {
			return true
		}
	}
	return false
}

func Replay(r *core.Run, raw json.RawMessage) {
	var hc HCase
	if json.Unmarshal(raw, &hc) == nil && hc.Fault != "" {
		r.Report("history", hc, CheckHistory(hc))
		return
	}
	var hp c02.HelperCase
	if json.Unmarshal(raw, &hp) == nil && hp.Codec != "" {
		r.Report("helpers", hp, c02.CheckHelpers(hp.Codec, dagjson.Encode, dagjson.Decode, hp.V))
		return
	}
	var tc TypedCase
	if json.Unmarshal(raw, &tc) == nil && tc.Schema != "" {
		replayTyped(r, tc)
		return
	}
	var c Case
	if err := json.Unmarshal(raw, &c); err != nil {
		panic(err)
	}
	fs, _ := Check(c)
	r.Report("value", c, fs)
}

func bytesVals() []ref.Val {
	var out []ref.Val
	for _, b := range ref.BytesFull() {
		out = append(out, ref.Bytes(b))
	}
	return out
}
