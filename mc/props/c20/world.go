// Package c20: shared immutable objects are safe to use from many goroutines at once.
// (a) every interleaving, at the hooked accessors of shared mutable state, of pairs of operations on
// the same objects (cooperative scheduler, preemption bound); (b) the write footprint of every
// operation run alone (deep fingerprints of the shared objects and of the library's package-level
// mutable state); (c) a separate free-running race-detector pass over every unordered pair.
package c20

import (
	"bytes"
	"context"
	"fmt"
	"io"

	"github.com/ipld/go-ipld-prime"
	"github.com/ipld/go-ipld-prime/codec/dagcbor"
	"github.com/ipld/go-ipld-prime/codec/dagjson"
	"github.com/ipld/go-ipld-prime/datamodel"
	"github.com/ipld/go-ipld-prime/linking"
	cidlink "github.com/ipld/go-ipld-prime/linking/cid"
	"github.com/ipld/go-ipld-prime/multicodec"
	"github.com/ipld/go-ipld-prime/node/basicnode"
	"github.com/ipld/go-ipld-prime/node/bindnode"
	"github.com/ipld/go-ipld-prime/node/gendemo"
	"github.com/ipld/go-ipld-prime/schema"
	"github.com/ipld/go-ipld-prime/storage/memstore"
	"github.com/ipld/go-ipld-prime/traversal"
	"github.com/ipld/go-ipld-prime/traversal/selector"
	mh "github.com/multiformats/go-multihash"

	"verif/mc/lsx"
	"verif/mc/ref"
	"verif/mc/trav"
)

type BT struct {
	A int64
	L []string
	O *string
}

type BInf struct { // only ever bound with an inferred schema
	X int64
	S string
}

// a typed map whose keys are not plain strings (a struct with a string representation, an enum)
type BK struct{ A, B string }
type BKMap struct {
	Keys   []BK
	Values map[BK]int64
}
type BEMap struct {
	Keys   []string
	Values map[string]int64
}

const bindSchema = `type BT struct { A Int  L [String]  O optional String } representation tuple
type BK struct { A String  B String } representation stringjoin { join ":" }
type BKMap {BK:Int}
type BE enum {
  | Red ("r")
  | Green
}
type BEMap {BE:Int}`

// World is the set of shared objects of one execution.
type World struct {
	Basic     datamodel.Node
	StartPath datamodel.Path // a path value several walks start from (length 3: built by appending, it has spare capacity)
	PoppedPath datamodel.Path // a path value obtained by Pop (spare capacity by construction)
	Link2     datamodel.Link // a second intact block in the memstore
	LinkBad   datamodel.Link // a block whose stored bytes do not hash to it
	Bind      schema.TypedNode
	BindKMap  schema.TypedNode // map with stringjoin-struct keys
	BindEMap  schema.TypedNode // map with enum keys
	Gen       datamodel.Node
	Large     datamodel.Node
	Sel       selector.Selector
	SelLimA   selector.Selector // depth-limited recursion, the edge before the matcher, under explore-all
	SelLimF   selector.Selector // depth-limited recursion, the edge after the matcher, under explore-fields
	Deep      datamodel.Node    // deeper than the limits
	SelSpec   datamodel.Node
	CfgUnset  *traversal.Config
	CfgSet    *traversal.Config
	TS        *schema.TypeSystem
	BindProto schema.TypedPrototype
	LS        *linking.LinkSystem
	LSMem     *linking.LinkSystem // over cidlink.Memory
	Link      datamodel.Link
	LinkMem   datamodel.Link
	MemStore  *memstore.Store
	CidMem    *cidlink.Memory
	Root      datamodel.Node // a node with a link into LS's store
}

func NewWorld() *World {
	w := &World{}
	val := ref.Map(ref.E("a", ref.List(ref.Int(1), ref.Str("x"), ref.Bytes("\x01\x02"))), ref.E("b", ref.Map(ref.E("c", ref.Float(1.5)), ref.E("l", ref.Link(ref.LinksFull()[1])))))
	w.Basic = ref.Basic(val)
	ts, err := ipld.LoadSchemaBytes([]byte(bindSchema))
	if err != nil {
		panic(err)
	}
	w.TS = ts
	o := "opt"
	w.Bind = bindnode.Wrap(&BT{A: 5, L: []string{"p", "q"}, O: &o}, ts.TypeByName("BT"))
	w.BindProto = bindnode.Prototype(&BT{}, ts.TypeByName("BT"))
	w.BindKMap = bindnode.Wrap(&BKMap{Keys: []BK{{"x", "y"}, {"p", "q"}, {"m", "n"}}, Values: map[BK]int64{{"x", "y"}: 1, {"p", "q"}: 2, {"m", "n"}: 3}}, ts.TypeByName("BKMap"))
	w.BindEMap = bindnode.Wrap(&BEMap{Keys: []string{"Red", "Green"}, Values: map[string]int64{"Red": 1, "Green": 2}}, ts.TypeByName("BEMap"))
	nb := gendemo.Type.Msg3.NewBuilder()
	ref.Assign(nb, ref.Map(ref.E("whee", ref.Int(1)), ref.E("woot", ref.Int(2)), ref.E("waga", ref.Int(3))))
	w.Gen = nb.Build()
	w.Large = basicnode.NewBytesFromReader(bytes.NewReader([]byte("large bytes content")))
	w.SelSpec = ref.Basic(trav.Rec(-1, trav.Un(trav.M(), trav.All(trav.Edge()))).Spec())
	w.Sel, _ = selector.CompileSelector(w.SelSpec)
	w.SelLimA, _ = trav.Rec(2, trav.All(trav.Un(trav.Edge(), trav.M()))).Compile()
	w.SelLimF, _ = trav.Rec(1, trav.Fld(trav.F1("a", trav.Un(trav.M(), trav.Edge())), trav.F1("b", trav.M()))).Compile()
	w.Deep = ref.Basic(deepComb(5, false))
	// a pre-filled, then read-only, store of each kind
	w.MemStore = &memstore.Store{}
	ls := cidlink.DefaultLinkSystem()
	ls.SetReadStorage(w.MemStore)
	ls.SetWriteStorage(w.MemStore)
	p := lsx.Proto{Version: 1, Codec: 0x71, MhType: mh.SHA2_256, MhLength: -1}
	w.Link, err = ls.Store(linking.LinkContext{}, p.LP(), w.Basic)
	if err != nil {
		panic(err)
	}
	w.StartPath = datamodel.ParsePath("mnt/vol").AppendSegmentString("root")
	w.PoppedPath = datamodel.ParsePath("a/b/c/d/e").Pop()
	// a second intact block, and a block whose stored bytes do not hash to its link (a load of it is a
	// hash-mismatch error, after which loads of the intact blocks must be what they were)
	if w.Link2, err = ls.Store(linking.LinkContext{}, p.LP(), ref.Basic(ref.List(ref.Int(1), ref.Str("second block"), ref.Int(3)))); err != nil {
		panic(err)
	}
	if w.LinkBad, err = ls.ComputeLink(p.LP(), ref.Basic(ref.Str("a block that was never stored intact"))); err != nil {
		panic(err)
	}
	w.MemStore.Bag[w.LinkBad.Binary()] = []byte("these bytes do not hash to the link they are stored under")
	ls.StorageWriteOpener = nil
	w.LS = &ls
	w.CidMem = &cidlink.Memory{}
	ls2 := cidlink.DefaultLinkSystem()
	ls2.StorageReadOpener = w.CidMem.OpenRead
	ls2.StorageWriteOpener = w.CidMem.OpenWrite
	w.LinkMem, _ = ls2.Store(linking.LinkContext{}, p.LP(), w.Basic)
	ls2.StorageWriteOpener = nil
	w.LSMem = &ls2
	bl := w.Link.(cidlink.Link)
	w.Root = ref.Basic(ref.List(ref.Int(1), ref.Link(string(bl.Cid.Bytes()))))
	chooser := func(datamodel.Link, linking.LinkContext) (datamodel.NodePrototype, error) {
		return basicnode.Prototype.Any, nil
	}
	w.CfgUnset = &traversal.Config{LinkSystem: ls}
	w.CfgSet = &traversal.Config{Ctx: context.Background(), LinkSystem: ls, LinkTargetNodePrototypeChooser: chooser}
	return w
}

// Shared returns the named shared objects whose fingerprints must not change under read-only use.
func (w *World) Shared() map[string]interface{} {
	m := map[string]interface{}{
		"basic-node": w.Basic, "bindnode-node": w.Bind, "bindnode-map-with-struct-keys": w.BindKMap, "bindnode-map-with-enum-keys": w.BindEMap, "generated-node": w.Gen, "reader-backed-bytes-node": w.Large,
		"compiled-selector": w.Sel, "compiled-selector-limited-all": w.SelLimA, "compiled-selector-limited-fields": w.SelLimF, "config-unset": w.CfgUnset, "config-set": w.CfgSet, "type-system": w.TS,
		"bindnode-prototype": w.BindProto, "link-system": w.LS, "memstore": w.MemStore, "cidlink-memory": w.CidMem,
		"multicodec.DefaultRegistry": &multicodec.DefaultRegistry,
	}
	if ts := bindnode.VerifDefaultTypeSystem(); ts != nil {
		// (present only while package bindnode keeps a package-level type system for inferred schemas)
		m["bindnode.defaultTypeSystem"] = ts
	}
	return m
}

// Op is one operation of the alphabet; it returns an observation string.
type Op struct {
	Name string
	Run  func(w *World) string
}

func obs(n datamodel.Node) string {
	v, p := ref.Read1(n)
	return v.Key() + p
}

func encode(n datamodel.Node, json bool) string {
	var buf bytes.Buffer
	var err error
	if json {
		err = dagjson.Encode(n, &buf)
	} else {
		err = dagcbor.Encode(n, &buf)
	}
	return fmt.Sprintf("%x|%v", buf.Bytes(), err)
}

func walk(cfg *traversal.Config, root datamodel.Node, sel selector.Selector) string {
	var out []string
	err := traversal.Progress{Cfg: cfg}.WalkAdv(root, sel, func(p traversal.Progress, n datamodel.Node, r traversal.VisitReason) error {
		out = append(out, p.Path.String())
		return nil
	})
	return fmt.Sprint(out, err)
}

func walkFrom(cfg *traversal.Config, start datamodel.Path, root datamodel.Node, sel selector.Selector) string {
	var out []string
	err := traversal.Progress{Cfg: cfg, Path: start}.WalkAdv(root, sel, func(p traversal.Progress, n datamodel.Node, r traversal.VisitReason) error {
		out = append(out, p.Path.String())
		return nil
	})
	return fmt.Sprint(out, err)
}

func Ops() []Op {
	return []Op{
		{"observe-basic", func(w *World) string { v, _ := ref.Observe(w.Basic); return v.Key() }},
		{"observe-bindnode", func(w *World) string {
			v, _ := ref.ObserveTyped(w.Bind)
			r, _ := ref.ObserveTyped(w.Bind.Representation())
			return v.Key() + r.Key()
		}},
		{"lookup-bindnode-map-with-complex-keys", func(w *World) string {
			var out []string
			for _, k := range []string{"x:y", "p:q", "m:n", "no:key"} {
				for _, m := range []datamodel.Node{w.BindKMap, w.BindKMap.Representation()} {
					n, err := m.LookupByString(k)
					if err != nil {
						out = append(out, "err")
						continue
					}
					out = append(out, obs(n))
					n, err = m.LookupBySegment(datamodel.PathSegmentOfString(k))
					if err == nil {
						out = append(out, obs(n))
					}
				}
			}
			for _, k := range []string{"Red", "Green", "r"} {
				for _, m := range []datamodel.Node{w.BindEMap, w.BindEMap.Representation()} {
					n, err := m.LookupByString(k)
					if err != nil {
						out = append(out, "err")
						continue
					}
					out = append(out, obs(n))
				}
			}
			return fmt.Sprint(out)
		}},
		{"observe-bindnode-map-with-complex-keys", func(w *World) string {
			v, _ := ref.ObserveTyped(w.BindKMap)
			r, _ := ref.ObserveTyped(w.BindKMap.Representation())
			return v.Key() + r.Key() + encode(w.BindKMap.Representation(), false)
		}},
		{"observe-generated", func(w *World) string {
			v, _ := ref.ObserveTyped(w.Gen)
			r, _ := ref.ObserveTyped(w.Gen.(schema.TypedNode).Representation())
			return v.Key() + r.Key()
		}},
		{"read-reader-backed-bytes", func(w *World) string { b, err := w.Large.AsBytes(); return fmt.Sprintf("%q %v", b, err) }},
		{"deepequal-basic", func(w *World) string { return fmt.Sprint(datamodel.DeepEqual(w.Basic, w.Basic)) }},
		{"copy-basic", func(w *World) string {
			nb := basicnode.Prototype.Any.NewBuilder()
			err := datamodel.Copy(w.Basic, nb)
			return obs(nb.Build()) + fmt.Sprint(err)
		}},
		{"copy-bindnode-repr", func(w *World) string {
			nb := basicnode.Prototype.Any.NewBuilder()
			err := datamodel.Copy(w.Bind.Representation(), nb)
			return obs(nb.Build()) + fmt.Sprint(err)
		}},
		{"encode-basic-dagcbor", func(w *World) string { return encode(w.Basic, false) }},
		{"encode-basic-dagjson", func(w *World) string { return encode(w.Basic, true) }},
		{"encode-bindnode-repr", func(w *World) string { return encode(w.Bind.Representation(), false) }},
		{"encode-generated-repr", func(w *World) string { return encode(w.Gen.(schema.TypedNode).Representation(), false) }},
		{"walk-config-unset", func(w *World) string { return walk(w.CfgUnset, w.Root, w.Sel) }},
		{"walk-config-set", func(w *World) string { return walk(w.CfgSet, w.Root, w.Sel) }},
		{"walk-limited-recursion-under-all", func(w *World) string { return walk(w.CfgSet, w.Deep, w.SelLimA) }},
		{"walk-limited-recursion-under-fields", func(w *World) string { return walk(w.CfgSet, w.Deep, w.SelLimF) }},
		// a Progress is passed by value, the Path in it is a value too: walks started from one shared
		// path value report their own paths
		{"walk-from-shared-start-path", func(w *World) string { return walkFrom(w.CfgSet, w.StartPath, w.Deep, w.Sel) }},
		{"walk-from-shared-popped-path", func(w *World) string { return walkFrom(w.CfgSet, w.PoppedPath, w.Root, w.Sel) }},
		{"extend-shared-path-value", func(w *World) string {
			a := w.StartPath.AppendSegmentString("x")
			b := w.PoppedPath.AppendSegmentString("y").AppendSegmentString("z")
			c := w.StartPath.Join(w.PoppedPath)
			return a.String() + " " + b.String() + " " + c.String() + " " + w.StartPath.String() + " " + w.PoppedPath.String()
		}},
		{"walk-matching-default-config", func(w *World) string {
			n := 0
			err := traversal.WalkMatching(w.Basic, w.Sel, func(traversal.Progress, datamodel.Node) error { n++; return nil })
			return fmt.Sprint(n, err)
		}},
		{"focus-config-unset", func(w *World) string {
			n, err := traversal.Progress{Cfg: w.CfgUnset}.Get(w.Root, datamodel.ParsePath("1/a/0"))
			if err != nil {
				return err.Error()
			}
			return obs(n)
		}},
		{"load-linksystem-memstore", func(w *World) string {
			n, err := w.LS.Load(linking.LinkContext{}, w.Link, basicnode.Prototype.Any)
			if err != nil {
				return err.Error()
			}
			return obs(n)
		}},
		{"loadraw-linksystem-cidmemory", func(w *World) string {
			b, err := w.LSMem.LoadRaw(linking.LinkContext{}, w.LinkMem)
			return fmt.Sprintf("%x %v", b, err)
		}},
		{"loadraw-linksystem-memstore-other-block", func(w *World) string {
			b, err := w.LS.LoadRaw(linking.LinkContext{}, w.Link2)
			return fmt.Sprintf("%x %v", b, err)
		}},
		{"loadraw-linksystem-memstore-after-a-hash-mismatch", func(w *World) string {
			_, err0 := w.LS.LoadRaw(linking.LinkContext{}, w.LinkBad)
			b, err := w.LS.LoadRaw(linking.LinkContext{}, w.Link)
			return fmt.Sprintf("%v | %x %v", err0, b, err)
		}},
		{"loadplusraw-linksystem-memstore", func(w *World) string {
			n, b, err := w.LS.LoadPlusRaw(linking.LinkContext{}, w.Link, basicnode.Prototype.Any)
			if err != nil {
				return err.Error()
			}
			return fmt.Sprintf("%s %x", obs(n), b)
		}},
		{"computelink", func(w *World) string {
			l, err := w.LS.ComputeLink(w.Link.Prototype(), w.Basic)
			return fmt.Sprint(l, err)
		}},
		{"memstore-get-on-empty-store", func(w *World) string {
			_, err := (&emptyStores).mem.Get(context.Background(), "k")
			return fmt.Sprint(err != nil)
		}},
		{"cidmemory-read-on-empty-store", func(w *World) string {
			_, err := (&emptyStores).cid.OpenRead(linking.LinkContext{}, w.Link)
			return fmt.Sprint(err != nil)
		}},
		{"bind-wrap-explicit", func(w *World) string {
			n := bindnode.Wrap(&BT{A: 1}, w.TS.TypeByName("BT"))
			return obs(n)
		}},
		{"bind-wrap-inferred", func(w *World) string {
			n := bindnode.Wrap(&BInf{X: 1, S: "s"}, nil)
			return obs(n)
		}},
		{"bind-wrap-inferred-top-level-slice", func(w *World) string {
			n := bindnode.Wrap(&[]string{"a", "b"}, nil)
			return obs(n)
		}},
		{"bind-prototype-inferred-top-level-slice", func(w *World) string {
			nb := bindnode.Prototype((*[]int64)(nil), nil).NewBuilder()
			if err := ref.Assign(nb, ref.List(ref.Int(1), ref.Int(2))); err != nil {
				return err.Error()
			}
			return obs(nb.Build())
		}},
		{"bind-prototype-build", func(w *World) string {
			nb := w.BindProto.NewBuilder()
			err := ref.Assign(nb, ref.Map(ref.E("A", ref.Int(2)), ref.E("L", ref.List(ref.Str("z")))))
			if err != nil {
				return err.Error()
			}
			return obs(nb.Build())
		}},
		{"generated-prototype-build", func(w *World) string {
			nb := gendemo.Type.Msg3.NewBuilder()
			ref.Assign(nb, ref.Map(ref.E("whee", ref.Int(4)), ref.E("woot", ref.Int(5)), ref.E("waga", ref.Int(6))))
			return obs(nb.Build())
		}},
		{"basic-prototype-build", func(w *World) string { return obs(ref.Basic(ref.List(ref.Int(1)))) }},
		{"selector-compile", func(w *World) string {
			_, err := selector.CompileSelector(w.SelSpec)
			return fmt.Sprint(err)
		}},
		{"registry-lookup", func(w *World) string {
			_, e1 := multicodec.LookupEncoder(0x71)
			_, e2 := multicodec.LookupDecoder(0x0129)
			return fmt.Sprint(e1, e2, len(multicodec.ListEncoders()), len(multicodec.ListDecoders()))
		}},
		{"typesystem-read", func(w *World) string {
			return fmt.Sprint(len(w.TS.GetTypes()), w.TS.TypeByName("BT") != nil, len(w.TS.Names()))
		}},
	}
}

// stores that are shared but never written by the harness: their lazy initialisation is what is probed
var emptyStores struct {
	mem memstore.Store
	cid cidlink.Memory
}

// ResetGlobals puts process-wide state back to its start-of-process state between executions.
func ResetGlobals() {
	bindnode.VerifResetDefaultTypeSystem()
	emptyStores.mem = memstore.Store{}
	emptyStores.cid = cidlink.Memory{}
}

var _ = io.Discard
