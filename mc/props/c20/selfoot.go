package c20

import (
	"fmt"

	"github.com/ipld/go-ipld-prime/datamodel"
	"github.com/ipld/go-ipld-prime/traversal"

	"verif/mc/core"
	"verif/mc/ref"
	"verif/mc/trav"
)

// Sharing a compiled selector between walkers is race-free exactly when using it does not write to
// it (the library takes no locks around selectors: static guard). This sweep decides that for every
// selector of the enumerated space: compile once, use it for walks and transforms over every graph of
// a small set (deep enough to exhaust recursion limits), and compare a deep fingerprint of the
// compiled selector before and after every use; then use it once more on the first graph and compare
// what it visits with its first use.

type SelCase struct {
	Sel   *trav.Sel      `json:"selector"`
	Text  string         `json:"text"`
	Graph trav.GraphSpec `json:"graph"`
	Use   string         `json:"use"` // walk, transform
}

func deepComb(d int, list bool) ref.Val {
	var rec func(k int) ref.Val
	rec = func(k int) ref.Val {
		a, c := ref.Int(int64(k)), ref.Int(int64(100+k))
		if k == d-1 {
			if list {
				return ref.List(a, c)
			}
			return ref.Map(ref.E("a", a), ref.E("b", c))
		}
		if list {
			return ref.List(rec(k+1), a, c)
		}
		return ref.Map(ref.E("a", rec(k+1)), ref.E("b", a), ref.E("0", c))
	}
	return rec(0)
}

func selGraphs(quick bool) []trav.GraphSpec {
	out := []trav.GraphSpec{
		{Tree: deepComb(4, false)}, {Tree: deepComb(4, true)},
		{Tree: deepComb(4, false), Cuts: []int{1}}, {Tree: deepComb(3, true), Cuts: []int{1, 2}},
		{Tree: ref.List(ref.Map(ref.E("a", ref.Int(1)), ref.E("b", ref.Int(2))), ref.Map(ref.E("a", ref.Int(3)), ref.E("b", ref.Int(4))))},
		{Tree: ref.Map(ref.E("a", ref.List(ref.List(ref.Int(1), ref.Int(2)), ref.Int(3))), ref.E("1", ref.Map(ref.E("a", ref.Map(ref.E("a", ref.Int(5)))))))},
	}
	if !quick {
		for _, t := range trav.GraphTrees(4, trav.GraphLeaves(true)[:1]) {
			out = append(out, trav.GraphSpec{Tree: t})
		}
	}
	return out
}

// CheckSelectorUse returns findings for one (selector, graph-set) job; n = uses performed.
func CheckSelectorUse(s *trav.Sel, gs []trav.GraphSpec, built []*trav.Built) (fs []core.Finding, cases []SelCase, n int) {
	sel, err := s.Compile()
	if err != nil {
		return nil, nil, 0
	}
	fp0 := Fingerprint(sel)
	first := ""
	visitsOf := func(b *trav.Built) string {
		w := trav.RunWalk(b, b.Root, sel, trav.NoOpts())
		out := w.Err
		for _, v := range w.Visits {
			out += "|" + v.Path + string(v.Reason)
		}
		return out
	}
	for gi, b := range built {
		for _, use := range []string{"walk", "transform"} {
			var pan string
			if use == "walk" {
				v := visitsOf(b)
				if gi == 0 {
					first = v
				}
			} else {
				keys := map[string]bool{}
				for k := range b.Store.M {
					keys[k] = true
				}
				pan = core.Guard(func() {
					traversal.Progress{Cfg: b.Config()}.WalkTransforming(b.Root, sel, func(p traversal.Progress, n datamodel.Node) (datamodel.Node, error) { return n, nil })
				})
				for k := range b.Store.M {
					if !keys[k] {
						delete(b.Store.M, k)
					}
				}
			}
			n++
			_ = pan
			if fp := Fingerprint(sel); fp != fp0 {
				fs = append(fs, core.F("selector-footprint("+use+" writes the compiled selector)", "%s of %s over %s changed the compiled selector (no synchronisation in the library): two walkers sharing it race on that memory", use, s, gs[gi]))
				cases = append(cases, SelCase{Sel: s, Text: s.String(), Graph: gs[gi], Use: use})
				fp0 = fp
			}
		}
	}
	if again := visitsOf(built[0]); again != first {
		fs = append(fs, core.F("selector-reuse/visits-differ", "%s over %s: first use visits %s, after %d other uses of the same compiled selector it visits %s", s, gs[0], short(first), n, short(again)))
		cases = append(cases, SelCase{Sel: s, Text: s.String(), Graph: gs[0], Use: "walk-again"})
	}
	n++
	return
}

func selectorSpace(quick bool) []*trav.Sel {
	k := 5
	if !quick {
		k = 6
	}
	return trav.Enumerate(trav.QuickAlphabet(), k)
}

func selectorFootprints(r *core.Run, quick bool) {
	sels := selectorSpace(quick)
	gs := selGraphs(quick)
	core.ParallelFor(16, func(shard int) {
		var built []*trav.Built
		for _, g := range gs {
			built = append(built, trav.Build(g))
		}
		var lc core.LocalCounters
		var nt int64
		for i := shard; i < len(sels); i += 16 {
			fs, cases, n := CheckSelectorUse(sels[i], gs, built)
			lc.States++
			lc.Transitions += int64(n)
			lc.Evals += int64(n)
			lc.Traces++
			if n > 0 {
				nt++
			}
			for j, f := range fs {
				r.Report("selector", cases[j], []core.Finding{f})
			}
		}
		r.Merge(&lc)
		r.NontrivialN(nt)
	})
	r.Set("selector_footprints", map[string]any{"selectors": len(sels), "graphs": len(gs), "uses_per_pair": []string{"WalkAdv", "WalkTransforming(identity)"}})
	r.Outcome(fmt.Sprintf("selector-footprints:%d-selectors", len(sels)))
}

func replaySelector(r *core.Run, c SelCase) {
	gs := selGraphs(false)
	var built []*trav.Built
	for _, g := range gs {
		built = append(built, trav.Build(g))
	}
	fs, cases, _ := CheckSelectorUse(c.Sel, gs, built)
	for j, f := range fs {
		r.Report("selector", cases[j], []core.Finding{f})
	}
	if len(fs) == 0 {
		r.Report("selector", c, nil)
	}
}
