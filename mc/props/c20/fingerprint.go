package c20

import (
	"fmt"
	"hash/fnv"
	"reflect"
	"sort"
	"unsafe"
)

// Fingerprint is a deep structural hash of a value: it follows pointers, interfaces, slices, maps
// (in sorted key order) and struct fields including unexported ones. Functions and channels
// contribute only their nil-ness. Cycles are cut by address.
func Fingerprint(v interface{}) uint64 {
	h := fnv.New64a()
	fp(reflect.ValueOf(v), h, map[uintptr]bool{}, 0)
	return h.Sum64()
}

type hasher interface{ Write([]byte) (int, error) }

func w(h hasher, format string, a ...interface{}) { fmt.Fprintf(h.(interface {
	Write([]byte) (int, error)
}), format, a...) }

func fp(v reflect.Value, h hasher, seen map[uintptr]bool, depth int) {
	if !v.IsValid() {
		w(h, "<invalid>")
		return
	}
	if depth > 64 {
		w(h, "<deep>")
		return
	}
	switch v.Kind() {
	case reflect.Ptr:
		if v.IsNil() {
			w(h, "nil")
			return
		}
		p := v.Pointer()
		if seen[p] {
			w(h, "<cycle>")
			return
		}
		seen[p] = true
		w(h, "*")
		fp(v.Elem(), h, seen, depth+1)
	case reflect.Interface:
		if v.IsNil() {
			w(h, "nil")
			return
		}
		w(h, "i:%s:", v.Elem().Type())
		fp(v.Elem(), h, seen, depth+1)
	case reflect.Struct:
		w(h, "{%s", v.Type())
		for i := 0; i < v.NumField(); i++ {
			f := v.Field(i)
			if !f.CanInterface() && f.CanAddr() {
				f = reflect.NewAt(f.Type(), unsafe.Pointer(f.UnsafeAddr())).Elem()
			}
			w(h, ",%s=", v.Type().Field(i).Name)
			fp(f, h, seen, depth+1)
		}
		w(h, "}")
	case reflect.Slice:
		if v.IsNil() {
			w(h, "nilslice")
			return
		}
		w(h, "[%d:", v.Len())
		if v.Type().Elem().Kind() == reflect.Uint8 {
			for i := 0; i < v.Len(); i++ {
				w(h, "%02x", v.Index(i).Uint())
			}
		} else {
			for i := 0; i < v.Len(); i++ {
				fp(v.Index(i), h, seen, depth+1)
				w(h, ",")
			}
		}
		w(h, "]")
	case reflect.Array:
		for i := 0; i < v.Len(); i++ {
			fp(v.Index(i), h, seen, depth+1)
		}
	case reflect.Map:
		if v.IsNil() {
			w(h, "nilmap")
			return
		}
		type kv struct {
			k string
			v reflect.Value
		}
		var es []kv
		it := v.MapRange()
		for it.Next() {
			kh := fnv.New64a()
			fp(it.Key(), kh, map[uintptr]bool{}, depth+1)
			es = append(es, kv{fmt.Sprintf("%x", kh.Sum64()), it.Value()})
		}
		sort.Slice(es, func(i, j int) bool { return es[i].k < es[j].k })
		w(h, "map[%d:", len(es))
		for _, e := range es {
			w(h, "%s=>", e.k)
			fp(e.v, h, seen, depth+1)
		}
		w(h, "]")
	case reflect.Func, reflect.Chan, reflect.UnsafePointer:
		w(h, "%s:nil=%v", v.Kind(), v.IsNil())
	case reflect.String:
		w(h, "%q", v.String())
	case reflect.Bool:
		w(h, "%v", v.Bool())
	case reflect.Int, reflect.Int8, reflect.Int16, reflect.Int32, reflect.Int64:
		w(h, "%d", v.Int())
	case reflect.Uint, reflect.Uint8, reflect.Uint16, reflect.Uint32, reflect.Uint64, reflect.Uintptr:
		w(h, "%d", v.Uint())
	case reflect.Float32, reflect.Float64:
		w(h, "%x", v.Float())
	case reflect.Complex64, reflect.Complex128:
		w(h, "%v", v.Complex())
	}
}
