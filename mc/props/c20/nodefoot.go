package c20

import (
	"bytes"
	"fmt"

	"github.com/ipld/go-ipld-prime/codec/dagcbor"
	"github.com/ipld/go-ipld-prime/codec/dagjson"
	"github.com/ipld/go-ipld-prime/datamodel"
	"github.com/ipld/go-ipld-prime/node/basicnode"
	"github.com/ipld/go-ipld-prime/schema"
	"github.com/ipld/go-ipld-prime/traversal"

	"verif/mc/core"
	"verif/mc/ref"
	"verif/mc/rs"
	"verif/mc/trav"
	"verif/mc/typed"
)

// Sharing a finished node between readers is race-free exactly when reading does not write to it
// (no locks in the library: static guard). This sweep decides that for the reflection binding over
// the schema families: every root type × every value of V(T) (capped per type, cap reported), built
// once, then read in every way — both views completely, encoded with both codecs, copied, compared,
// walked — with a deep fingerprint of the node (unexported fields and the bound Go value included)
// after every read. The generic nodes get the same treatment over the value universe.

type NodeCase struct {
	Impl   string  `json:"implementation"`
	Schema string  `json:"schema,omitempty"`
	Type   string  `json:"type,omitempty"`
	Value  ref.Val `json:"value"`
	Read   string  `json:"read"`
}

type readOp struct {
	name string
	run  func(n datamodel.Node)
}

func readOps() []readOp {
	walkSel, _ := trav.Rec(-1, trav.Un(trav.M(), trav.All(trav.Edge()))).Compile()
	repr := func(n datamodel.Node) datamodel.Node {
		if tn, ok := n.(schema.TypedNode); ok {
			return tn.Representation()
		}
		return n
	}
	return []readOp{
		{"read-type-level-view", func(n datamodel.Node) { ref.ObserveTyped(n) }},
		{"read-representation-view", func(n datamodel.Node) { ref.ObserveTyped(repr(n)) }},
		{"encode-dag-cbor", func(n datamodel.Node) { var b bytes.Buffer; dagcbor.Encode(repr(n), &b) }},
		{"encode-dag-json", func(n datamodel.Node) { var b bytes.Buffer; dagjson.Encode(repr(n), &b) }},
		{"copy-representation", func(n datamodel.Node) {
			nb := basicnode.Prototype.Any.NewBuilder()
			datamodel.Copy(repr(n), nb)
		}},
		{"copy-type-level", func(n datamodel.Node) {
			nb := basicnode.Prototype.Any.NewBuilder()
			datamodel.Copy(n, nb)
		}},
		{"deep-equal-self", func(n datamodel.Node) { datamodel.DeepEqual(n, n); datamodel.DeepEqual(repr(n), repr(n)) }},
		{"walk-all", func(n datamodel.Node) {
			traversal.WalkAdv(n, walkSel, func(traversal.Progress, datamodel.Node, traversal.VisitReason) error { return nil })
		}},
		{"assign-into-own-prototype-builder", func(n datamodel.Node) {
			nb := n.Prototype().NewBuilder()
			nb.AssignNode(n)
		}},
	}
}

func checkNodeFootprint(impl, schemaName, typeName string, v ref.Val, n datamodel.Node) (fs []core.Finding, cases []NodeCase, reads int) {
	fp0 := Fingerprint(n)
	for _, op := range readOps() {
		pan := core.Guard(func() { op.run(n) })
		reads++
		_ = pan // a read that panics is C01/C08's finding; what it left behind is checked here
		if fp := Fingerprint(n); fp != fp0 {
			fs = append(fs, core.F("node-footprint("+op.name+" writes a finished "+impl+" node)", "%s %s.%s value %s: %s changed the node (no synchronisation in the library): two goroutines reading it race on that memory", impl, schemaName, typeName, v, op.name))
			cases = append(cases, NodeCase{impl, schemaName, typeName, v, op.name})
			fp0 = fp
		}
	}
	return
}

const nodeFootCap = 60

func nodeFootprints(r *core.Run, quick bool) {
	eng := typed.NewBindEngine()
	type job struct {
		s *rs.Schema
		t *rs.Type
	}
	var jobs []job
	for _, s := range rs.Families(quick) {
		for _, tn := range s.Roots {
			jobs = append(jobs, job{s, s.T(tn)})
		}
	}
	var capped int64
	core.ParallelFor(len(jobs), func(i int) {
		s, t := jobs[i].s, jobs[i].t
		vals := s.Values(t, 0)
		if len(vals) > nodeFootCap {
			// the richest values come last
			vals = vals[len(vals)-nodeFootCap:]
			r.Add("node_footprint_types_capped", 1)
			_ = capped
		}
		var lc core.LocalCounters
		for _, v := range vals {
			var n datamodel.Node
			var err error
			if pan := core.Guard(func() {
				nb := eng.Proto(s, t.Name, false).NewBuilder()
				err = ref.Assign(nb, s.FeedType(t, v))
				if err == nil {
					n = nb.Build()
				}
			}); pan != "" || err != nil || n == nil {
				continue // a value the engine cannot build is C08's finding
			}
			fs, cases, reads := checkNodeFootprint("bindnode", s.Name, t.Name, v, n)
			lc.States++
			lc.Transitions += int64(reads)
			lc.Evals += int64(reads)
			lc.Traces++
			for j, f := range fs {
				r.Report("node", cases[j], []core.Finding{f})
			}
		}
		r.Merge(&lc)
	})
	// generic nodes over the small value universe
	var lc core.LocalCounters
	for _, v := range ref.Trees(3, ref.LeavesSmall()) {
		for _, impl := range []string{"basicnode", "foreign"} {
			var n datamodel.Node
			if impl == "basicnode" {
				n = ref.Basic(v)
			} else {
				n = ref.Node(v)
			}
			fs, cases, reads := checkNodeFootprint(impl, "", "", v, n)
			lc.States++
			lc.Transitions += int64(reads)
			lc.Evals += int64(reads)
			lc.Traces++
			for j, f := range fs {
				if impl == "foreign" {
					// the harness's own node implementation is the control: it must never be reported
					panic("harness: the control implementation is written by reads: " + f.Sig)
				}
				r.Report("node", cases[j], []core.Finding{f})
			}
		}
	}
	r.Merge(&lc)
	r.NontrivialN(lc.States)
	r.Set("node_footprints", map[string]any{"typed_root_types": len(jobs), "values_per_type_cap": nodeFootCap, "reads_per_node": len(readOps())})
	r.Outcome(fmt.Sprintf("node-footprints:%d-types", len(jobs)))
}

func replayNode(r *core.Run, c NodeCase) {
	if c.Schema == "" {
		n := ref.Basic(c.Value)
		fs, cases, _ := checkNodeFootprint(c.Impl, "", "", c.Value, n)
		for j, f := range fs {
			r.Report("node", cases[j], []core.Finding{f})
		}
		if len(fs) == 0 {
			r.Report("node", c, nil)
		}
		return
	}
	eng := typed.NewBindEngine()
	for _, s := range rs.Families(false) {
		if s.Name != c.Schema || s.T(c.Type) == nil {
			continue
		}
		t := s.T(c.Type)
		nb := eng.Proto(s, t.Name, false).NewBuilder()
		if err := ref.Assign(nb, s.FeedType(t, c.Value)); err != nil {
			continue
		}
		fs, cases, _ := checkNodeFootprint("bindnode", s.Name, t.Name, c.Value, nb.Build())
		for j, f := range fs {
			r.Report("node", cases[j], []core.Finding{f})
		}
		if len(fs) == 0 {
			r.Report("node", c, nil)
		}
	}
}
