package c20

import (
	"bytes"
	"encoding/json"
	"fmt"
	"go/ast"
	"go/parser"
	"go/token"
	"os"
	"os/exec"
	"path/filepath"
	"regexp"
	"sort"
	"strings"
	"sync"

	"github.com/ipld/go-ipld-prime/zzverif/vsched"

	"verif/mc/core"
)

type PairCase struct {
	Ops      []string `json:"ops"`
	Schedule []int    `json:"schedule,omitempty"`
}

func opByName(name string) Op {
	for _, o := range Ops() {
		if o.Name == name {
			return o
		}
	}
	panic("no op " + name)
}

func solo(op Op) (obs string, pan string) {
	ResetGlobals()
	w := NewWorld()
	pan = core.Guard(func() { obs = op.Run(w) })
	return
}

// ---- (b) write footprint ----

func footprint(r *core.Run) {
	for _, op := range Ops() {
		ResetGlobals()
		w := NewWorld()
		shared := w.Shared()
		shared["memstore(empty, shared)"] = &emptyStores.mem
		shared["cidlink.Memory(empty, shared)"] = &emptyStores.cid
		before := map[string]uint64{}
		for k, v := range shared {
			before[k] = Fingerprint(v)
		}
		syncBefore := vsched.SyncOps()
		pan := core.Guard(func() { op.Run(w) })
		synced := vsched.SyncOps() - syncBefore
		r.States.Add(1)
		r.Transitions.Add(1)
		r.Evals.Add(1)
		c := PairCase{Ops: []string{op.Name}}
		if pan != "" {
			r.Report("footprint", c, []core.Finding{core.F("solo-panic("+op.Name+")", "%s", pan)})
			continue
		}
		var changed []string
		for k, v := range shared {
			if Fingerprint(v) != before[k] {
				changed = append(changed, k)
			}
		}
		sort.Strings(changed)
		r.Outcome(fmt.Sprintf("footprint:%d-objects-written,synchronised=%v", len(changed), synced > 0))
		if synced > 0 {
			// the operation synchronises: whether its writes are protected is decided by (a) and (c), not here
			r.Add("footprint_abstained_operation_synchronises", 1)
			continue
		}
		for _, obj := range changed {
			r.Report("footprint", c, []core.Finding{core.F("footprint("+op.Name+" writes "+obj+")", "operation %s, run alone on shared objects, changed %s (no synchronisation in the library): two concurrent calls race on that memory", op.Name, obj)})
		}
	}
}

// ---- (a) interleavings at the hooked accessors ----

func runPair(a, b Op, schedule []int, soloObs map[string]string) (x *core.Execution, fs []core.Finding, points []string) {
	ResetGlobals()
	w := NewWorld()
	sc := core.NewSched()
	var mu sync.Mutex
	vsched.SetHooks(func(label string) {
		mu.Lock()
		points = append(points, label)
		mu.Unlock()
		sc.Point(label)
	}, func(label string, can func() bool) {
		mu.Lock()
		points = append(points, label)
		mu.Unlock()
		sc.PointIf(label, can)
	})
	defer vsched.SetHooks(nil, nil)
	res := make([]string, 2)
	bodies := []func(){func() { res[0] = a.Run(w) }, func() { res[1] = b.Run(w) }}
	x = sc.Run(schedule, bodies, 2000, nil, nil)
	name := a.Name + " ∥ " + b.Name
	for t, p := range x.Panics {
		fs = append(fs, core.F("schedule/panic("+[]Op{a, b}[t].Name+" while "+[]Op{a, b}[1-t].Name+"|"+core.Class(p)+")", "%s schedule %v: thread %d panicked: %s", name, x.Choices, t, p))
	}
	if x.Horizon {
		fs = append(fs, core.F("schedule/horizon("+name+")", "did not finish within the horizon"))
	}
	if x.Deadlock {
		fs = append(fs, core.F("schedule/deadlock("+name+")", "%s schedule %v: every unfinished thread waits on a lock", name, x.Choices))
	}
	if len(x.Panics) == 0 && !x.Horizon {
		for t, op := range []Op{a, b} {
			if res[t] != soloObs[op.Name] {
				fs = append(fs, core.F("schedule/result-differs("+op.Name+" while "+[]Op{a, b}[1-t].Name+")", "%s schedule %v: %s observed %s, alone it observes %s", name, x.Choices, op.Name, short(res[t]), short(soloObs[op.Name])))
			}
		}
	}
	return
}

func short(s string) string {
	if len(s) > 120 {
		return s[:120] + "…"
	}
	return s
}

func interleavings(r *core.Run, quick bool) {
	ops := Ops()
	soloObs := map[string]string{}
	for _, op := range ops {
		o, pan := solo(op)
		if pan != "" {
			o = "PANIC:" + pan
		}
		soloObs[op.Name] = o
	}
	bound := 2
	if !quick {
		bound = 3
	}
	var pairsWithPoints, totalSchedules int64
	hist := map[string]int64{}
	for i := range ops {
		for j := i; j < len(ops); j++ {
			a, b := ops[i], ops[j]
			var maxPoints int
			st := core.ExploreSchedules(bound, 5000, func(prefix []int) *core.Execution {
				x, fs, pts := runPair(a, b, prefix, soloObs)
				r.Traces.Add(1)
				if len(pts) > maxPoints {
					maxPoints = len(pts)
				}
				for _, p := range pts {
					hist[p]++
				}
				if len(fs) > 0 {
					r.Report("schedule", PairCase{[]string{a.Name, b.Name}, x.Choices}, fs)
				}
				return x
			}, func(*core.Execution) {})
			r.States.Add(st.Schedules)
			r.Transitions.Add(st.Steps)
			r.Evals.Add(st.Schedules)
			totalSchedules += st.Schedules
			if maxPoints > 0 {
				pairsWithPoints++
				r.NontrivialN(st.Schedules)
			}
			if st.Capped {
				r.Capped(fmt.Sprintf("pair %s/%s stopped at %d schedules", a.Name, b.Name, st.Schedules))
			}
		}
	}
	r.Set("interleaving", map[string]any{"pairs": len(ops) * (len(ops) + 1) / 2, "pairs_reaching_a_hook": pairsWithPoints, "schedules": totalSchedules, "preemption_bound": bound, "hook_hits": hist})
	// determinism: one recorded schedule replayed twice
	x0, _, _ := runPair(opByName("bind-wrap-inferred"), opByName("bind-wrap-inferred"), nil, soloObs)
	var alt []int
	for i, p := range x0.Points {
		if len(p.Enabled) > 1 {
			alt = append(append([]int{}, x0.Choices[:i]...), 1)
		}
	}
	x1, _, _ := runPair(opByName("bind-wrap-inferred"), opByName("bind-wrap-inferred"), alt, soloObs)
	x2, _, _ := runPair(opByName("bind-wrap-inferred"), opByName("bind-wrap-inferred"), x1.Choices, soloObs)
	if fmt.Sprint(x1.Choices, len(x1.Panics)) != fmt.Sprint(x2.Choices, len(x2.Panics)) {
		fmt.Fprintln(os.Stderr, "CHECK-BROKEN: replaying one schedule twice diverged")
		os.Exit(2)
	}
	r.Sample(PairCase{[]string{"bind-wrap-inferred", "bind-wrap-inferred"}, x1.Choices})
}

// ---- (c) free-running race-detector pass (separate -race binary, one subprocess per pair) ----

// RaceWorker runs, free-running in this race-instrumented process, op a against every op b ≥ a
// (2 and 8 goroutines × reps), announcing each pair on stderr so that reports can be attributed.
func RaceWorker(a string, _ string, _ int, reps int) {
	ops := Ops()
	ai := -1
	for i, o := range ops {
		if o.Name == a {
			ai = i
		}
	}
	for bi := ai; bi < len(ops); bi++ {
		for _, goroutines := range []int{2, 8} {
			fmt.Fprintf(os.Stderr, "\nPAIR %s %s %d\n", ops[ai].Name, ops[bi].Name, goroutines)
			for rep := 0; rep < reps; rep++ {
				ResetGlobals()
				w := NewWorld()
				var wg sync.WaitGroup
				start := make(chan struct{})
				for g := 0; g < goroutines; g++ {
					op := ops[ai]
					if g%2 == 1 {
						op = ops[bi]
					}
					wg.Add(1)
					go func() {
						defer wg.Done()
						defer func() { recover() }()
						<-start
						op.Run(w)
					}()
				}
				close(start)
				wg.Wait()
			}
		}
	}
	fmt.Fprintf(os.Stderr, "\nPAIR done done 0\n")
}

var frameRe = regexp.MustCompile(`(?m)^\s+(github\.com/ipld/go-ipld-prime/\S+)\(\)\s*$`)

// RaceSignature extracts a stable signature (package + receiver type of the two top library frames)
// and the text of the first race report in a race detector's output.
func RaceSignature(report string) (string, string) {
	i := strings.Index(report, "WARNING: DATA RACE")
	if i < 0 {
		return "", ""
	}
	blk := report[i:]
	if j := strings.Index(blk, "=================="); j > 0 {
		blk = blk[:j]
	}
	parts := strings.SplitN(blk, "\nPrevious ", 2)
	first := func(s string) string {
		for _, m := range frameRe.FindAllStringSubmatch(s, -1) {
			f := strings.TrimPrefix(m[1], "github.com/ipld/go-ipld-prime/")
			if !strings.HasPrefix(f, "zzverif") {
				// keep package + receiver type (or function): which accesses of the object happened to be
				// caught varies from run to run, the object does not
				f = strings.NewReplacer("(*", "", ")", "").Replace(f)
				if parts := strings.Split(f, "."); len(parts) >= 3 {
					f = strings.Join(parts[:len(parts)-1], ".")
				}
				return f
			}
		}
		return "?"
	}
	a := first(parts[0])
	b := "?"
	if len(parts) > 1 {
		sec := parts[1]
		if k := strings.Index(sec, "\nGoroutine "); k > 0 {
			sec = sec[:k]
		}
		b = first(sec)
	}
	fs := []string{a, b}
	sort.Strings(fs)
	return fs[0] + " × " + fs[1], blk
}

func racePass(r *core.Run, quick bool) {
	bin := filepath.Join(core.VerifDir, ".work", "bin", "mcrace")
	if _, err := os.Stat(bin); err != nil {
		fmt.Fprintf(os.Stderr, "CHECK-BROKEN: race-instrumented binary missing: %v\n", err)
		os.Exit(2)
	}
	ops := Ops()
	reps := 3
	if !quick {
		reps = 8
	}
	var races, pairs int64
	var mu sync.Mutex
	core.ParallelFor(len(ops), func(i int) {
		cmd := exec.Command(bin, "C20-race", ops[i].Name, "-", "0", fmt.Sprint(reps))
		cmd.Env = append(os.Environ(), "GORACE=halt_on_error=0")
		var stderr bytes.Buffer
		cmd.Stderr = &stderr
		err := cmd.Run()
		out := stderr.String()
		if !strings.Contains(out, "PAIR done done") {
			r.Report("race", PairCase{Ops: []string{ops[i].Name}}, []core.Finding{core.F("race-worker-failed("+ops[i].Name+")", "%v: %s", err, short(out))})
			return
		}
		sections := strings.Split(out, "\nPAIR ")
		for _, sec := range sections[1:] {
			nl := strings.Index(sec, "\n")
			if nl < 0 {
				continue
			}
			hdr := strings.Fields(sec[:nl])
			if len(hdr) < 3 || hdr[0] == "done" {
				continue
			}
			mu.Lock()
			pairs++
			mu.Unlock()
			r.Traces.Add(1)
			r.Transitions.Add(int64(reps))
			body := sec[nl:]
			for strings.Contains(body, "WARNING: DATA RACE") {
				sig, blk := RaceSignature(body)
				if sig == "" {
					break
				}
				mu.Lock()
				races++
				mu.Unlock()
				r.Report("race", PairCase{Ops: []string{hdr[0], hdr[1]}}, []core.Finding{core.F("race("+sig+")", "%s ∥ %s with %s goroutines: %s", hdr[0], hdr[1], hdr[2], strings.ReplaceAll(short(blk[:min(len(blk), 900)]), "\n", " | "))})
				body = body[strings.Index(body, "WARNING: DATA RACE")+10:]
			}
		}
		r.States.Add(1)
	})
	r.Set("race_pass", map[string]any{"pair_runs": pairs, "goroutine_counts": []int{2, 8}, "repetitions": reps, "race_reports": races})
	r.Outcome(fmt.Sprintf("race-pass:%d-pair-runs", pairs))
}

// ---- static guard: the premise "no synchronisation in the library" is re-established on each run ----

func staticGuard(r *core.Run) {
	var goStmts, chans, syncImports, files int
	var syncFiles []string
	filepath.Walk("/repo", func(p string, fi os.FileInfo, err error) error {
		if err != nil {
			return nil
		}
		if fi.IsDir() {
			b := fi.Name()
			if b == ".git" || b == "testutil" || b == "tests" || b == "gendemo" || b == "fluent" || b == ".ipld" {
				return filepath.SkipDir
			}
			return nil
		}
		if !strings.HasSuffix(p, ".go") || strings.HasSuffix(p, "_test.go") {
			return nil
		}
		fset := token.NewFileSet()
		f, err := parser.ParseFile(fset, p, nil, 0)
		if err != nil {
			return nil
		}
		if f.Name.Name == "main" {
			return nil
		}
		files++
		for _, imp := range f.Imports {
			if imp.Path.Value == `"sync"` || imp.Path.Value == `"sync/atomic"` {
				syncImports++
				syncFiles = append(syncFiles, strings.TrimPrefix(p, "/repo/"))
			}
		}
		ast.Inspect(f, func(n ast.Node) bool {
			switch n.(type) {
			case *ast.GoStmt:
				goStmts++
			case *ast.ChanType, *ast.SendStmt:
				chans++
			}
			return true
		})
		return nil
	})
	r.Set("static_guard", map[string]any{"library_files": files, "go_statements": goStmts, "channel_uses": chans, "sync_imports": syncImports, "files_importing_sync": syncFiles})
}

func Main(r *core.Run) {
	quick := r.Quick()
	ops := Ops()
	r.Rule(fmt.Sprintf("%d operations on shared objects (finished basicnode / bindnode typed+repr / generated typed+repr / reader-backed bytes nodes, a compiled selector, traversal.Config with fields set and unset, a TypeSystem, prototypes of each engine, the default codec registry, link systems over pre-filled read-only memstore and cidlink.Memory stores, never-initialised shared stores; bindings with explicit and inferred schemas): (a) every unordered pair incl. self-pairs under the cooperative scheduler, scheduling points inserted by the overlay rewriter at the entry of every method of schema.TypeSystem and multicodec.Registry, traversal Config/Progress init, the lazy initialisers of memstore and cidlink.Memory and bindnode's inferSchema — all schedules up to the preemption bound, each thread's result compared with its result alone; (b) each operation alone: deep fingerprints (unsafe reflection incl. unexported fields) of every shared object and of the package-level mutable state before/after; (b2) every selector of ≤5 (thorough: ≤6) clauses compiled once and used for walks and identity transforms over a set of graphs deep enough to exhaust its limits: fingerprint of the compiled selector after every use, visits of a repeated use; (b3) every root type of the schema families × its values (reflection binding), and the generic nodes over every tree ≤3 nodes: the finished node is read in nine ways with a fingerprint after each; (c) separate free-running -race binary: every unordered pair with 2 and 8 goroutines × repetitions, one subprocess each. Non-trivial = schedules of pairs that reach a hook; distinct by schedule.", len(ops)))
	r.Assume("interleavings are explored at hook granularity, not at every memory access; unsynchronised accesses outside the hooks are found by (b) (exhaustive over the alphabet, persistent writes only) and (c) (happens-before detector on free runs); memory-model effects are not modelled")
	staticGuard(r)
	footprint(r)
	selectorFootprints(r, quick)
	nodeFootprints(r, quick)
	interleavings(r, quick)
	racePass(r, quick)
}

func Replay(r *core.Run, mode string, raw json.RawMessage) {
	var c PairCase
	json.Unmarshal(raw, &c)
	switch mode {
	case "footprint":
		footprint(r)
	case "node":
		var nc NodeCase
		json.Unmarshal(raw, &nc)
		replayNode(r, nc)
	case "selector":
		var sc SelCase
		json.Unmarshal(raw, &sc)
		replaySelector(r, sc)
	case "schedule":
		soloObs := map[string]string{}
		for _, n := range c.Ops {
			o, _ := solo(opByName(n))
			soloObs[n] = o
		}
		_, fs, _ := runPair(opByName(c.Ops[0]), opByName(c.Ops[1]), c.Schedule, soloObs)
		r.Report("schedule", c, fs)
	case "race":
		racePass(r, true)
	}
}
