// Package c02: DAG-CBOR encoding is canonical, order-independent and round-trips.
package c02

import (
	"bytes"
	"encoding/json"
	"fmt"
	"strings"

	"github.com/ipld/go-ipld-prime/codec/cbor"
	"github.com/ipld/go-ipld-prime/codec/dagcbor"
	"github.com/ipld/go-ipld-prime/datamodel"
	"github.com/ipld/go-ipld-prime/node/basicnode"

	"verif/mc/core"
	"verif/mc/ref"
)

type Case struct {
	V    ref.Val `json:"value"`
	Impl string  `json:"impl"`
	Big  bool    `json:"big,omitempty"` // big containers: light observation only
}

func hasKind(v ref.Val, k ref.Kind) bool {
	if v.K == k {
		return true
	}
	for _, c := range v.L {
		if hasKind(c, k) {
			return true
		}
	}
	for _, e := range v.M {
		if hasKind(e.V, k) {
			return true
		}
	}
	return false
}

func boundaryClass(v ref.Val) string {
	n := -1
	switch v.K {
	case ref.KString, ref.KBytes:
		n = len(v.S)
	case ref.KList:
		n = len(v.L)
	case ref.KMap:
		n = len(v.M)
	case ref.KInt:
		u := uint64(v.I)
		if v.I < 0 {
			u = uint64(-1 - v.I)
		}
		return v.K.String() + "/" + widthClass(u)
	case ref.KUint:
		return "uint/w8"
	default:
		return v.K.String()
	}
	return v.K.String() + "/" + widthClass(uint64(n))
}

func widthClass(u uint64) string {
	switch {
	case u < 24:
		return "imm"
	case u < 1<<8:
		return "w1"
	case u < 1<<16:
		return "w2"
	case u < 1<<32:
		return "w4"
	}
	return "w8"
}

func firstDiffClass(v ref.Val, want, got []byte) string {
	// attribute the first differing byte to the kind of the top-level value for a coarse class
	return boundaryClass(v)
}

func Check(c Case) (fs []core.Finding, outcome string) {
	v := c.V
	want, werr := ref.CborEncode(v)
	n, berr := ref.ImplBuild(c.Impl, v)
	if berr != nil {
		return []core.Finding{core.F("harness/build("+c.Impl+")", "cannot build %s: %v", v, berr)}, "harness"
	}
	var buf bytes.Buffer
	var err error
	if p := core.Guard(func() { err = dagcbor.Encode(n, &buf) }); p != "" {
		return []core.Finding{core.F("encode/"+c.Impl+"/panic("+core.Class(p)+")", "value %s: %s", v, p)}, "panic"
	}
	if werr != nil {
		// outside the quantifier (non-finite float, undefined cid): only "no panic" is required
		if err == nil {
			return nil, "outside-domain-encoded"
		}
		return nil, "outside-domain-refused"
	}
	if err != nil {
		return []core.Finding{core.F("encode/"+c.Impl+"/error("+core.Class(err.Error())+")", "value %s: %v", v, err)}, "bad"
	}
	got := buf.Bytes()
	if !bytes.Equal(got, want) {
		cause := "bytes≠canonical(" + firstDiffClass(v, want, got) + ")"
		if len(got) == len(want) && v.K == ref.KMap || hasKind(v, ref.KMap) && len(got) == len(want) {
			cause = "key-order≠canonical"
		}
		fs = append(fs, core.F("encode/"+c.Impl+"/"+cause, "value %s: got %x want %x", v, trunc(got), trunc(want)))
	}
	// the plain cbor codec (same encoder, no links, no key sorting) must produce the same items in insertion order
	if !hasKind(v, ref.KLink) {
		wantRaw, _ := ref.CborEncodeRaw(v)
		var b2 bytes.Buffer
		var e2 error
		if p := core.Guard(func() { e2 = cbor.Encode(n, &b2) }); p != "" || e2 != nil || !bytes.Equal(b2.Bytes(), wantRaw) {
			fs = append(fs, core.F("encode-cbor/"+c.Impl+"/differs", "value %s: panic=%q err=%v got %x want %x", v, p, e2, trunc(b2.Bytes()), trunc(wantRaw)))
		}
	}
	// predicted length
	var el int64
	var elerr error
	if p := core.Guard(func() { el, elerr = dagcbor.EncodedLength(n) }); p != "" {
		fs = append(fs, core.F("encodedlength/"+c.Impl+"/panic", "value %s: %s", v, p))
	} else if elerr != nil {
		fs = append(fs, core.F("encodedlength/"+c.Impl+"/error("+lenClass(v)+")", "value %s: EncodedLength error %v but Encode produced %d bytes", v, elerr, len(got)))
	} else if el != int64(len(got)) {
		fs = append(fs, core.F("encodedlength/"+c.Impl+"/≠len("+lenClass(v)+")", "value %s: EncodedLength=%d, Encode produced %d bytes", v, el, len(got)))
	}
	// decode back: library decoder and reference decoder
	canon := ref.SortMaps(v, ref.LessLenFirst)
	nb := basicnode.Prototype.Any.NewBuilder()
	var derr error
	if p := core.Guard(func() { derr = dagcbor.Decode(nb, bytes.NewReader(got)) }); p != "" {
		fs = append(fs, core.F("roundtrip/decode-panic", "value %s bytes %x: %s", v, trunc(got), p))
	} else if derr != nil {
		fs = append(fs, core.F("roundtrip/decode-error("+core.Class(derr.Error())+")", "value %s bytes %x: %v", v, trunc(got), derr))
	} else {
		var back ref.Val
		var pm string
		if c.Big {
			back, pm = ref.Read1(nb.Build())
		} else {
			var incs []ref.Inc
			back, incs = ref.Observe(nb.Build())
			if len(incs) > 0 {
				pm = incs[0].Cause + ": " + incs[0].Detail
			}
		}
		if pm != "" {
			fs = append(fs, core.F("roundtrip/decoded-node-inconsistent", "value %s: %s", v, pm))
		} else if !ref.Equal(back, canon) {
			fs = append(fs, core.F("roundtrip/differs("+v.K.String()+")", "value %s: decoded %s, want %s", v, back, canon))
		}
	}
	if rv, rej := ref.CborDecode(got, false); rej != nil {
		fs = append(fs, core.F("encode/"+c.Impl+"/not-strict-dagcbor:"+rej.Reason, "value %s: bytes %x rejected by reference decoder: %v", v, trunc(got), rej))
	} else if !ref.Equal(rv, canon) {
		fs = append(fs, core.F("encode/"+c.Impl+"/denotes-other-value", "value %s: bytes %x denote %s", v, trunc(got), rv))
	}
	return fs, "ok:" + boundaryClass(v)
}

func lenClass(v ref.Val) string {
	if hasKind(v, ref.KUint) {
		return "uint>int64"
	}
	return boundaryClass(v)
}

func trunc(b []byte) []byte {
	if len(b) > 48 {
		return b[:48]
	}
	return b
}

func permute(m []ref.Entry, p []int) []ref.Entry {
	o := make([]ref.Entry, len(m))
	for i, j := range p {
		o[i] = m[j]
	}
	return o
}

// PermutedMaps: every permutation of every key set of size ≤ maxK from keys; values distinct ints.
func PermutedMaps(keys []string, maxK int) []ref.Val {
	var out []ref.Val
	for k := 1; k <= maxK; k++ {
		for _, sub := range ref.Subsets(len(keys), k) {
			base := make([]ref.Entry, k)
			for i, idx := range sub {
				base[i] = ref.E(keys[idx], ref.Int(int64(i)))
			}
			for _, p := range ref.Permutations(k) {
				out = append(out, ref.Val{K: ref.KMap, M: permute(base, p)})
			}
		}
	}
	return out
}

// WideContainers: containers with more than 1024 entries whose entries are themselves containers
// (width must not count as depth: decoders bound nesting at 1024 by default), at the top and one level down.
func WideContainers() []ref.Val {
	var out []ref.Val
	for _, n := range []int{1023, 1024, 1025, 1100} {
		l, m := ref.List(), ref.Map()
		for i := 0; i < n; i++ {
			switch i % 3 {
			case 0:
				l.L = append(l.L, ref.Map())
			case 1:
				l.L = append(l.L, ref.List(ref.Int(int64(i))))
			default:
				l.L = append(l.L, ref.Int(int64(i)))
			}
			m.M = append(m.M, ref.E(fmt.Sprintf("k%04d", i), ref.List()))
		}
		l.L[n-1] = ref.Map(ref.E("last", ref.List(ref.Map())))
		out = append(out, l, ref.List(ref.Int(0), l), m)
	}
	return out
}

func bigString(n int) string { return strings.Repeat("k", n) }

// Universe builds the list of cases for the tier.
func Universe(quick bool) []Case {
	var vals []ref.Val
	n, permK := 4, 4
	if !quick {
		n, permK = 6, 5
	}
	vals = append(vals, ref.Trees(n, ref.LeavesSmall())...)
	vals = append(vals, ref.Sweep(append(append(ref.ScalarsFull(), ref.UintsBig()...), ref.FloatsNonFinite()...))...)
	vals = append(vals, ref.Link("")) // undefined CID: outside the quantifier, must not panic
	vals = append(vals, PermutedMaps(ref.ComparatorKeys, permK)...)
	// nested: a permuted map inside a permuted map
	nestKeys := []string{"a", "b", "aa", "B", ""}
	inner := PermutedMaps(nestKeys, 3)
	outerK := 2
	if !quick {
		outerK = 3
	}
	for _, o := range PermutedMaps(nestKeys, outerK) {
		for pos := range o.M {
			for _, in := range inner {
				m := append([]ref.Entry(nil), o.M...)
				m[pos] = ref.Entry{K: m[pos].K, V: in}
				vals = append(vals, ref.Val{K: ref.KMap, M: m})
			}
		}
	}
	var cases []Case
	// every non-negative integer of the sweep once more held by basicnode's uint-backed node
	for _, v := range ref.Sweep(ref.IntsFull()) {
		if ref.HasNonNegInt(v) {
			cases = append(cases, Case{V: v, Impl: "basic-newuint"})
		}
	}
	// every bytes value of the sweep once more held by basicnode's reader-backed bytes node (a node that
	// is read more than once per check: length, encode, observation)
	for _, v := range ref.Sweep(bytesVals()) {
		if ref.HasBytes(v) {
			cases = append(cases, Case{V: v, Impl: "basic-readerbytes"})
			if v.K == ref.KBytes {
				cases = append(cases, Case{V: v, Impl: "basic-bytes-proto-of-reader"})
			}
		}
	}
	for _, v := range vals {
		for _, impl := range ref.GenericImpls {
			if hasKind(v, ref.KUint) && impl == "basic-kind" && v.K == ref.KUint {
				continue // Prototype.Int builder has no AssignUint; uint comes only via AssignNode on Any
			}
			cases = append(cases, Case{V: v, Impl: impl})
		}
	}
	// container and string length boundaries
	for _, ln := range []int{23, 24, 255, 256, 65535, 65536} {
		l := ref.List()
		m := ref.Map()
		for i := 0; i < ln; i++ {
			l.L = append(l.L, ref.Int(int64(i%3)))
			m.M = append(m.M, ref.E(fmt.Sprintf("%05d", (i*7919)%ln), ref.Null()))
		}
		big := ln > 300
		for _, v := range []ref.Val{l, m, ref.Str(bigString(ln)), ref.Bytes(bigString(ln)), ref.Map(ref.E(bigString(ln), ref.Int(1)), ref.E("a", ref.Int(2)))} {
			cases = append(cases, Case{V: v, Impl: "basic-any", Big: big})
			if !big || v.K == ref.KString || v.K == ref.KBytes {
				cases = append(cases, Case{V: v, Impl: "refnode", Big: big})
			}
		}
	}
	for _, v := range WideContainers() {
		cases = append(cases, Case{V: v, Impl: "basic-any", Big: true})
	}
	// a CID of 65535 bytes: the byte string that carries it is the first to need a 4-byte length
	cases = append(cases, Case{V: ref.Link(ref.MkIdentityCid(65529)), Impl: "basic-any", Big: true}, Case{V: ref.List(ref.Link(ref.MkIdentityCid(65528)), ref.Link(ref.MkIdentityCid(65530))), Impl: "basic-any", Big: true})
	return cases
}

func Main(r *core.Run) {
	cases := Universe(r.Quick())
	r.Rule("every tree ≤4 (quick) / ≤6 (thorough) nodes over 13 leaves; every alphabet scalar at every position kind; every permutation of every key set ≤4 (thorough: ≤5) of an 11-key comparator-stress alphabet; permuted map nested in permuted map; every head boundary for ints and string/bytes/list/map lengths; × implementations {basicnode Any, basicnode kind prototypes, foreign refnode}; Go values bound by bindnode (uint64 in lists, maps and behind pointers; all integer widths) through their representation node. Non-trivial = value containing a map with ≥2 entries, or a scalar/length at a head boundary ≥24; distinct by (canonical value, insertion order, implementation).")
	r.Assume("reference canonical encoder mc/ref/refcbor.go (written from the DAG-CBOR spec statement in the property)")
	core.ParallelFor(len(cases), func(i int) {
		c := cases[i]
		fs, outcome := Check(c)
		r.States.Add(1)
		r.Transitions.Add(4) // encode, encodedlength, decode, reference decode
		r.Traces.Add(1)
		r.Evals.Add(1)
		r.Outcome(outcome)
		if nontrivial(c.V) {
			r.Nontrivial(c.Impl + "|" + shortKey(c.V))
		}
		r.Report("value", c, fs)
	})
	boundValues(r)
	histories(r)
	var hv []ref.Val
	for _, c := range cases {
		if c.Impl == "basic-any" && !c.Big {
			hv = append(hv, c.V)
		}
	}
	RunHelpers(r, "dag-cbor", dagcbor.Encode, dagcbor.Decode, hv)
	r.Sample(map[string]any{"value": cases[len(cases)/2].V.String(), "impl": cases[len(cases)/2].Impl})
	r.Sample(map[string]any{"value": cases[len(cases)/3].V.String(), "impl": cases[len(cases)/3].Impl})
	r.Set("cases", len(cases))
}

func shortKey(v ref.Val) string {
	k := v.Key()
	if len(k) > 200 {
		return fmt.Sprintf("%s…%d", k[:100], len(k))
	}
	return k
}

func nontrivial(v ref.Val) bool {
	if v.K == ref.KMap && len(v.M) >= 2 {
		return true
	}
	if c := boundaryClass(v); strings.HasSuffix(c, "/w1") || strings.HasSuffix(c, "/w2") || strings.HasSuffix(c, "/w4") || strings.HasSuffix(c, "/w8") {
		return true
	}
	for _, c := range v.L {
		if nontrivial(c) {
			return true
		}
	}
	for _, e := range v.M {
		if nontrivial(e.V) || len(e.K) >= 24 {
			return true
		}
	}
	return false
}

func Replay(r *core.Run, raw json.RawMessage) {
	var hc HCase
	if json.Unmarshal(raw, &hc) == nil && hc.Fault != "" {
		r.Report("history", hc, CheckHistory(hc))
		return
	}
	var hp HelperCase
	if json.Unmarshal(raw, &hp) == nil && hp.Codec != "" {
		r.Report("helpers", hp, CheckHelpers(hp.Codec, dagcbor.Encode, dagcbor.Decode, hp.V))
		return
	}
	var bc BoundCase
	if json.Unmarshal(raw, &bc) == nil && bc.Type != "" {
		r.Report("bound", bc, CheckBound(bc))
		return
	}
	var c Case
	if err := json.Unmarshal(raw, &c); err != nil {
		panic(err)
	}
	fs, _ := Check(c)
	r.Report("value", c, fs)
}

var _ datamodel.Node

func bytesVals() []ref.Val {
	var out []ref.Val
	for _, b := range ref.BytesFull() {
		out = append(out, ref.Bytes(b))
	}
	return out
}
