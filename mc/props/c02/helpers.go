package c02

import (
	"bytes"
	"fmt"

	ipld "github.com/ipld/go-ipld-prime"
	"github.com/ipld/go-ipld-prime/codec"
	"github.com/ipld/go-ipld-prime/datamodel"
	"github.com/ipld/go-ipld-prime/node/basicnode"

	"verif/mc/core"
	"verif/mc/ref"
)

// The convenience functions of the root package (ipld.Encode / EncodeStreaming / Decode /
// DecodeStreaming / DecodeUsingPrototype / DecodeStreamingUsingPrototype) are one more way to run a
// codec: they must give what the codec function gives when called directly — the same bytes, the
// same value, the same verdict on trailing bytes — and a result handed out earlier must not change
// when the helper is used again.

type HelperCase struct {
	Codec string  `json:"codec"`
	V     ref.Val `json:"value"`
}

func CheckHelpers(name string, enc codec.Encoder, dec codec.Decoder, v ref.Val) (fs []core.Finding) {
	n := ref.Basic(v)
	var direct bytes.Buffer
	if err := enc(n, &direct); err != nil {
		return nil
	}
	want := direct.Bytes()
	site := "helpers/" + name
	pan := core.Guard(func() {
		h1, err := ipld.Encode(n, enc)
		if err != nil || !bytes.Equal(h1, want) {
			fs = append(fs, core.F(site+"/Encode/differs-from-direct", "value %s: ipld.Encode gives %x (err %v), the encoder gives %x", v, h1, err, want))
		}
		var w bytes.Buffer
		if err := ipld.EncodeStreaming(&w, n, enc); err != nil || !bytes.Equal(w.Bytes(), want) {
			fs = append(fs, core.F(site+"/EncodeStreaming/differs-from-direct", "value %s: gives %x (err %v), the encoder gives %x", v, w.Bytes(), err, want))
		}
		// a later use of the helper leaves an earlier result alone
		ipld.Encode(ref.Basic(ref.List(ref.Str("another value, long enough to overwrite a reused buffer ........................"))), enc)
		if !bytes.Equal(h1, want) && err == nil && len(fs) == 0 {
			fs = append(fs, core.F(site+"/Encode/earlier-result-changed-by-later-call", "value %s: the slice ipld.Encode returned reads %x after another Encode", v, h1))
		}
		// decoding
		read := func(nd datamodel.Node, err error) string {
			if err != nil {
				return "error"
			}
			got, _ := ref.Read1(nd)
			return got.Key()
		}
		nb := basicnode.Prototype.Any.NewBuilder()
		derr := dec(nb, bytes.NewReader(want))
		var dn datamodel.Node
		if derr == nil {
			dn = nb.Build()
		}
		base := read(dn, derr)
		for _, in := range [][]byte{want, append(append([]byte(nil), want...), 0x00), want[:len(want)/2]} {
			exp := base
			if !bytes.Equal(in, want) {
				nb := basicnode.Prototype.Any.NewBuilder()
				e := dec(nb, bytes.NewReader(in))
				var x datamodel.Node
				if e == nil {
					x = nb.Build()
				}
				exp = read(x, e)
			}
			for hn, got := range map[string]string{
				"Decode":                        read(ipld.Decode(in, dec)),
				"DecodeStreaming":               read(ipld.DecodeStreaming(bytes.NewReader(in), dec)),
				"DecodeUsingPrototype":          read(ipld.DecodeUsingPrototype(in, dec, basicnode.Prototype.Any)),
				"DecodeStreamingUsingPrototype": read(ipld.DecodeStreamingUsingPrototype(bytes.NewReader(in), dec, basicnode.Prototype.Any)),
			} {
				if got != exp {
					what := "the encoding"
					if len(in) > len(want) {
						what = "the encoding plus one byte"
					} else if len(in) < len(want) {
						what = "half of the encoding"
					}
					fs = append(fs, core.F(site+"/"+hn+"/differs-from-direct", "value %s, input %s (%x): helper gives %s, the decoder gives %s", v, what, in, short(got), short(exp)))
				}
			}
		}
	})
	if pan != "" {
		fs = append(fs, core.F(site+"/panic("+core.Class(pan)+")", "value %s: %s", v, pan))
	}
	return fs
}

func short(s string) string {
	if len(s) > 120 {
		return fmt.Sprintf("%s…(%d)", s[:120], len(s))
	}
	return s
}

// RunHelpers runs CheckHelpers over vals.
func RunHelpers(r *core.Run, name string, enc codec.Encoder, dec codec.Decoder, vals []ref.Val) {
	core.ParallelFor(len(vals), func(i int) {
		c := HelperCase{name, vals[i]}
		fs := CheckHelpers(name, enc, dec, vals[i])
		r.States.Add(1)
		r.Transitions.Add(15)
		r.Evals.Add(1)
		r.Traces.Add(1)
		r.Report("helpers", c, fs)
	})
	r.Outcome("helpers:" + name)
	r.Set("helper_values_"+name, len(vals))
}
