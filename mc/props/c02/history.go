package c02

import (
	"bytes"
	"errors"
	"fmt"

	"github.com/ipld/go-ipld-prime/codec/dagcbor"
	"github.com/ipld/go-ipld-prime/datamodel"

	"verif/mc/core"
	"verif/mc/ref"
)

// The encoding is a function of the value alone — also of nothing that happened before. Histories of
// two encodes on one goroutine: the first into a writer that fails (error, or short write) at its
// k-th Write, or of a node that fails or panics in the middle of being read; the second, of another
// value, into a good writer. Its output must be byte-for-byte what it is as the only encode.

type HCase struct {
	First  ref.Val `json:"first_value"`
	Fault  string  `json:"fault"` // write-error, short-write, node-panics
	At     int     `json:"at"`
	Second ref.Val `json:"second_value"`
}

type failingWriter struct {
	n, at int
	short bool
}

func (w *failingWriter) Write(p []byte) (int, error) {
	w.n++
	if w.n-1 == w.at {
		if w.short && len(p) > 1 {
			return len(p) / 2, errors.New("short write")
		}
		return 0, errors.New("write failed")
	}
	return len(p), nil
}

type panickyNode struct {
	datamodel.Node
	left *int
}

func (n panickyNode) MapIterator() datamodel.MapIterator {
	return &panickyIter{n.Node.MapIterator(), n.left}
}

type panickyIter struct {
	datamodel.MapIterator
	left *int
}

func (it *panickyIter) Next() (datamodel.Node, datamodel.Node, error) {
	if *it.left == 0 {
		panic("harness: node gives up")
	}
	*it.left--
	return it.MapIterator.Next()
}

func CheckHistory(c HCase) (fs []core.Finding) {
	var alone bytes.Buffer
	if err := dagcbor.Encode(ref.Basic(c.Second), &alone); err != nil {
		return nil
	}
	done := make(chan []core.Finding, 1)
	// one goroutine for both encodes (what is per-goroutine or per-P stays where it is)
	go func() {
		var out []core.Finding
		core.Guard(func() {
			switch c.Fault {
			case "node-panics":
				left := c.At
				dagcbor.Encode(panickyNode{ref.Basic(c.First), &left}, &bytes.Buffer{})
			default:
				dagcbor.Encode(ref.Basic(c.First), &failingWriter{at: c.At, short: c.Fault == "short-write"})
			}
		})
		var got bytes.Buffer
		err := dagcbor.Encode(ref.Basic(c.Second), &got)
		if err != nil || !bytes.Equal(got.Bytes(), alone.Bytes()) {
			out = append(out, core.F("history/encode-after-"+c.Fault+"/output-differs", "after an encode of %s that met %s at %d, the encode of %s gives %x (err %v); alone it gives %x", c.First, c.Fault, c.At, c.Second, got.Bytes(), err, alone.Bytes()))
		}
		done <- out
	}()
	return <-done
}

func histories(r *core.Run) {
	firsts := []ref.Val{
		ref.Map(ref.E("alpha", ref.Int(1)), ref.E("beta", ref.List(ref.Str("x"), ref.Str("gamma")))),
		ref.List(ref.Str("beta"), ref.Str("gamma"), ref.Bytes("\x01\x02")),
		ref.Str("a long enough string to be written in one piece"),
	}
	seconds := []ref.Val{ref.Map(ref.E("b", ref.Int(2)), ref.E("a", ref.Float(1.5))), ref.List(), ref.Int(7)}
	n := 0
	for _, f := range firsts {
		for _, fault := range []string{"write-error", "short-write", "node-panics"} {
			for at := 0; at < 6; at++ {
				if fault == "node-panics" && (f.K != ref.KMap || at > 2) {
					continue
				}
				for _, s := range seconds {
					c := HCase{f, fault, at, s}
					fs := CheckHistory(c)
					n++
					r.States.Add(1)
					r.Transitions.Add(2)
					r.Traces.Add(1)
					r.Evals.Add(1)
					r.NontrivialN(1)
					r.Report("history", c, fs)
				}
			}
		}
	}
	r.Set("encode_histories", n)
	r.Outcome(fmt.Sprintf("encode-histories:%d", n))
}
