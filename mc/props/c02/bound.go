package c02

import (
	"bytes"
	"fmt"

	"github.com/ipld/go-ipld-prime/codec/dagcbor"
	"github.com/ipld/go-ipld-prime/node/bindnode"

	"verif/mc/core"
	"verif/mc/props/c19"
	"verif/mc/ref"
)

// "whichever node implementation holds the value": Go values bound by the reflection binding (uint64
// in lists, maps and behind pointers, every integer width, floats, bytes) encoded through their
// representation node, compared with the reference encoding of the same abstract value.

type BoundCase struct {
	Type  string `json:"go_type"`
	Index int    `json:"value_index"`
}

func dropAbsent(v ref.Val) ref.Val {
	switch v.K {
	case ref.KList:
		o := ref.List()
		for _, c := range v.L {
			o.L = append(o.L, dropAbsent(c))
		}
		return o
	case ref.KMap:
		o := ref.Map()
		for _, e := range v.M {
			if e.V.K != ref.KAbsent {
				o.M = append(o.M, ref.Entry{K: e.K, V: dropAbsent(e.V)})
			}
		}
		return o
	}
	return v
}

// types whose representation is their type-level view without the absent fields
var boundTypes = []string{"UintBag", "Scalars", "Widths", "OMap"}

func CheckBound(c BoundCase) (fs []core.Finding) {
	e := c19.Find(c.Type)
	v := e.Values()[c.Index]
	want := dropAbsent(e.View(v))
	if c.Type == "OMap" {
		return nil // (its inner struct has a tuple representation: not its type-level view)
	}
	wantBytes, err := ref.CborEncode(want)
	if err != nil {
		return nil
	}
	where := fmt.Sprintf("bound Go value %s #%d %s", c.Type, c.Index, want)
	var buf bytes.Buffer
	var eerr error
	var ln int64
	var lerr error
	pan := core.Guard(func() {
		n := bindnode.Wrap(v, c19.TypeSystem().TypeByName(c.Type))
		eerr = dagcbor.Encode(n.Representation(), &buf)
		ln, lerr = dagcbor.EncodedLength(n.Representation())
	})
	switch {
	case pan != "":
		fs = append(fs, core.F("encode/bindnode/panic("+core.Class(pan)+")", "%s: %s", where, pan))
	case eerr != nil:
		fs = append(fs, core.F("encode/bindnode/error("+core.Class(eerr.Error())+")", "%s: %v", where, eerr))
	case !bytes.Equal(buf.Bytes(), wantBytes):
		fs = append(fs, core.F("encode/bindnode/bytes≠canonical", "%s: got %x, canonical %x", where, buf.Bytes(), wantBytes))
	case lerr != nil || ln != int64(len(wantBytes)):
		fs = append(fs, core.F("encodedlength/bindnode/≠len", "%s: EncodedLength=%d (err %v), Encode produced %d bytes", where, ln, lerr, len(wantBytes)))
	}
	return
}

func boundValues(r *core.Run) {
	n := 0
	for _, tn := range boundTypes {
		for i := range c19.Find(tn).Values() {
			c := BoundCase{tn, i}
			fs := CheckBound(c)
			n++
			r.States.Add(1)
			r.Transitions.Add(2)
			r.Traces.Add(1)
			r.Evals.Add(1)
			r.Report("bound", c, fs)
		}
	}
	r.Set("bound_go_values", n)
	r.Outcome("bound-go-values")
}
