package c07

import (
	"bytes"
	"fmt"

	"github.com/ipld/go-ipld-prime/codec/dagjson"
	"github.com/ipld/go-ipld-prime/datamodel"
	"github.com/ipld/go-ipld-prime/node/basicnode"
	"github.com/ipld/go-ipld-prime/traversal/selector"
	"github.com/ipld/go-ipld-prime/traversal/selector/builder"
	selectorparse "github.com/ipld/go-ipld-prime/traversal/selector/parse"

	"verif/mc/core"
	"verif/mc/ref"
	"verif/mc/trav"
)

// The two convenience layers over selector specifications: the spec builder must produce the
// specification the selector has (same tree up to the order of map entries), the JSON helpers must
// return the tree their text holds and fail exactly when compilation of that tree fails, and the
// pre-parsed common selectors must be the selectors their names say.

type SpecCase struct {
	Sel  *trav.Sel `json:"selector"`
	Text string    `json:"selector_text"`
}

func CheckSpecHelpers(s *trav.Sel) (fs []core.Finding) {
	where := "selector " + s.String()
	want := ref.SortMaps(s.Spec(), ref.LessBytewise)
	dup := false
	var scan func(x *trav.Sel)
	scan = func(x *trav.Sel) {
		if x == nil {
			return
		}
		seen := map[string]bool{}
		for _, f := range x.Fields {
			if seen[f.Name] {
				dup = true
			}
			seen[f.Name] = true
			scan(f.S)
		}
		for _, m := range x.Members {
			scan(m)
		}
		scan(x.Next)
	}
	scan(s)
	if !dup {
		var n datamodel.Node
		ok := true
		pan := core.Guard(func() {
			var spec builder.SelectorSpec
			spec, ok = s.BuilderSpec(builder.NewSelectorSpecBuilder(basicnode.Prototype.Any))
			if ok {
				n = spec.Node()
			}
		})
		switch {
		case pan != "":
			fs = append(fs, core.F("spec-builder/panic("+core.Class(pan)+")", "%s: %s", where, pan))
		case ok:
			got, _ := ref.Read1(n)
			if !ref.Equal(ref.SortMaps(got, ref.LessBytewise), want) {
				fs = append(fs, core.F("spec-builder/specification-differs", "%s: the builder gives %s, the specification is %s", where, got, s.Spec()))
			}
		}
	}
	// JSON helpers
	var buf bytes.Buffer
	if err := dagjson.Encode(ref.Basic(s.Spec()), &buf); err != nil {
		return fs
	}
	_, cerr := selector.CompileSelector(ref.Basic(s.Spec()))
	pan := core.Guard(func() {
		n, err := selectorparse.ParseJSONSelector(buf.String())
		if (err == nil) != (cerr == nil) {
			fs = append(fs, core.F("json-helper/verdict-differs(ParseJSONSelector)", "%s: text %s: helper err %v, compiling the tree: %v", where, buf.String(), err, cerr))
		} else if err == nil {
			got, _ := ref.Read1(n)
			if !ref.Equal(ref.SortMaps(got, ref.LessBytewise), want) {
				fs = append(fs, core.F("json-helper/tree-differs(ParseJSONSelector)", "%s: text %s parsed to %s", where, buf.String(), got))
			}
		}
		_, err2 := selectorparse.ParseAndCompileJSONSelector(buf.String())
		if (err2 == nil) != (cerr == nil) {
			fs = append(fs, core.F("json-helper/verdict-differs(ParseAndCompileJSONSelector)", "%s: text %s: helper err %v, compiling the tree: %v", where, buf.String(), err2, cerr))
		}
	})
	if pan != "" {
		fs = append(fs, core.F("json-helper/panic("+core.Class(pan)+")", "%s: %s", where, pan))
	}
	return fs
}

func specHelpers(r *core.Run, sets ...[]*trav.Sel) {
	seen := map[string]bool{}
	var all []*trav.Sel
	for _, ss := range sets {
		for _, s := range ss {
			if k := s.String(); !seen[k] {
				seen[k] = true
				all = append(all, s)
			}
		}
	}
	core.ParallelFor(len(all), func(i int) {
		fs := CheckSpecHelpers(all[i])
		r.States.Add(1)
		r.Transitions.Add(3)
		r.Evals.Add(1)
		r.Traces.Add(1)
		r.Report("spec-helpers", SpecCase{all[i], all[i].String()}, fs)
	})
	// the pre-parsed common selectors
	for _, c := range []struct {
		name string
		n    datamodel.Node
		want *trav.Sel
	}{
		{"CommonSelector_MatchPoint", selectorparse.CommonSelector_MatchPoint, trav.M()},
		{"CommonSelector_MatchChildren", selectorparse.CommonSelector_MatchChildren, trav.All(trav.M())},
		{"CommonSelector_ExploreAllRecursively", selectorparse.CommonSelector_ExploreAllRecursively, trav.Rec(-1, trav.All(trav.Edge()))},
		{"CommonSelector_MatchAllRecursively", selectorparse.CommonSelector_MatchAllRecursively, trav.Rec(-1, trav.Un(trav.M(), trav.All(trav.Edge())))},
	} {
		got, _ := ref.Read1(c.n)
		if !ref.Equal(ref.SortMaps(got, ref.LessBytewise), ref.SortMaps(c.want.Spec(), ref.LessBytewise)) {
			r.Report("spec-helpers", SpecCase{c.want, c.name}, []core.Finding{core.F("common-selector/differs("+c.name+")", "%s is %s, its documentation says %s", c.name, got, c.want.Spec())})
		}
		r.States.Add(1)
		r.Transitions.Add(1)
	}
	r.Outcome("spec-helpers")
	r.Set("spec_helper_selectors", fmt.Sprint(len(all)))
}
