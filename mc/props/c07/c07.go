// Package c07: a selector walk visits exactly what the selector denotes, in document order.
package c07

import (
	"encoding/json"
	"fmt"
	"strings"

	"verif/mc/core"
	"verif/mc/ref"
	"verif/mc/trav"
)

type Case struct {
	Graph trav.GraphSpec `json:"graph"`
	Sel   *trav.Sel      `json:"selector"`
	Text  string         `json:"selector_text"`
}

// edgeDistances: the set of step counts after which x reaches an edge bound to the enclosing recursion.
func edgeDistances(x *trav.Sel, d int, out map[int]bool) {
	switch x.Op {
	case "@":
		out[d] = true
	case "R":
		return // edges below belong to the nested recursion
	case "|":
		for _, m := range x.Members {
			edgeDistances(m, d, out)
		}
	case "f":
		for _, f := range x.Fields {
			edgeDistances(f.S, d+1, out)
		}
	default:
		if x.Next != nil {
			edgeDistances(x.Next, d+1, out)
		}
	}
}

// unevenUnion: some union under a recursion reaches that recursion's edges after different numbers
// of steps in different branches (the territory of the recorded merged-depth-counter finding).
func unevenUnion(s *trav.Sel) bool {
	found := false
	var walk func(x *trav.Sel, inR bool)
	walk = func(x *trav.Sel, inR bool) {
		if x.Op == "|" && inR {
			d := map[int]bool{}
			edgeDistances(x, 0, d)
			if len(d) >= 2 {
				found = true
			}
		}
		if x.Op == "R" {
			inR = true
		}
		if x.Next != nil {
			walk(x.Next, inR)
		}
		for _, f := range x.Fields {
			walk(f.S, inR)
		}
		for _, m := range x.Members {
			walk(m, inR)
		}
	}
	walk(s, false)
	return found
}

func features(s *trav.Sel) string {
	if unevenUnion(s) {
		return "uneven-edge-union-in-recursion"
	}
	var unionInR, union, rec, nestedR bool
	var walk func(x *trav.Sel, inR bool)
	walk = func(x *trav.Sel, inR bool) {
		switch x.Op {
		case "|":
			union = true
			if inR {
				unionInR = true
			}
		case "R":
			if inR {
				nestedR = true
			}
			rec = true
			inR = true
		}
		if x.Next != nil {
			walk(x.Next, inR)
		}
		for _, f := range x.Fields {
			walk(f.S, inR)
		}
		for _, m := range x.Members {
			walk(m, inR)
		}
	}
	walk(s, false)
	switch {
	case nestedR && unionInR:
		return "union-in-nested-recursion"
	case unionInR:
		return "union-in-recursion"
	case nestedR:
		return "nested-recursion"
	case union && rec:
		return "union+recursion"
	case union:
		return "union"
	case rec:
		return "recursion"
	}
	return "plain"
}

func visitKey(v trav.Visit) string { return fmt.Sprintf("%s|%c|%s", v.Path, v.Reason, v.Node.Key()) }

func dedupe(vs []trav.Visit) []trav.Visit {
	seen := map[string]bool{}
	var out []trav.Visit
	for _, v := range vs {
		k := visitKey(v)
		if !seen[k] {
			seen[k] = true
			out = append(out, v)
		}
	}
	return out
}

func sameSeq(a, b []trav.Visit) bool {
	if len(a) != len(b) {
		return false
	}
	for i := range a {
		if visitKey(a[i]) != visitKey(b[i]) {
			return false
		}
	}
	return true
}

func render(vs []trav.Visit) string {
	var p []string
	for _, v := range vs {
		p = append(p, fmt.Sprintf("%q:%c:%s", v.Path, v.Reason, v.Node))
	}
	return "[" + strings.Join(p, " ") + "]"
}

// diffCause classifies how observed differs from expected.
func diffCause(exp, got []trav.Visit) string {
	if sameSeq(exp, dedupe(got)) {
		return "duplicate-visit"
	}
	es, gs := map[string]int{}, map[string]int{}
	ep, gp := map[string]bool{}, map[string]bool{}
	for _, v := range exp {
		es[visitKey(v)]++
		ep[v.Path] = true
	}
	for _, v := range got {
		gs[visitKey(v)]++
		gp[v.Path] = true
	}
	missingPath, extraPath := false, false
	for p := range ep {
		if !gp[p] {
			missingPath = true
		}
	}
	for p := range gp {
		if !ep[p] {
			extraPath = true
		}
	}
	switch {
	case missingPath && extraPath:
		return "missing+extra-visit"
	case missingPath:
		return "missing-visit"
	case extraPath:
		return "extra-visit"
	}
	same := len(es) == len(gs)
	for k, n := range es {
		if gs[k] != n {
			same = false
		}
	}
	if same {
		return "order"
	}
	// same paths, different reason or node
	for i := range exp {
		if i < len(got) && exp[i].Path == got[i].Path {
			if exp[i].Reason != got[i].Reason {
				return "reason"
			}
			if !ref.Equal(exp[i].Node, got[i].Node) {
				return "visited-node-differs"
			}
		}
	}
	return "visit-multiplicity"
}

func Check(c Case) (fs []core.Finding, outcome string) {
	return CheckBuilt(trav.Build(c.Graph), c)
}

func CheckBuilt(b *trav.Built, c Case) (fs []core.Finding, outcome string) {
	feat := features(c.Sel)
	sel, err := c.Sel.Compile()
	if err != nil {
		return []core.Finding{core.F("compile/rejected-wellformed("+core.Class(err.Error())+")", "selector %s: %v", c.Sel, err)}, "bad"
	}
	exp := trav.Denote(b.G, c.Sel)
	got := trav.RunWalk(b, b.Root, sel, trav.NoOpts())
	where := fmt.Sprintf("selector %s over %s", c.Sel, c.Graph)
	if strings.HasPrefix(got.Err, "PANIC") {
		return []core.Finding{core.F("walkadv/"+feat+"/panic("+got.Err+")", "%s: %s", where, got.Err)}, "panic"
	}
	switch {
	case exp.Err == "" && got.Err != "":
		fs = append(fs, core.F("walkadv/"+feat+"/walk-error("+got.Err+")", "%s: unexpected error %s; expected visits %s", where, got.Err, render(exp.Visits)))
		return fs, "bad"
	case exp.Err != "" && got.Err == "":
		fs = append(fs, core.F("walkadv/"+feat+"/missing-load-error", "%s: expected a failed load of %x, walk returned nil; visits %s", where, exp.Loads[len(exp.Loads)-1], render(got.Visits)))
		return fs, "bad"
	}
	if exp.Err != "" && len(got.Visits) > len(exp.Visits) && sameSeq(exp.Visits, got.Visits[:len(exp.Visits)]) {
		// the reference stops at its first failing load; a walk that goes on past that point did not attempt it
		fs = append(fs, core.F("walkadv/"+feat+"/missing-load-error", "%s: expected a failed load of %x after %d visits, the walk went on: %s (err %q)", where, exp.Loads[len(exp.Loads)-1], len(exp.Visits), render(got.Visits), got.Err))
		return fs, "bad"
	}
	if !sameSeq(exp.Visits, got.Visits) {
		fs = append(fs, core.F("walkadv/"+feat+"/"+diffCause(exp.Visits, got.Visits), "%s: expected %s, observed %s", where, render(exp.Visits), render(got.Visits)))
	}
	if strings.Join(exp.Loads, ",") != strings.Join(got.Loads, ",") && len(fs) == 0 {
		fs = append(fs, core.F("walkadv/"+feat+"/link-load-seq", "%s: expected loads %x, observed %x", where, exp.Loads, got.Loads))
	}
	// matching-only walk = the 'm' subsequence
	gm := trav.RunWalk(b, b.Root, sel, trav.WalkOpts{Matching: true, NodeBudget: -1, LinkBudget: -1})
	var em []trav.Visit
	for _, v := range exp.Visits {
		if v.Reason == 'm' {
			em = append(em, v)
		}
	}
	if (gm.Err != "") != (exp.Err != "") || !sameSeq(em, gm.Visits) {
		cause := "matching/" + feat + "/" + diffCause(em, gm.Visits)
		if len(fs) == 0 || !strings.HasSuffix(fs[0].Sig, diffCause(em, gm.Visits)) {
			fs = append(fs, core.F(cause, "%s: expected matches %s, observed %s err=%q", where, render(em), render(gm.Visits), gm.Err))
		}
	}
	// the package-level functions (a zero Progress) on graphs without links: the same walks
	if len(fs) == 0 && len(b.Links) == 0 && !strings.Contains(c.Graph.String(), "<") && !strings.Contains(c.Sel.String(), "~") {
		gp := trav.RunWalk(b, b.Root, sel, trav.WalkOpts{PackageLevel: true, NodeBudget: -1, LinkBudget: -1})
		if gp.Err != "" || !sameSeq(exp.Visits, gp.Visits) {
			fs = append(fs, core.F("package-level-walkadv/"+feat+"/"+diffCause(exp.Visits, gp.Visits), "%s: traversal.WalkAdv: expected %s, observed %s err=%q", where, render(exp.Visits), render(gp.Visits), gp.Err))
		}
		gpm := trav.RunWalk(b, b.Root, sel, trav.WalkOpts{PackageLevel: true, Matching: true, NodeBudget: -1, LinkBudget: -1})
		if gpm.Err != "" || !sameSeq(em, gpm.Visits) {
			fs = append(fs, core.F("package-level-walkmatching/"+feat+"/"+diffCause(em, gpm.Visits), "%s: traversal.WalkMatching: expected %s, observed %s err=%q", where, render(em), render(gpm.Visits), gpm.Err))
		}
	}
	if len(fs) > 0 {
		return fs, "bad"
	}
	return nil, fmt.Sprintf("ok:%s/v%d/l%d", feat, min(len(exp.Visits), 6), min(len(exp.Loads), 3))
}

func graphs(quick bool) []trav.GraphSpec {
	n, maxCuts := 4, 2
	if !quick {
		n, maxCuts = 5, 3
	}
	var out []trav.GraphSpec
	for _, t := range trav.GraphTrees(n, trav.GraphLeaves(true)) {
		for _, cuts := range trav.CutSets(t, maxCuts, quick) {
			out = append(out, trav.GraphSpec{Tree: t, Cuts: cuts})
		}
	}
	// targeted larger shapes: three levels of maps and lists (recursion depth territory), shared and repeated links
	leaf := ref.Int(7)
	deepM := ref.Map(ref.E("a", ref.Map(ref.E("a", ref.Map(ref.E("a", leaf), ref.E("b", leaf))), ref.E("b", leaf))), ref.E("b", ref.List(leaf, ref.List(leaf))))
	deepL := ref.List(ref.List(ref.List(leaf, leaf), leaf), ref.Map(ref.E("a", ref.List(leaf))))
	shared := ref.List(ref.Map(ref.E("a", leaf)), ref.Map(ref.E("a", leaf)), ref.Map(ref.E("a", leaf)))
	for _, t := range []ref.Val{deepM, deepL} {
		for _, cuts := range trav.CutSets(t, 2, true) {
			out = append(out, trav.GraphSpec{Tree: t, Cuts: cuts})
		}
	}
	out = append(out, trav.GraphSpec{Tree: shared, Cuts: []int{1, 3, 5}}, trav.GraphSpec{Tree: shared, Cuts: []int{1, 5}})
	out = append(out, trav.GraphSpec{Tree: deepM, Cuts: []int{1, 2}, Codec: 0x0129})
	return out
}

func selectors(quick bool) []*trav.Sel {
	var out []*trav.Sel
	if quick {
		out = trav.Enumerate(trav.QuickAlphabet(), 3)
	} else {
		out = append(trav.Enumerate(trav.QuickAlphabet(), 4), trav.Enumerate(trav.ThoroughAlphabet(), 3)...)
	}
	out = append(out, Families(quick)...)
	// every subset matcher bound pair over {0,1,-1,2,5} that the parser accepts, at the root and under explore-all
	for _, f := range []int64{0, 1, -1, 2, 5, -5} {
		for _, t := range []int64{0, 1, -1, 2, 5, -5} {
			if t >= 0 && f > t {
				continue
			}
			out = append(out, trav.Sub(f, t), trav.All(trav.Sub(f, t)), trav.Un(trav.Sub(f, t), trav.M()), trav.Un(trav.Sub(f, t), trav.Sub(0, 1)))
		}
	}
	return out
}

func subsetGraphs() []trav.GraphSpec {
	var out []trav.GraphSpec
	for _, s := range []string{"", "x", "xy", "xyz", "wxyz", "é😀"} {
		out = append(out, trav.GraphSpec{Tree: ref.List(ref.Str(s), ref.Bytes(s), ref.Int(1))}, trav.GraphSpec{Tree: ref.Str(s)}, trav.GraphSpec{Tree: ref.Bytes(s)})
	}
	return out
}

type jobset struct {
	gs []trav.GraphSpec
	ss []*trav.Sel
}

func Main(r *core.Run) {
	quick := r.Quick()
	all := append(graphs(quick), subsetGraphs()...)
	var small []trav.GraphSpec // graphs the targeted families run over: trees ≤3 (quick) / ≤4 nodes + the targeted shapes
	limit := 3
	if !quick {
		limit = 4
	}
	for _, g := range all {
		if g.Tree.Size() <= limit || g.Tree.Size() > 5 {
			small = append(small, g)
		}
	}
	jobs := []jobset{{all, selectors(quick)}, {small, Families(quick)}, numeralKeyJobs(), {small, interpretAsFamilies()}}
	r.Rule(fmt.Sprintf("every selector AST with ≤%d clauses over the tier's clause alphabet plus every parser-accepted subset bound pair (%d selectors) × every block graph with ≤%d nodes over leaves {int,string,bytes,dangling link}, cut into blocks in every way with ≤%d cuts, plus targeted 3-level shapes with shared/repeated links (%d graphs); targeted families (overlapping unions, unions under recursion with uneven edge distances, unguarded edges, nested recursion: %d selectors) × %d graphs; recursions with a stop-at link condition (every link of the graph as the condition, on one-, two- and three-step sequences); fields clauses naming map keys that look like numbers (01, -1, +2, 00) over maps holding them; WalkAdv and WalkMatching on the real code vs the substitution-style reference denotation. Non-trivial = ≥2 expected visits; distinct by (graph, selector).", map[bool]int{true: 3, false: 4}[quick], len(jobs[0].ss), map[bool]int{true: 4, false: 5}[quick], map[bool]int{true: 2, false: 3}[quick], len(all), len(jobs[1].ss), len(small)))
	r.Assume("reference denotation mc/trav/refwalk.go: recursion by substitution as documented in exploreRecursive.go (each edge becomes a copy of the recursive selector with depth-1), union = set of members, order = node order under explore-all else stated order")
	for ji, job := range jobs {
		gs, ss := job.gs, job.ss
		r.Set(fmt.Sprintf("jobset%d", ji), map[string]int{"selectors": len(ss), "graphs": len(gs)})
		core.ParallelFor(len(gs), func(gi int) {
			var lc core.LocalCounters
			var nt int64
			oc := map[string]int64{}
			built := trav.Build(gs[gi])
			for _, s := range ss {
				c := Case{Graph: gs[gi], Sel: s, Text: s.String()}
				fs, outcome := CheckBuilt(built, c)
				lc.Transitions += 2
				lc.Traces += 2
				lc.Evals++
				oc[outcome]++
				if strings.HasPrefix(outcome, "ok:") && !strings.Contains(outcome, "/v1/") || outcome == "bad" {
					nt++
				}
				r.Report("walk", c, fs)
			}
			lc.States = int64(len(ss))
			r.Merge(&lc)
			r.NontrivialN(nt)
			for k, v := range oc {
				r.OutcomeN(k, v)
			}
		})
	}
	stopAtJobs(r, small)
	specHelpers(r, jobs[0].ss, jobs[1].ss, jobs[2].ss, jobs[3].ss)
	ss, gs := jobs[0].ss, jobs[0].gs
	r.Sample(map[string]any{"selector": ss[len(ss)/2].String(), "graph": gs[len(gs)/2].String()})
	r.Sample(map[string]any{"selector": jobs[1].ss[len(jobs[1].ss)/3].String(), "graph": jobs[1].gs[len(jobs[1].gs)-1].String()})
}

func Replay(r *core.Run, raw json.RawMessage) {
	var probe struct {
		Graph *json.RawMessage `json:"graph"`
	}
	var sc SpecCase
	if json.Unmarshal(raw, &probe) == nil && probe.Graph == nil && json.Unmarshal(raw, &sc) == nil && sc.Sel != nil {
		// a case without a graph: the specification helpers
		r.Report("spec-helpers", sc, CheckSpecHelpers(sc.Sel))
		return
	}
	var c Case
	if err := json.Unmarshal(raw, &c); err != nil {
		panic(err)
	}
	fs, _ := Check(c)
	r.Report("walk", c, fs)
}

// Families: targeted selector shapes beyond the clause bound — unions whose members select
// overlapping children, and recursions whose union members reach their edges after different
// numbers of steps (where one merged depth counter and per-edge substitution part ways).
func Families(quick bool) []*trav.Sel {
	type mk func(*trav.Sel) *trav.Sel
	steps := []mk{
		trav.All,
		func(n *trav.Sel) *trav.Sel { return trav.Fld(trav.F1("a", n)) },
		func(n *trav.Sel) *trav.Sel { return trav.Fld(trav.F1("0", n)) },
		func(n *trav.Sel) *trav.Sel { return trav.Idx(0, n) },
		func(n *trav.Sel) *trav.Sel { return trav.Idx(1, n) },
		func(n *trav.Sel) *trav.Sel { return trav.Rng(0, 2, n) },
	}
	limits := []int64{1, 2, 3, -1}
	var out []*trav.Sel
	for _, x := range steps {
		for _, y := range steps {
			out = append(out, trav.Un(x(trav.M()), y(trav.M())))
			for _, l := range limits {
				out = append(out, trav.Rec(l, x(trav.Un(trav.Edge(), y(trav.Edge())))))
				out = append(out, trav.Rec(l, trav.Un(x(trav.Edge()), y(trav.M()))))
				// two members that reach the edge over the same child, and nothing else beside them
				out = append(out, trav.Rec(l, trav.Un(x(trav.Edge()), y(trav.Edge()))))
			}
			for _, z := range steps {
				out = append(out, trav.Un(x(trav.M()), y(z(trav.M()))))
				if !quick {
					for _, l := range limits {
						out = append(out, trav.Rec(l, trav.Un(x(trav.Edge()), y(z(trav.Edge())))))
					}
				}
			}
		}
		for _, l := range limits {
			out = append(out, trav.Rec(l, trav.Un(trav.Edge(), x(trav.M()))))                          // unguarded edge beside a step
			out = append(out, trav.Rec(l, x(trav.Un(trav.Edge(), trav.Rec(2, x(trav.Un(trav.Edge(), trav.M()))))))) // nested recursion
			out = append(out, trav.Rec(l, x(trav.Un(trav.Edge(), trav.Rec(2, x(trav.Edge()))))))        // inner recursion beside an outer edge
		}
	}
	// interest lists longer than the node, stated in non-ascending order, with absent members: the
	// selector's stated order is the visit order whatever the node's length
	m := trav.M()
	desc := []*trav.Sel{
		trav.Fld(trav.F1("2", m), trav.F1("0", m), trav.F1("7", m)),
		trav.Fld(trav.F1("1", m), trav.F1("0", m), trav.F1("5", m)),
		trav.Fld(trav.F1("b", m), trav.F1("zz", m), trav.F1("a", m), trav.F1("0", m)),
		trav.Un(trav.Idx(1, m), trav.Idx(0, m), trav.Idx(5, m)),
		trav.Un(trav.Rng(1, 3, m), trav.Rng(0, 2, m)),
		trav.Un(trav.Idx(2, m), trav.Rng(0, 2, m), trav.Idx(9, m)),
	}
	for _, d := range desc {
		out = append(out, d, trav.All(d), trav.Rec(-1, trav.Un(d, trav.All(trav.Edge()))))
	}
	return out
}

// stopFamilies: recursions carrying a stop-at condition for the given link, with the edge reached
// after one, two and three steps (so that the stop link can sit at an edge position and in the
// middle of a sequence), alone and beside a matcher.
func stopFamilies(stop string) []*trav.Sel {
	type mk func(*trav.Sel) *trav.Sel
	steps := []mk{
		trav.All,
		func(n *trav.Sel) *trav.Sel { return trav.Fld(trav.F1("a", n)) },
		func(n *trav.Sel) *trav.Sel { return trav.Fld(trav.F1("b", n), trav.F1("a", n)) },
		func(n *trav.Sel) *trav.Sel { return trav.Idx(0, n) },
		func(n *trav.Sel) *trav.Sel { return trav.Idx(1, n) },
		func(n *trav.Sel) *trav.Sel { return trav.Rng(0, 2, n) },
	}
	rec := func(l int64, n *trav.Sel) *trav.Sel {
		r := trav.Rec(l, n)
		r.StopAt = stop
		return r
	}
	var out []*trav.Sel
	for _, l := range []int64{2, -1} {
		for _, x := range steps {
			out = append(out, rec(l, x(trav.Edge())), rec(l, trav.Un(trav.M(), x(trav.Edge()))), rec(l, x(trav.Un(trav.M(), trav.Edge()))))
			for _, y := range steps {
				out = append(out, rec(l, x(y(trav.Edge()))), rec(l, trav.Un(trav.M(), x(y(trav.Edge())))), rec(l, x(trav.Un(trav.M(), y(trav.Edge())))))
			}
			out = append(out, rec(l, x(x(x(trav.Edge())))))
			// a stop condition on an inner recursion only, and on both
			inner := rec(2, x(trav.Un(trav.M(), trav.Edge())))
			out = append(out, trav.Rec(l, x(trav.Un(trav.Edge(), inner))), rec(l, x(trav.Un(trav.Edge(), inner))))
		}
	}
	return out
}

func stopAtJobs(r *core.Run, gs []trav.GraphSpec) {
	var withLinks []trav.GraphSpec
	for _, g := range gs {
		if len(g.Cuts) > 0 || strings.Contains(g.String(), "<") {
			withLinks = append(withLinks, g)
		}
	}
	// two different links with one multihash (the block linked as dag-cbor and, beside it, as raw bytes):
	// a stop-at condition names a link, not a hash
	leaf := ref.Int(7)
	for _, t := range []ref.Val{
		ref.Map(ref.E("a", ref.Map(ref.E("x", leaf))), ref.E("b", leaf)),
		ref.List(ref.List(leaf), ref.Map(ref.E("a", ref.List(leaf)))),
		ref.Map(ref.E("a", ref.Map(ref.E("a", ref.Map(ref.E("x", leaf)))))),
	} {
		for _, c := range trav.CutSets(t, 2, false) {
			if len(c) > 0 {
				withLinks = append(withLinks, trav.GraphSpec{Tree: t, Cuts: c, Twins: true})
			}
		}
	}
	nsel := len(stopFamilies("x"))
	r.Set("jobset-stopat", map[string]int{"selectors_per_link": nsel, "graphs_with_links": len(withLinks)})
	core.ParallelFor(len(withLinks), func(gi int) {
		var lc core.LocalCounters
		var nt int64
		oc := map[string]int64{}
		built := trav.Build(withLinks[gi])
		links := append([]string(nil), built.Links...)
		if strings.Contains(withLinks[gi].String(), "<") {
			links = append(links, trav.DanglingLink)
		}
		for _, l := range links {
			for _, s := range stopFamilies(l) {
				c := Case{Graph: withLinks[gi], Sel: s, Text: s.String()}
				fs, outcome := CheckBuilt(built, c)
				lc.Transitions += 2
				lc.Traces += 2
				lc.Evals++
				lc.States++
				oc["stopat:"+outcome]++
				if strings.HasPrefix(outcome, "ok:") && !strings.Contains(outcome, "/v1/") || outcome == "bad" {
					nt++
				}
				r.Report("walk", c, fs)
			}
		}
		r.Merge(&lc)
		r.NontrivialN(nt)
		for k, v := range oc {
			r.OutcomeN(k, v)
		}
	})
}

// interpretAsFamilies: the interpret-as clause wherever a clause hands it to a node directly (the
// root; below explore-all, index, range and fields clauses; nested once more below such a clause):
// the node is replaced by what the named reifier makes of it (trav.Reifiers: "rev" reverses the
// children, "box" wraps the node into a one-element list) and the walk goes on with the clause's next
// selector on that node.
func interpretAsFamilies() []*trav.Sel {
	m := trav.M()
	nexts := []*trav.Sel{m, trav.Sub(1, 3), trav.All(m), trav.Idx(0, m), trav.Idx(1, m), trav.Rng(0, 2, m), trav.Fld(trav.F1("a", m)),
		trav.Fld(trav.F1("b", m), trav.F1("a", m)), trav.All(trav.All(m)), trav.Un(m, trav.All(m)), trav.Rec(-1, trav.Un(m, trav.All(trav.Edge())))}
	var out []*trav.Sel
	for _, name := range []string{"rev", "box"} {
		for _, n := range nexts {
			a := trav.As(name, n)
			out = append(out, a, trav.All(a), trav.Idx(0, a), trav.Idx(1, a), trav.Rng(0, 2, a), trav.Fld(trav.F1("a", a)), trav.Fld(trav.F1("a", a), trav.F1("b", m)))
		}
		for _, other := range []string{"rev", "box"} {
			out = append(out, trav.As(name, trav.All(trav.As(other, m))), trav.As(name, trav.Idx(0, trav.As(other, trav.All(m)))))
		}
	}
	return out
}

// numeralKeyJobs: map keys that look like numbers but are not canonical decimal numerals are just
// keys: a fields clause naming them selects them (maps only: on lists such names are unspecified).
func numeralKeyJobs() jobset {
	leaf := ref.Int(7)
	m := ref.Map(ref.E("01", leaf), ref.E("1", ref.List(leaf)), ref.E("-1", leaf), ref.E("+2", ref.Map(ref.E("a", leaf), ref.E("00", leaf))), ref.E("00", leaf), ref.E("7", leaf))
	gs := []trav.GraphSpec{{Tree: m}, {Tree: m, Cuts: []int{2}}, {Tree: ref.Map(ref.E("x", m))}}
	mm := trav.M()
	f := func(names ...string) *trav.Sel {
		var fl []trav.Field
		for _, n := range names {
			fl = append(fl, trav.F1(n, mm))
		}
		return trav.Fld(fl...)
	}
	base := []*trav.Sel{f("01"), f("-1"), f("+2"), f("00"), f("1", "01"), f("01", "1"), f("-1", "+2", "7"), f("7", "00", "01", "-1"),
		trav.Fld(trav.F1("+2", trav.All(mm))), trav.Fld(trav.F1("+2", f("00", "a")))}
	var ss []*trav.Sel
	for _, b := range base {
		ss = append(ss, b, trav.Fld(trav.F1("x", b)), trav.Un(b, f("7")), trav.Rec(-1, trav.Un(mm, b, trav.Fld(trav.F1("x", trav.Edge())))))
	}
	return jobset{gs, ss}
}
