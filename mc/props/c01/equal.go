package c01

import (
	"math"

	"github.com/ipld/go-ipld-prime/datamodel"
	"github.com/ipld/go-ipld-prime/node/basicnode"

	"verif/mc/core"
	"verif/mc/ref"
)

type EqCase struct {
	X, Y         ref.Val
	ImplX, ImplY string
}

func hasNaNorUint(v ref.Val) bool {
	if v.K == ref.KUint || v.K == ref.KFloat && math.IsNaN(v.F) {
		return true
	}
	for _, c := range v.L {
		if hasNaNorUint(c) {
			return true
		}
	}
	for _, e := range v.M {
		if hasNaNorUint(e.V) {
			return true
		}
	}
	return false
}

func CheckEq(c EqCase) (fs []core.Finding) {
	x, _ := ref.ImplBuild(c.ImplX, c.X)
	y, _ := ref.ImplBuild(c.ImplY, c.Y)
	want := ref.EqualGo(c.X, c.Y)
	var got bool
	site := c.ImplX + "×" + c.ImplY
	if p := core.Guard(func() { got = datamodel.DeepEqual(x, y) }); p != "" {
		return []core.Finding{core.F("deepequal/"+site+"/panic("+core.Class(p)+")", "DeepEqual(%s, %s): %s", c.X, c.Y, p)}
	}
	if got != want {
		fs = append(fs, core.F("deepequal/"+site+"/disagrees(want="+map[bool]string{true: "equal", false: "unequal"}[want]+")", "DeepEqual(%s [%s], %s [%s]) = %v", c.X, c.ImplX, c.Y, c.ImplY, got))
	}
	return fs
}

func checkCopy(v ref.Val, impl string) (fs []core.Finding) {
	n, _ := ref.ImplBuild(impl, v)
	for _, target := range []string{"any", "kind"} {
		nb := proto(target, v).NewBuilder()
		var err error
		if p := core.Guard(func() { err = datamodel.Copy(n, nb) }); p != "" {
			fs = append(fs, core.F("copy/"+impl+"→"+target+"/panic("+core.Class(p)+")", "Copy(%s): %s", v, p))
			continue
		}
		if err != nil {
			fs = append(fs, core.F("copy/"+impl+"→"+target+"/error("+core.Class(err.Error())+")", "Copy(%s): %v", v, err))
			continue
		}
		cp := nb.Build()
		got, incs := ref.Observe(cp)
		if len(incs) > 0 || !ref.Equal(got, v) {
			fs = append(fs, core.F("copy/"+impl+"→"+target+"/differs", "Copy(%s) reads back %s %v", v, got, incs))
		}
		var eq bool
		if p := core.Guard(func() { eq = datamodel.DeepEqual(n, cp) }); p != "" || !eq {
			fs = append(fs, core.F("copy/"+impl+"→"+target+"/not-deepequal-to-source", "value %s panic=%q", v, p))
		}
	}
	return fs
}

func equality(r *core.Run, quick bool) {
	// a set closed under "near misses": same shape other scalar, same entries other order, prefix lists, -0 vs 0
	base := ref.Trees(3, ref.LeavesSmall())
	if len(base) > 150 && quick {
		// keep every 4th of the 3-node trees plus all smaller ones
		var b []ref.Val
		for i, v := range base {
			if v.Size() < 3 || i%4 == 0 {
				b = append(b, v)
			}
		}
		base = b
	}
	base = append(base,
		ref.Float(0), ref.Float(math.Copysign(0, -1)), ref.Int(0), ref.Float(1), ref.Int(1), ref.Str("1"), ref.Bytes("1"),
		ref.Map(ref.E("a", ref.Int(1)), ref.E("b", ref.Int(2))), ref.Map(ref.E("b", ref.Int(2)), ref.E("a", ref.Int(1))),
		ref.Map(ref.E("a", ref.Int(1))), ref.Map(ref.E("a", ref.Int(1)), ref.E("b", ref.Null())),
		ref.List(ref.Int(1)), ref.List(ref.Int(1), ref.Int(1)), ref.List(ref.List()), ref.List(ref.Map()),
		ref.Link(ref.LinksFull()[0]), ref.Link(ref.LinksFull()[1]), ref.Link(ref.LinksFull()[3]),
		ref.Int(math.MaxInt64), ref.Int(math.MinInt64), ref.Str(""), ref.Bytes(""), ref.Null(),
	)
	var vals []ref.Val
	for _, v := range base {
		if !hasNaNorUint(v) {
			vals = append(vals, v)
		}
	}
	impls := ref.GenericImpls
	r.Set("equality_values", len(vals))
	core.ParallelFor(len(vals), func(i int) {
		var lc core.LocalCounters
		var nt int64
		for j := range vals {
			for _, ix := range impls {
				for _, iy := range impls {
					if ix == "basic-kind" && iy == "basic-kind" && quick {
						continue
					}
					c := EqCase{X: vals[i], Y: vals[j], ImplX: ix, ImplY: iy}
					fs := CheckEq(c)
					lc.Transitions++
					lc.Evals++
					if vals[i].K == vals[j].K {
						nt++
					}
					r.Report("equal", c, fs)
				}
			}
		}
		for _, impl := range impls {
			r.Report("equal", EqCase{X: vals[i], ImplX: impl}, checkCopy(vals[i], impl))
			lc.Transitions++
		}
		lc.States++
		r.Merge(&lc)
		r.NontrivialN(nt)
	})
	_ = basicnode.Prototype
}
