// Package c01: what is built through the builder API is exactly what the node API reads back.
package c01

import (
	"bytes"
	"encoding/json"
	"fmt"
	"os"
	"os/exec"
	"path/filepath"
	"strings"

	"github.com/ipld/go-ipld-prime/datamodel"
	"github.com/ipld/go-ipld-prime/node/basicnode"

	"verif/mc/core"
	"verif/mc/props/c08"
	"verif/mc/ref"
	"verif/mc/rs"
	"verif/mc/typed"
)

type Case struct {
	V      ref.Val    `json:"value"`
	Proto  string     `json:"prototype"` // "any" | "kind"
	Routes ref.Routes `json:"routes,omitempty"`
	Reuse  bool       `json:"reset_reuse,omitempty"`
}

func proto(name string, v ref.Val) datamodel.NodePrototype {
	if name == "kind" {
		return ref.KindProto(v.K)
	}
	return basicnode.Prototype.Any
}

func routeClass(v ref.Val, r ref.Routes) string {
	if len(r) == 0 {
		return "default"
	}
	// name the deviations by node kind + route number
	var parts []string
	idx := 0
	var rec func(v ref.Val)
	rec = func(v ref.Val) {
		if rt, ok := r[idx]; ok {
			k := "scalar"
			if v.K == ref.KMap {
				k = "map"
			} else if v.K == ref.KList {
				k = "list"
			}
			parts = append(parts, fmt.Sprintf("%s:%d", k, rt))
		}
		idx++
		for _, c := range v.L {
			rec(c)
		}
		for _, e := range v.M {
			rec(e.V)
		}
	}
	rec(v)
	return strings.Join(parts, "+")
}

func Check(c Case) (fs []core.Finding, outcome string) {
	n, err := ref.BuildRouted(proto(c.Proto, c.V), c.V, c.Routes, c.Reuse)
	rc := routeClass(c.V, c.Routes)
	if c.Reuse {
		rc += "+reset"
	}
	site := "basicnode-" + c.Proto
	if err != nil {
		cause := "build-error"
		if strings.HasPrefix(err.Error(), "panic") {
			cause = "build-panic"
		}
		return []core.Finding{core.F(site+"/"+cause+"("+rc+"|"+core.Class(err.Error())+")", "value %s routes %v: %v", c.V, c.Routes, err)}, "bad"
	}
	got, incs := ref.Observe(n)
	if !ref.Equal(got, c.V) {
		fs = append(fs, core.F(site+"/readback-differs("+rc+")", "built %s by routes %v, read back %s", c.V, c.Routes, got))
	}
	for _, inc := range incs {
		fs = append(fs, core.F(site+"/"+inc.Cause, "value %s routes %v: %s", c.V, c.Routes, inc.Detail))
	}
	if len(fs) > 0 {
		return fs, "bad"
	}
	return nil, "ok:" + v0(rc)
}

func v0(rc string) string {
	if len(rc) > 24 {
		return rc[:24]
	}
	return rc
}

func values(quick bool) []ref.Val {
	n := 4
	if !quick {
		n = 5
	}
	vals := ref.Trees(n, ref.LeavesSmall())
	sc := append(append(ref.ScalarsFull(), ref.UintsBig()...), ref.FloatsNonFinite()...)
	vals = append(vals, ref.Sweep(sc)...)
	// duplicate-free but adversarial key sets
	vals = append(vals, ref.Map(ref.E("", ref.Int(1)), ref.E("\x00", ref.Int(2)), ref.E("a", ref.Int(3)), ref.E("A", ref.Int(4)), ref.E("a\x00", ref.Int(5))))
	return vals
}

func Main(r *core.Run) {
	quick := r.Quick()
	vals := values(quick)
	r.Rule("values: every tree ≤4/≤5 nodes over 13 leaves + every alphabet scalar (incl. uint64>int64, NaN/±Inf, arbitrary-byte strings) at every position kind; builder programs by deviation bound: default route, every single deviation at every position (AssignNode of prebuilt basic/kind-specific/foreign node, key via AssembleKey+AssignString / AssignNode(basic|foreign), size hint -1/0/exact+2), every pair of deviations (values ≤4 nodes; thorough: ≤5), each also on a Reset-reused builder; prototypes basicnode Any and kind-specific; the same single deviations on typed builders (bindnode over the quick schema families, type and representation level). Then DeepEqual/Copy agreement over all pairs of a 200-value set × implementation pairs. Non-trivial = a container with ≥1 child or a deviation from the default route; distinct by (value, prototype, routes, reuse).")
	r.Assume("uint64 values above MaxInt64 are in the read-back domain (AsUint) but outside DeepEqual/Copy (AsInt overflows by design)")
	core.ParallelFor(len(vals), func(i int) {
		v := vals[i]
		opts := ref.RouteOptions(v)
		var lc core.LocalCounters
		oc := map[string]int64{}
		var nt int64
		run := func(c Case) {
			fs, outcome := Check(c)
			lc.States++
			lc.Transitions += int64(v.Size())
			lc.Traces++
			lc.Evals++
			oc[outcome]++
			if v.Size() > 1 || len(c.Routes) > 0 {
				nt++
			}
			r.Report("build", c, fs)
		}
		protos := []string{"any"}
		if v.K != ref.KNull && v.K != ref.KUint {
			protos = append(protos, "kind")
		}
		for _, p := range protos {
			for _, reuse := range []bool{false, true} {
				run(Case{V: v, Proto: p, Reuse: reuse})
				for pos, alts := range opts {
					for _, a := range alts {
						run(Case{V: v, Proto: p, Routes: ref.Routes{pos: a}, Reuse: reuse})
					}
				}
			}
			maxPair := 4
			if !quick {
				maxPair = 5
			}
			if v.Size() <= maxPair && v.Size() >= 2 {
				for p1 := range opts {
					for p2 := p1 + 1; p2 < len(opts); p2++ {
						for _, a1 := range opts[p1] {
							for _, a2 := range opts[p2] {
								run(Case{V: v, Proto: p, Routes: ref.Routes{p1: a1, p2: a2}})
							}
						}
					}
				}
			}
		}
		r.Merge(&lc)
		r.NontrivialN(nt)
		for k, n := range oc {
			r.OutcomeN(k, n)
		}
	})
	r.Sample(Case{V: vals[len(vals)/3], Proto: "any", Routes: ref.Routes{0: 7, 1: 2}})
	r.Sample(Case{V: vals[len(vals)/2], Proto: "kind", Reuse: true})
	equality(r, quick)
	// typed implementations within their schema's value space: every single route deviation on the
	// reflection binding's type-level and representation-level builders (generated code: see C08)
	every := 3
	if !quick {
		every = 1
	}
	c08.RunRoutes(r, []typed.Engine{typed.NewBindEngine()}, rs.Families(quick), every)
	// generated code: the same route deviations, in the binary that links the packages generated from
	// the working tree (a worker process; its counters and findings are merged into this run)
	generatedPart(r)
	// the Any type itself as a builder root (the families use it below structs, lists and maps only):
	// default route only, one signature per level and kind of value
	for _, s := range rs.Families(quick) {
		if s.Types["HasAny"] == nil {
			continue
		}
		for _, v := range s.Values(s.T("Any"), 0) {
			for _, repr := range []bool{false, true} {
				c := AnyRootCase{s.Name, v, repr}
				r.Report("any-root", c, CheckAnyRoot(s, c))
				r.States.Add(1)
				r.Transitions.Add(1)
				r.Evals.Add(1)
				r.Traces.Add(1)
				r.Outcome("bindnode/any-root")
			}
		}
	}
}

func generatedPart(r *core.Run) {
	bin := filepath.Join(core.VerifDir, ".work", "bin", "mctyped")
	cmd := exec.Command(bin, "C01-generated-worker", r.Tier)
	var out, errb bytes.Buffer
	cmd.Stdout, cmd.Stderr = &out, &errb
	if err := cmd.Run(); err != nil {
		fmt.Fprintf(os.Stderr, "CHECK-BROKEN: generated-code worker of C01 failed: %v: %s\n", err, errb.String())
		os.Exit(2)
	}
	var p core.Partial
	if err := json.Unmarshal(out.Bytes(), &p); err != nil {
		fmt.Fprintf(os.Stderr, "CHECK-BROKEN: generated-code worker of C01: unreadable result: %v\n", err)
		os.Exit(2)
	}
	r.ImportPartial(p, "-generated")
	r.Set("generated_code_part", map[string]any{"worker": "mctyped C01-generated-worker", "cases": p.States, "builder_runs": p.Transitions})
}

// AnyRootCase: a value built by the builder of a prototype bound to the schema type Any itself.
type AnyRootCase struct {
	Schema string  `json:"schema"`
	V      ref.Val `json:"value"`
	Repr   bool    `json:"representation_level"`
}

func CheckAnyRoot(s *rs.Schema, c AnyRootCase) (fs []core.Finding) {
	lvl := map[bool]string{false: "type", true: "repr"}[c.Repr]
	var got ref.Val
	var err error
	pan := core.Guard(func() {
		var n datamodel.Node
		n, err = ref.Build(typed.NewBindEngine().Proto(s, "Any", c.Repr), c.V)
		if err == nil {
			got = ref.ReadTyped(n)
		}
	})
	switch {
	case pan != "":
		fs = append(fs, core.F(fmt.Sprintf("bindnode/any-root/%s/panic(%s)", lvl, c.V.K), "bindnode %s.Any %s-level builder, value %s: %s", s.Name, lvl, c.V, pan))
	case err != nil:
		fs = append(fs, core.F(fmt.Sprintf("bindnode/any-root/%s/rejects(%s)", lvl, c.V.K), "bindnode %s.Any %s-level builder, value %s: %v", s.Name, lvl, c.V, err))
	case !ref.Equal(got, c.V):
		fs = append(fs, core.F(fmt.Sprintf("bindnode/any-root/%s/reads-differently(%s)", lvl, c.V.K), "bindnode %s.Any %s-level builder, value %s: the built node reads %s", s.Name, lvl, c.V, got))
	}
	return fs
}

func Replay(r *core.Run, mode string, raw json.RawMessage) {
	switch mode {
	case "build":
		var c Case
		if err := json.Unmarshal(raw, &c); err != nil {
			panic(err)
		}
		fs, _ := Check(c)
		r.Report("build", c, fs)
	case "routes":
		var c c08.Case
		json.Unmarshal(raw, &c)
		for _, s := range rs.Families(false) {
			if s.Name == c.Schema {
				fs, _ := c08.CheckRoutes(typed.NewBindEngine(), s, c)
				r.Report("routes", c, fs)
			}
		}
	case "any-root":
		var c AnyRootCase
		json.Unmarshal(raw, &c)
		for _, s := range rs.Families(false) {
			if s.Name == c.Schema {
				r.Report("any-root", c, CheckAnyRoot(s, c))
			}
		}
	case "equal":
		var c EqCase
		if err := json.Unmarshal(raw, &c); err != nil {
			panic(err)
		}
		r.Report("equal", c, CheckEq(c))
	}
}
