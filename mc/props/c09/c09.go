// Package c09: typed builders accept exactly the data that conforms to the schema.
// (Also hosts C13's lock-step comparison, which runs over the same inputs.)
package c09

import (
	"sort"
	"bytes"
	"encoding/json"
	"fmt"
	"strings"
	"sync"

	"verif/mc/core"
	"verif/mc/ref"
	"verif/mc/rs"
	"verif/mc/typed"
)

type Case struct {
	Engine   string  `json:"engine"`
	Schema   string  `json:"schema"`
	Type     string  `json:"type"`
	Repr     bool    `json:"representation_level"`
	Route    string  `json:"route"`
	Input    ref.Val `json:"input"`
	Mutation string  `json:"mutation"`
}

func level(repr bool) string {
	if repr {
		return "repr"
	}
	return "type"
}

func strategy(t *rs.Type) string {
	switch t.Kind {
	case rs.TStruct:
		return "struct/" + t.SRepr
	case rs.TUnion:
		return "union/" + t.URepr
	case rs.TEnum:
		return "enum/" + t.ERepr
	case rs.TMap:
		return "map"
	case rs.TList:
		return "list"
	}
	return "scalar"
}

// Expected: the reference verdict for an input. Inputs the specification leaves undefined return ok=false.
func Expected(s *rs.Schema, t *rs.Type, repr bool, in ref.Val) (v ref.Val, rej string, defined bool) {
	if repr {
		v, rej = s.AcceptRepr(t, in)
	} else {
		v, rej = s.AcceptType(t, in)
	}
	return v, rej, true
}

// Check compares one engine's outcome on one input with the reference.
func Check(eng typed.Engine, s *rs.Schema, c Case) (fs []core.Finding, outcome string, o typed.Outcome) {
	t := s.T(c.Type)
	want, rej, defined := Expected(s, t, c.Repr, c.Input)
	o = typed.Feed(eng, s, c.Type, c.Repr, c.Route, c.Input)
	if !defined {
		return nil, "undefined", o
	}
	site := fmt.Sprintf("%s/%s/{route}", eng.Name(), level(c.Repr))
	if strings.HasPrefix(rej, "unrepresentable") {
		return nil, "undefined", o // a typed value the strategy cannot represent: the specification is silent on where it is refused
	}
	where := fmt.Sprintf("%s %s.%s %s-level via %s, input %s (%s)", eng.Name(), s.Name, c.Type, level(c.Repr), c.Route, c.Input, c.Mutation)
	switch {
	case o.Panic != "":
		exp := "valid"
		if rej != "" {
			exp = rej
		}
		return []core.Finding{core.F(site+"/panic:"+exp+"("+core.Class(o.Panic)+")", "%s: %s", where, o.Panic)}, "bad", o
	case o.Accepted && rej != "":
		return []core.Finding{core.F(site+"/accepted-invalid:"+rej, "%s: accepted as %s; reference rejects: %s", where, o.TypeView, rej)}, "bad", o
	case !o.Accepted && rej == "":
		return []core.Finding{core.F(site+"/"+strategy(t)+"/rejected-valid("+typed.RejectClass(o.Err)+")", "%s: reference accepts as %s; error: %s", where, want, o.Err)}, "bad", o
	case o.Accepted:
		if !ref.Equal(o.TypeView, want) {
			fs = append(fs, core.F(site+"/accepted-value-differs", "%s: reference value %s, node reads %s", where, want, o.TypeView))
		}
		for _, inc := range o.Incs {
			fs = append(fs, core.F(site+"/accepted-node-inconsistent:"+inc.Cause, "%s: %s", where, inc.Detail))
		}
		if len(fs) > 0 {
			return fs, "bad", o
		}
		return nil, "accept", o
	}
	return nil, "reject:" + rej, o
}

type input struct {
	repr bool
	v    ref.Val
	mut  string
}

// Inputs: conforming trees of every typed value at both levels, and every local mutation of them.
func Inputs(s *rs.Schema, t *rs.Type, quick bool) []input {
	var out []input
	seen := map[string]bool{}
	complexKeys := s.ComplexKeys(t)
	add := func(repr bool, v ref.Val, mut string) {
		if !repr && complexKeys {
			return // type-level feeding of struct-keyed maps is outside the enumerated space (rs.ComplexKeys)
		}
		k := fmt.Sprint(repr) + v.Key()
		if seen[k] {
			return
		}
		seen[k] = true
		out = append(out, input{repr, v, mut})
	}
	vals := s.Values(t, 0)
	if quick && len(vals) > 8 {
		// quick tier: mutate every 6th value (all values are still fed unmutated)
		var keep []ref.Val
		for i, v := range vals {
			if i%6 == 0 {
				keep = append(keep, v)
			}
		}
		for _, v := range vals {
			add(false, s.FeedType(t, v), "conforming")
			if r, ok := s.Repr(t, v); ok {
				add(true, r, "conforming")
			}
		}
		vals = keep
	}
	for _, v := range vals {
		ft := s.FeedType(t, v)
		add(false, ft, "conforming")
		for _, m := range typed.Mutants(s, ft) {
			add(false, m.V, m.Kind)
		}
		if r, ok := s.Repr(t, v); ok {
			add(true, r, "conforming")
			for _, m := range typed.Mutants(s, r) {
				add(true, m.V, m.Kind)
			}
		}
	}
	return out
}

// Tree is one input tree of the C09 space, for other checks that want the same inputs.
type Tree struct {
	Repr bool
	V    ref.Val
	Mut  string
}

func InputTrees(s *rs.Schema, t *rs.Type, quick bool) []Tree {
	var out []Tree
	for _, in := range Inputs(s, t, quick) {
		out = append(out, Tree{in.repr, in.v, in.mut})
	}
	return out
}

// Run executes C09 (each engine vs the reference) and, when lockstep is set, C13's comparison
// (bindnode vs generated on every input) over the same executions.
func Run(r *core.Run, engines []typed.Engine, fams []*rs.Schema, lockstep bool) {
	typed.AllVariants = !r.Quick()
	type job struct {
		s *rs.Schema
		t string
	}
	var jobs []job
	for _, s := range fams {
		for _, tn := range s.Roots {
			jobs = append(jobs, job{s, tn})
		}
	}
	var sampleOnce sync.Once
	core.ParallelFor(len(jobs), func(i int) {
		j := jobs[i]
		t := j.s.T(j.t)
		ins := Inputs(j.s, t, r.Quick())
		var lc core.LocalCounters
		var nt int64
		oc := map[string]int64{}
		for _, in := range ins {
			type agg struct {
				routes []string
				c      Case
				f      core.Finding
			}
			perEngine := map[string]map[string]*agg{}
			for _, base := range typed.FeedRoutes {
				for _, route := range typed.FeedVariants(base) {
					if (route == "dagcbor" || route == "dagjson") && !in.repr {
						continue // bytes are decoded through the representation builder
					}
					if route == "dagjson" && !typed.JSONCarries(in.v) {
						continue // the text format cannot carry this input (a repeated key, an integral float, …)
					}
					var outs []typed.Outcome
					for _, eng := range engines {
						if eng.Proto(j.s, "Int", false) == nil {
							continue
						}
						c := Case{eng.Name(), j.s.Name, j.t, in.repr, route, in.v, in.mut}
						fs, outcome, o := Check(eng, j.s, c)
						lc.Transitions++
						lc.Traces++
						lc.Evals++
						oc[eng.Name()+"/"+strings.SplitN(outcome, ":", 2)[0]]++
						if in.mut != "conforming" {
							nt++
						}
						if !lockstep {
							for _, f := range fs {
								m := perEngine[eng.Name()]
								if m == nil {
									m = map[string]*agg{}
									perEngine[eng.Name()] = m
								}
								a := m[f.Sig]
								if a == nil {
									a = &agg{c: c, f: f}
									m[f.Sig] = a
								}
								if len(a.routes) == 0 || a.routes[len(a.routes)-1] != base {
									a.routes = append(a.routes, base)
								}
							}
						}
						outs = append(outs, o)
					}
					if lockstep && len(outs) == 2 {
						c := Case{"bindnode×generated", j.s.Name, j.t, in.repr, route, in.v, in.mut}
						for _, f := range Lockstep(j.s, t, c, outs[0], outs[1]) {
							m := perEngine["lockstep"]
							if m == nil {
								m = map[string]*agg{}
								perEngine["lockstep"] = m
							}
							a := m[f.Sig]
							if a == nil {
								a = &agg{c: c, f: f}
								m[f.Sig] = a
							}
							if len(a.routes) == 0 || a.routes[len(a.routes)-1] != base {
								a.routes = append(a.routes, base)
							}
						}
					}
				}
			}
			for name, m := range perEngine {
				mode := "feed"
				if name == "lockstep" {
					mode = "lockstep"
				}
				for _, a := range m {
					f := a.f
					f.Sig = strings.Replace(f.Sig, "{route}", strings.Join(a.routes, "+"), 1)
					r.Report(mode, a.c, []core.Finding{f})
				}
			}
			lc.States++
		}
		r.Merge(&lc)
		r.NontrivialN(nt)
		for k, v := range oc {
			r.OutcomeN(k, v)
		}
		r.Add("types", 1)
		if len(ins) > 3 {
			sampleOnce.Do(func() {
				r.Sample(Case{"bindnode", j.s.Name, j.t, ins[3].repr, "entry", ins[3].v, ins[3].mut})
			})
		}
	})
}

// Lockstep: the two engines must agree on every input.
func Lockstep(s *rs.Schema, t *rs.Type, c Case, a, b typed.Outcome) (fs []core.Finding) {
	site := fmt.Sprintf("lockstep/%s/{route}", level(c.Repr))
	where := fmt.Sprintf("%s.%s %s-level via %s, input %s (%s)", s.Name, c.Type, level(c.Repr), c.Route, c.Input, c.Mutation)
	_, rej, _ := Expected(s, t, c.Repr, c.Input)
	ref0 := "valid"
	if rej != "" {
		ref0 = rej
	}
	if a.Class() != b.Class() {
		if ref0 == "valid" {
			ref0 += "|" + typed.RejectClass(a.Err+b.Err+a.Panic+b.Panic)
		}
		return []core.Finding{core.F(fmt.Sprintf("%s/bindnode-%ss-generated-%ss(%s)", site, a.Class(), b.Class(), ref0), "%s: bindnode %s (%s%s), generated %s (%s%s)", where, a.Class(), a.Err, a.Panic, b.Class(), b.Err, b.Panic)}
	}
	if a.Class() == "panic" {
		return []core.Finding{core.F(site+"/both-panic("+ref0+")", "%s: bindnode %s; generated %s", where, a.Panic, b.Panic)}
	}
	if !a.Accepted {
		return nil
	}
	if !ref.Equal(a.TypeView, b.TypeView) {
		// fallthrough to report
	} else if _, ok := s.Repr(t, a.TypeView); !ok {
		return nil // an accepted typed value that the strategy cannot represent: views of it are undefined
	}
	if !ref.Equal(a.TypeView, b.TypeView) {
		fs = append(fs, core.F(site+"/content-differs(type-view)", "%s: bindnode %s, generated %s", where, a.TypeView, b.TypeView))
	}
	if !ref.Equal(a.ReprView, b.ReprView) {
		fs = append(fs, core.F(site+"/content-differs(repr-view)", "%s: bindnode %s, generated %s", where, a.ReprView, b.ReprView))
	}
	if !bytes.Equal(a.Bytes, b.Bytes) {
		fs = append(fs, core.F(site+"/bytes-differ(dag-cbor)", "%s: bindnode %x, generated %x", where, a.Bytes, b.Bytes))
	}
	// "expose the same content" through every access form: an access form that misbehaves in one engine
	// only (an inconsistency of the complete read that the other engine's node does not have)
	if len(fs) == 0 {
		causes := func(o typed.Outcome) map[string]string {
			m := map[string]string{}
			for _, inc := range o.Incs {
				m[inc.Cause] = inc.Detail
			}
			return m
		}
		ca, cb := causes(a), causes(b)
		sorted := func(m map[string]string) []string {
			var ks []string
			for k := range m {
				ks = append(ks, k)
			}
			sort.Strings(ks)
			return ks
		}
		for _, c := range sorted(cb) {
			d := cb[c]
			if _, ok := ca[c]; !ok {
				fs = append(fs, core.F(site+"/generated-only-inconsistency("+c+")", "%s: the generated node's read is inconsistent where bindnode's is not: %s", where, d))
				break
			}
		}
		for _, c := range sorted(ca) {
			d := ca[c]
			if _, ok := cb[c]; !ok && len(fs) == 0 {
				fs = append(fs, core.F(site+"/bindnode-only-inconsistency("+c+")", "%s: the bindnode node's read is inconsistent where the generated one's is not: %s", where, d))
				break
			}
		}
	}
	return fs
}

func Replay(r *core.Run, engines []typed.Engine, fams []*rs.Schema, mode string, raw json.RawMessage) {
	var c Case
	if err := json.Unmarshal(raw, &c); err != nil {
		panic(err)
	}
	for _, s := range fams {
		if s.Name != c.Schema {
			continue
		}
		if mode == "lockstep" {
			var outs []typed.Outcome
			for _, e := range engines {
				outs = append(outs, typed.Feed(e, s, c.Type, c.Repr, c.Route, c.Input))
			}
			if len(outs) == 2 {
				fs := Lockstep(s, s.T(c.Type), c, outs[0], outs[1])
				for i := range fs {
					fs[i].Sig = strings.Replace(fs[i].Sig, "{route}", c.Route, 1)
				}
				r.Report("lockstep", c, fs)
			}
			return
		}
		for _, e := range engines {
			if e.Name() == c.Engine {
				fs, _, _ := Check(e, s, c)
				for i := range fs {
					fs[i].Sig = strings.Replace(fs[i].Sig, "{route}", c.Route, 1)
				}
				r.Report("feed", c, fs)
			}
		}
	}
}
