// Package c16: transforms are pure functional updates, also across links.
package c16

import (
	"bytes"
	"encoding/json"
	"fmt"
	"strconv"
	"strings"

	"github.com/ipld/go-ipld-prime/datamodel"
	"github.com/ipld/go-ipld-prime/linking"
	"github.com/ipld/go-ipld-prime/node/basicnode"
	"github.com/ipld/go-ipld-prime/traversal"
	mh "github.com/multiformats/go-multihash"

	"verif/mc/core"
	"verif/mc/lsx"
	"verif/mc/ref"
	"verif/mc/trav"
)

var blockProto = lsx.Proto{Version: 1, Codec: 0x71, MhType: mh.SHA2_256, MhLength: -1}

type FCase struct {
	Graph         trav.GraphSpec `json:"graph"`
	Segs          []string       `json:"path"`
	Repl          string         `json:"replacement"` // scalar, map, list, identity, remove
	CreateParents bool           `json:"create_parents"`
	// IntForm: segments that are canonical decimal numerals are given as integer-form segments
	// (PathSegmentOfInt), as a path replayed from a walk over a list has them
	IntForm bool `json:"int_form_segments,omitempty"`
}

func canonicalNumeral(s string) bool {
	n, err := strconv.Atoi(s)
	return err == nil && n >= 0 && strconv.Itoa(n) == s
}

func replVal(r string) ref.Val {
	switch r {
	case "scalar":
		return ref.Int(99)
	case "map":
		return ref.Map(ref.E("n", ref.Int(1)))
	case "list":
		return ref.List(ref.Str("r"))
	}
	panic("no value for " + r)
}

// ---- reference: functional update on Val graphs ----

type xform struct {
	blocks map[string]ref.Val
	repl   string
	cp     bool
	args   []string // what the callback was shown: Val key or "nil"
}

type xerr struct{ why string }

func (e *xerr) Error() string { return e.why }

func (x *xform) fn(cur *ref.Val) (ref.Val, bool) {
	if cur == nil {
		x.args = append(x.args, "nil")
	} else {
		x.args = append(x.args, cur.Key())
	}
	switch x.repl {
	case "identity":
		if cur == nil {
			return ref.Val{}, true
		}
		return *cur, false
	case "remove":
		return ref.Val{}, true
	}
	return replVal(x.repl), false
}

func (x *xform) create(rest []string) (ref.Val, bool, error) {
	if len(rest) == 0 {
		v, removed := x.fn(nil)
		return v, removed, nil
	}
	inner, removed, err := x.create(rest[1:])
	if err != nil || removed {
		return ref.Val{}, removed, err
	}
	return ref.Map(ref.E(rest[0], inner)), false, nil
}

func canonIndex(seg string, n int) (int, bool) {
	i, err := strconv.Atoi(seg)
	if err != nil || i < 0 || strconv.Itoa(i) != seg {
		return 0, false
	}
	return i, i < n
}

func (x *xform) apply(n ref.Val, segs []string) (ref.Val, bool, error) {
	if len(segs) == 0 {
		v, removed := x.fn(&n)
		return v, removed, nil
	}
	seg, rest := segs[0], segs[1:]
	switch n.K {
	case ref.KLink:
		blk, ok := x.blocks[n.S]
		if !ok {
			return ref.Val{}, false, &xerr{"load"}
		}
		nb, _, err := x.apply(blk, segs)
		if err != nil {
			return ref.Val{}, false, err
		}
		enc, err := ref.CborEncode(nb)
		if err != nil {
			return ref.Val{}, false, &xerr{"encode"}
		}
		bin, _ := lsx.RefLink(blockProto, enc)
		x.blocks[bin] = ref.SortMaps(nb, ref.LessLenFirst)
		return ref.Link(bin), false, nil
	case ref.KMap:
		for i, e := range n.M {
			if e.K != seg {
				continue
			}
			c, removed, err := x.apply(e.V, rest)
			if err != nil {
				return ref.Val{}, false, err
			}
			out := ref.Map()
			out.M = append(out.M, n.M[:i]...)
			if !removed {
				out.M = append(out.M, ref.Entry{K: seg, V: c})
			}
			out.M = append(out.M, n.M[i+1:]...)
			return out, false, nil
		}
		if len(rest) > 0 && !x.cp {
			return ref.Val{}, false, &xerr{"missing-parent"}
		}
		c, removed, err := x.create(rest)
		if err != nil {
			return ref.Val{}, false, err
		}
		if removed {
			return n, false, nil
		}
		out := ref.Map(append(append([]ref.Entry(nil), n.M...), ref.Entry{K: seg, V: c})...)
		return out, false, nil
	case ref.KList:
		if seg == "-" {
			if len(rest) > 0 && !x.cp {
				return ref.Val{}, false, &xerr{"missing-parent(list-append)"}
			}
			c, removed, err := x.create(rest)
			if err != nil {
				return ref.Val{}, false, err
			}
			if removed {
				return n, false, nil
			}
			return ref.List(append(append([]ref.Val(nil), n.L...), c)...), false, nil
		}
		i, ok := canonIndex(seg, len(n.L))
		if !ok {
			return ref.Val{}, false, &xerr{"bad-index"}
		}
		c, removed, err := x.apply(n.L[i], rest)
		if err != nil {
			return ref.Val{}, false, err
		}
		out := ref.List()
		out.L = append(out.L, n.L[:i]...)
		if !removed {
			out.L = append(out.L, c)
		}
		out.L = append(out.L, n.L[i+1:]...)
		return out, false, nil
	}
	return ref.Val{}, false, &xerr{"scalar-in-the-middle"}
}

// expand replaces links by the blocks they name (recursively); missing blocks stay links.
func expand(v ref.Val, blocks map[string]ref.Val) ref.Val {
	switch v.K {
	case ref.KLink:
		if b, ok := blocks[v.S]; ok {
			return ref.Map(ref.E("→", expand(b, blocks)))
		}
	case ref.KList:
		o := ref.List()
		for _, c := range v.L {
			o.L = append(o.L, expand(c, blocks))
		}
		return o
	case ref.KMap:
		o := ref.Map()
		for _, e := range v.M {
			o.M = append(o.M, ref.Entry{K: e.K, V: expand(e.V, blocks)})
		}
		return o
	}
	return v
}

func expandLib(n datamodel.Node, ls *linking.LinkSystem) ref.Val {
	v, _ := ref.Read1(n)
	var rec func(v ref.Val) ref.Val
	rec = func(v ref.Val) ref.Val {
		switch v.K {
		case ref.KLink:
			x, err := ls.Load(linking.LinkContext{}, ref.MkLink(v.S), basicnode.Prototype.Any)
			if err == nil {
				b, _ := ref.Read1(x)
				return ref.Map(ref.E("→", rec(b)))
			}
		case ref.KList:
			o := ref.List()
			for _, c := range v.L {
				o.L = append(o.L, rec(c))
			}
			return o
		case ref.KMap:
			o := ref.Map()
			for _, e := range v.M {
				o.M = append(o.M, ref.Entry{K: e.K, V: rec(e.V)})
			}
			return o
		}
		return v
	}
	return rec(v)
}

func targetClass(g trav.Graph, segs []string) string {
	// classify the target for signatures: existing / new-key / append / through-link …
	n := g.Root
	via := ""
	for i, s := range segs {
		for n.K == ref.KLink {
			b, ok := g.Blocks[n.S]
			if !ok {
				return via + "dangling"
			}
			n = b
			via = "through-link:"
		}
		last := i == len(segs)-1
		switch n.K {
		case ref.KMap:
			found := false
			for _, e := range n.M {
				if e.K == s {
					n, found = e.V, true
				}
			}
			if !found {
				if last {
					return via + "new-map-key"
				}
				return via + "missing-parent"
			}
		case ref.KList:
			if s == "-" {
				if last {
					return via + "list-append"
				}
				return via + "list-append-deeper"
			}
			i, ok := canonIndex(s, len(n.L))
			if !ok {
				return via + "bad-index"
			}
			n = n.L[i]
		default:
			return via + "scalar-in-the-middle"
		}
	}
	k := "existing"
	if len(segs) == 0 {
		k = "root"
	} else if n.K == ref.KLink {
		k = "existing-link"
	}
	return via + k
}

func parentKind(g trav.Graph, segs []string) string {
	if len(segs) == 0 {
		return "none"
	}
	v, st := trav.Resolve(g, segs[:len(segs)-1])
	if st != "ok" {
		return "none"
	}
	return v.K.String()
}

func CheckFocused(b *trav.Built, c FCase) (fs []core.Finding, outcome string) {
	where := fmt.Sprintf("FocusedTransform(%q, %s, createParents=%v) over %s", c.Segs, c.Repl, c.CreateParents, c.Graph)
	tclass := targetClass(b.G, c.Segs)
	// reference
	x := &xform{blocks: map[string]ref.Val{}, repl: c.Repl, cp: c.CreateParents}
	for k, v := range b.G.Blocks {
		x.blocks[k] = v
	}
	want, removedRoot, werr := x.apply(b.G.Root, c.Segs)
	if removedRoot {
		return nil, "root-removal-unspecified"
	}
	// snapshot of the inputs
	before, _ := ref.Read1(b.Root)
	storeBefore := map[string][]byte{}
	for k, v := range b.Store.M {
		storeBefore[k] = append([]byte(nil), v...)
	}
	defer func() { // restore the shared store for the next case
		for k := range b.Store.M {
			if _, ok := storeBefore[k]; !ok {
				delete(b.Store.M, k)
			}
		}
	}()
	var args []string
	fn := func(p traversal.Progress, n datamodel.Node) (datamodel.Node, error) {
		if n == nil {
			args = append(args, "nil")
		} else {
			v, _ := ref.Read1(n)
			if v.K == ref.KAbsent {
				args = append(args, "nil")
			} else {
				args = append(args, v.Key())
			}
		}
		switch c.Repl {
		case "identity":
			return n, nil
		case "remove":
			return nil, nil
		}
		return ref.Basic(replVal(c.Repl)), nil
	}
	var ps []datamodel.PathSegment
	for _, s := range c.Segs {
		if c.IntForm && canonicalNumeral(s) {
			n, _ := strconv.Atoi(s)
			ps = append(ps, datamodel.PathSegmentOfInt(int64(n)))
			continue
		}
		ps = append(ps, datamodel.PathSegmentOfString(s))
	}
	var res datamodel.Node
	var err error
	pan := core.Guard(func() {
		res, err = traversal.Progress{Cfg: b.Config()}.FocusedTransform(b.Root, datamodel.NewPath(ps), fn, c.CreateParents)
	})
	site := "focused/" + c.Repl + "@" + tclass
	if pan != "" {
		return []core.Finding{core.F(site+"/panic("+core.Class(pan)+")", "%s: %s", where, pan)}, "panic"
	}
	// inputs unchanged
	after, _ := ref.Read1(b.Root)
	if !ref.Equal(before, after) {
		fs = append(fs, core.F(site+"/input-node-changed", "%s: input was %s, now %s", where, before, after))
	}
	for k, v := range storeBefore {
		if !bytes.Equal(b.Store.M[k], v) {
			fs = append(fs, core.F(site+"/input-block-changed", "%s", where))
		}
	}
	switch {
	case werr != nil && err == nil:
		got, _ := ref.Read1(res)
		fs = append(fs, core.F(site+"/no-error-for-unreachable-target("+werr.Error()+")", "%s: expected an error (%v), got %s", where, werr, got))
		return fs, "bad"
	case werr == nil && err != nil:
		fs = append(fs, core.F(site+"/error-for-reachable-target("+core.Class(err.Error())+")", "%s: expected %s, got error %v", where, want, err))
		return fs, "bad"
	case werr != nil:
		return fs, "ok:error:" + werr.Error()
	}
	got, incs := ref.Observe(res)
	if len(incs) > 0 {
		fs = append(fs, core.F(site+"/result-node-broken:"+incs[0].Cause, "%s: expected %s; result reads as %s: %s", where, want, got, incs[0].Detail))
	} else if !ref.Equal(got, want) {
		fs = append(fs, core.F(site+"/result-differs", "%s: expected %s, got %s", where, want, got))
	} else {
		// across links: loading from the new root reproduces the updated graph
		ew, el := expand(want, x.blocks), expandLib(res, b.LS)
		if !ref.Equal(ew, el) {
			fs = append(fs, core.F(site+"/reloaded-graph-differs", "%s: expected %s, loaded %s", where, ew, el))
		}
	}
	// the callback saw the node at the target, once
	if len(fs) == 0 && strings.Join(args, ";") != strings.Join(x.args, ";") {
		cls := "argument"
		if len(args) != len(x.args) {
			cls = fmt.Sprintf("called-%d-times", len(args))
		}
		fs = append(fs, core.F(site+"/callback-"+cls, "%s: callback saw %v, expected %v", where, args, x.args))
	}
	if len(fs) > 0 {
		return fs, "bad"
	}
	return nil, "ok:" + tclass
}

var segAlphabet = []string{"a", "b", "0", "1", "z", "-", "5"}

func graphs(quick bool) []trav.GraphSpec {
	n, maxCuts := 4, 2
	if !quick {
		n, maxCuts = 5, 2
	}
	var out []trav.GraphSpec
	for _, t := range trav.GraphTrees(n, trav.GraphLeaves(true)[:1]) {
		for _, cuts := range trav.CutSets(t, maxCuts, false) {
			out = append(out, trav.GraphSpec{Tree: t, Cuts: cuts})
		}
	}
	for _, t := range trav.GraphTrees(3, trav.GraphLeaves(true)[1:]) {
		out = append(out, trav.GraphSpec{Tree: t})
	}
	// null and boolean leaves: an entry that exists and holds null is not a missing entry
	for _, t := range trav.GraphTrees(3, []ref.Val{ref.Null(), ref.Bool(false)}) {
		if t.K == ref.KNull {
			// a tree that is only the null singleton: its prototype's builder panics by its documented
			// contract (datamodel/unit.go), so there is nothing a transform could rebuild it with
			continue
		}
		for _, cuts := range trav.CutSets(t, 1, true) {
			out = append(out, trav.GraphSpec{Tree: t, Cuts: cuts})
		}
	}
	// records in a list: the same selector step meets several nodes in one walk
	rec := func(k int64) ref.Val {
		return ref.Map(ref.E("a", ref.Int(k)), ref.E("b", ref.Int(k+1)), ref.E("c", ref.Int(k+2)))
	}
	recs := ref.List(rec(1), rec(4), rec(7))
	tups := ref.List(ref.List(ref.Int(1), ref.Int(2), ref.Int(3)), ref.List(ref.Int(4), ref.Int(5), ref.Int(6)))
	out = append(out, trav.GraphSpec{Tree: recs}, trav.GraphSpec{Tree: recs, Cuts: []int{1, 5, 9}}, trav.GraphSpec{Tree: recs, Cuts: []int{5}},
		trav.GraphSpec{Tree: tups}, trav.GraphSpec{Tree: tups, Cuts: []int{1, 5}})
	return out
}

func paths(maxLen int) [][]string {
	var out [][]string
	var rec func(cur []string)
	rec = func(cur []string) {
		out = append(out, append([]string(nil), cur...))
		if len(cur) == maxLen {
			return
		}
		for _, s := range segAlphabet {
			rec(append(cur, s))
		}
	}
	rec(nil)
	return out
}

func hasNumeral(p []string) bool {
	for _, s := range p {
		if canonicalNumeral(s) {
			return true
		}
	}
	return false
}

// numeralTwins: maps whose keys are different strings but equal as numerals (1 | 01 | +1 | 001): every
// path of ≤2 segments over those spellings and two absent ones, in string form and in integer form,
// with every replacement — a segment names a map entry by its string.
func numeralTwins(r *core.Run) {
	leaf := ref.Int(7)
	inner := ref.Map(ref.E("01", leaf), ref.E("1", ref.List(leaf)), ref.E("+1", leaf), ref.E("001", leaf))
	missing1 := ref.Map(ref.E("01", leaf), ref.E("+1", ref.List(leaf)), ref.E("02", leaf))
	gs := []trav.GraphSpec{{Tree: inner}, {Tree: missing1}, {Tree: ref.Map(ref.E("1", inner), ref.E("01", missing1))},
		{Tree: ref.Map(ref.E("1", inner), ref.E("01", missing1)), Cuts: []int{1, 7}}, {Tree: ref.Map(ref.E("a", missing1)), Cuts: []int{1}}}
	segs := []string{"1", "01", "+1", "001", "2", "02", "a"}
	var ps [][]string
	for _, a := range segs {
		ps = append(ps, []string{a})
		for _, b := range segs {
			ps = append(ps, []string{a, b})
		}
	}
	core.ParallelFor(len(gs), func(gi int) {
		b := trav.Build(gs[gi])
		var lc core.LocalCounters
		var nt int64
		for _, p := range ps {
			for _, repl := range Repls {
				for _, cp := range []bool{false, true} {
					for _, intForm := range []bool{false, true} {
						if intForm && !hasNumeral(p) {
							continue
						}
						c := FCase{Graph: gs[gi], Segs: p, Repl: repl, CreateParents: cp, IntForm: intForm}
						fs, outcome := CheckFocused(b, c)
						lc.Transitions++
						lc.Traces++
						lc.Evals++
						if strings.HasPrefix(outcome, "ok:") && !strings.HasPrefix(outcome, "ok:error") {
							nt++
						}
						r.Report("focused", c, fs)
					}
				}
			}
		}
		lc.States = int64(len(ps))
		r.Merge(&lc)
		r.NontrivialN(nt)
	})
	r.Outcome("numeral-twin-keys")
}

var Repls = []string{"scalar", "map", "list", "identity", "remove"}

func Main(r *core.Run) {
	quick := r.Quick()
	gs := graphs(quick)
	maxLen := 2
	if !quick {
		maxLen = 3
	}
	ps := paths(maxLen)
	r.Rule(fmt.Sprintf("%d graphs (trees ≤%d nodes, every cut ≤2 into blocks, dangling links) × every path of ≤%d segments over %v (%d paths: existing positions, new keys, list append, out of range, through links, missing parents, scalar in the middle) × replacement {scalar,map,list,identity,remove} × createParents {on,off}; WalkTransforming with every selector ≤3 clauses and five record-shaped ones × {identity, constant, wrap}, each compiled selector used twice (second result = first), over the graphs plus record lists in which one selector step meets several nodes; sequences of 2 focused transforms; typed nodes (reflection binding, every family root type's richest values): identity focused transform at every position and identity walking transform, result and input compared in both views. Non-trivial = target reachable (result compared structurally); distinct by (graph, path, replacement, flag).", len(gs), map[bool]int{true: 4, false: 5}[quick], maxLen, segAlphabet, len(ps)))
	r.Assume("reference functional update mc/props/c16 (replace in place, new map key at the end, '-' appends, nil removes, parents only when requested, links re-hashed by hand with crypto/sha256 over the reference DAG-CBOR encoding)")
	r.Assume("unspecified and excluded: removal of the root itself; non-canonical list indices (\"-1\", \"01\")")
	core.ParallelFor(len(gs), func(gi int) {
		b := trav.Build(gs[gi])
		var lc core.LocalCounters
		var nt int64
		oc := map[string]int64{}
		for _, p := range ps {
			for _, repl := range Repls {
				for _, cp := range []bool{false, true} {
					if len(p) == 0 && repl != "identity" && replVal0(repl).K != b.G.Root.K {
						// the root's own prototype decides what is acceptable there: same-kind replacements only
						continue
					}
					for _, intForm := range []bool{false, true} {
						if intForm && !hasNumeral(p) {
							continue
						}
						c := FCase{Graph: gs[gi], Segs: p, Repl: repl, CreateParents: cp, IntForm: intForm}
						fs, outcome := CheckFocused(b, c)
						lc.Transitions++
						lc.Traces++
						lc.Evals++
						oc[outcome]++
						if strings.HasPrefix(outcome, "ok:") && !strings.HasPrefix(outcome, "ok:error") {
							nt++
						}
						r.Report("focused", c, fs)
					}
				}
			}
		}
		lc.States = int64(len(ps))
		walkTransforms(r, b, gs[gi], &lc, &nt, oc)
		sequences(r, b, gs[gi], &lc, &nt, oc, quick)
		r.Merge(&lc)
		r.NontrivialN(nt)
		for k, v := range oc {
			r.OutcomeN(k, v)
		}
	})
	numeralTwins(r)
	typedTransforms(r, quick)
	r.Sample(FCase{Graph: gs[len(gs)/2], Segs: []string{"0", "-"}, Repl: "map", CreateParents: true})
	r.Sample(FCase{Graph: gs[len(gs)-5], Segs: []string{"a"}, Repl: "remove"})
}

func Replay(r *core.Run, mode string, raw json.RawMessage) {
	switch mode {
	case "typed":
		var c TCase
		json.Unmarshal(raw, &c)
		replayTyped(r, c)
	case "focused":
		var c FCase
		if err := json.Unmarshal(raw, &c); err != nil {
			panic(err)
		}
		fs, _ := CheckFocused(trav.Build(c.Graph), c)
		r.Report("focused", c, fs)
	case "walk":
		var c WCase
		if err := json.Unmarshal(raw, &c); err != nil {
			panic(err)
		}
		fs, _ := CheckWalkTransform(trav.Build(c.Graph), c)
		r.Report("walk", c, fs)
	case "sequence":
		var c SCase
		if err := json.Unmarshal(raw, &c); err != nil {
			panic(err)
		}
		fs, _ := CheckSequence(trav.Build(c.Graph), c)
		r.Report("sequence", c, fs)
	}
}

func replVal0(r string) ref.Val {
	if r == "remove" {
		return ref.Val{}
	}
	return replVal(r)
}
