package c16

import (
	"fmt"
	"strings"

	"github.com/ipld/go-ipld-prime/datamodel"
	"github.com/ipld/go-ipld-prime/traversal"

	"verif/mc/core"
	"verif/mc/lsx"
	"verif/mc/ref"
	"verif/mc/trav"
)

type WCase struct {
	Graph trav.GraphSpec `json:"graph"`
	Sel   *trav.Sel      `json:"selector"`
	Text  string         `json:"selector_text"`
	Fn    string         `json:"transform"` // identity, constant, wrap
}

func hasSubset(s *trav.Sel) bool { return strings.Contains(s.String(), ".[") }

// refWalkTransform: replace every matched node (in the reference's 'm' visits, outermost first: a
// replaced node is not explored further); rebuild parents; re-link blocks that changed.
func refWalkTransform(g trav.Graph, s *trav.Sel, fn string) (ref.Val, map[string]ref.Val, bool) {
	blocks := map[string]ref.Val{}
	for k, v := range g.Blocks {
		blocks[k] = v
	}
	u := trav.Denote(g, s)
	if u.Err != "" {
		return ref.Val{}, nil, false
	}
	matched := map[string]bool{}
	visited := map[string]bool{}
	for _, v := range u.Visits {
		visited[v.Path] = true
		if v.Reason == 'm' {
			matched[v.Path] = true
		}
	}
	var rec func(n ref.Val, path string) ref.Val
	rec = func(n ref.Val, path string) ref.Val {
		if n.K == ref.KLink && path != "" && visited[path] {
			if blk, ok := blocks[n.S]; ok {
				nb := rec2(blk, path, matched, visited, fn, rec)
				if ref.Equal(nb, blk) {
					return n
				}
				enc, _ := ref.CborEncode(nb)
				bin, _ := lsx.RefLink(blockProto, enc)
				blocks[bin] = ref.SortMaps(nb, ref.LessLenFirst)
				return ref.Link(bin)
			}
		}
		return rec2(n, path, matched, visited, fn, rec)
	}
	out := rec2(g.Root, "", matched, visited, fn, rec)
	return out, blocks, true
}

func rec2(n ref.Val, path string, matched, visited map[string]bool, fn string, rec func(ref.Val, string) ref.Val) ref.Val {
	if matched[path] {
		switch fn {
		case "constant":
			return ref.Int(99)
		case "wrap":
			return ref.List(n)
		}
	}
	join := func(seg string) string {
		if path == "" {
			return seg
		}
		return path + "/" + seg
	}
	switch n.K {
	case ref.KList:
		o := ref.List()
		for i, c := range n.L {
			p := join(fmt.Sprint(i))
			if visited[p] {
				o.L = append(o.L, rec(c, p))
			} else {
				o.L = append(o.L, c)
			}
		}
		return o
	case ref.KMap:
		o := ref.Map()
		for _, e := range n.M {
			p := join(e.K)
			if visited[p] {
				o.M = append(o.M, ref.Entry{K: e.K, V: rec(e.V, p)})
			} else {
				o.M = append(o.M, e)
			}
		}
		return o
	}
	return n
}

func CheckWalkTransform(b *trav.Built, c WCase) (fs []core.Finding, outcome string) {
	sel, err := c.Sel.Compile()
	if err != nil {
		return nil, "uncompilable"
	}
	where := fmt.Sprintf("WalkTransforming(%s, %s) over %s", c.Sel, c.Fn, c.Graph)
	want, blocks, ok := refWalkTransform(b.G, c.Sel, c.Fn)
	if !ok {
		return nil, "reference-walk-fails"
	}
	before, _ := ref.Read1(b.Root)
	storeKeys := map[string]bool{}
	for k := range b.Store.M {
		storeKeys[k] = true
	}
	defer func() {
		for k := range b.Store.M {
			if !storeKeys[k] {
				delete(b.Store.M, k)
			}
		}
	}()
	var res, res2 datamodel.Node
	var err2 error
	pan := core.Guard(func() {
		fn := func(p traversal.Progress, n datamodel.Node) (datamodel.Node, error) {
			switch c.Fn {
			case "constant":
				return ref.Basic(ref.Int(99)), nil
			case "wrap":
				v, _ := ref.Read1(n)
				return ref.Basic(ref.List(v)), nil
			}
			return n, nil
		}
		res, err = traversal.Progress{Cfg: b.Config()}.WalkTransforming(b.Root, sel, fn)
		// the same compiled selector once more: a transform leaves the selector as it found it
		res2, err2 = traversal.Progress{Cfg: b.Config()}.WalkTransforming(b.Root, sel, fn)
	})
	crossesLink := len(trav.Denote(b.G, c.Sel).Loads) > 0
	site := "walktransform/" + c.Fn
	if crossesLink {
		site += "/across-link"
	}
	if pan != "" {
		return []core.Finding{core.F(site+"/panic("+core.Class(pan)+")", "%s: %s", where, pan)}, "panic"
	}
	if err != nil {
		return []core.Finding{core.F(site+"/error("+core.Class(err.Error())+")", "%s: %v", where, err)}, "bad"
	}
	after, _ := ref.Read1(b.Root)
	if !ref.Equal(before, after) {
		fs = append(fs, core.F(site+"/input-node-changed", "%s: input was %s, now %s", where, before, after))
	}
	got, incs := ref.Observe(res)
	if len(incs) > 0 {
		fs = append(fs, core.F(site+"/result-node-broken:"+incs[0].Cause, "%s: %s", where, incs[0].Detail))
	} else if !ref.Equal(got, want) {
		cause := "result-differs"
		if ref.Equal(expandInline(got), expandInline(expand(want, blocks))) || crossesLink && ref.Equal(got, inlineAll(want, blocks)) {
			cause = "loaded-block-inlined-instead-of-relinked"
		}
		fs = append(fs, core.F(site+"/"+cause, "%s: expected %s, got %s", where, want, got))
	}
	if err2 != nil {
		fs = append(fs, core.F(site+"/second-use-of-selector/error("+core.Class(err2.Error())+")", "%s: %v", where, err2))
	} else if got2, incs2 := ref.Observe(res2); len(incs2) > 0 || !ref.Equal(got2, got) {
		fs = append(fs, core.F(site+"/second-use-of-selector/result-differs", "%s: first use %s, second use of the same compiled selector %s %v", where, got, got2, incs2))
	}
	if len(fs) > 0 {
		return fs, "bad"
	}
	return nil, "ok:" + c.Fn
}

// inlineAll replaces every resolvable link by its block's content (what an inlining transform yields).
func inlineAll(v ref.Val, blocks map[string]ref.Val) ref.Val {
	switch v.K {
	case ref.KLink:
		if b, ok := blocks[v.S]; ok {
			return inlineAll(b, blocks)
		}
	case ref.KList:
		o := ref.List()
		for _, c := range v.L {
			o.L = append(o.L, inlineAll(c, blocks))
		}
		return o
	case ref.KMap:
		o := ref.Map()
		for _, e := range v.M {
			o.M = append(o.M, ref.Entry{K: e.K, V: inlineAll(e.V, blocks)})
		}
		return o
	}
	return v
}

func expandInline(v ref.Val) ref.Val {
	switch v.K {
	case ref.KList:
		o := ref.List()
		for _, c := range v.L {
			o.L = append(o.L, expandInline(c))
		}
		return o
	case ref.KMap:
		if len(v.M) == 1 && v.M[0].K == "→" {
			return expandInline(v.M[0].V)
		}
		o := ref.Map()
		for _, e := range v.M {
			o.M = append(o.M, ref.Entry{K: e.K, V: expandInline(e.V)})
		}
		return o
	}
	return v
}

var wtSelectors []*trav.Sel

func init() {
	for _, s := range trav.Enumerate(trav.QuickAlphabet(), 3) {
		if !hasSubset(s) {
			wtSelectors = append(wtSelectors, s)
		}
	}
	// one selector step applied to several nodes of one walk (records in a list, each maybe its own block)
	ab := trav.Fld(trav.F1("a", trav.M()), trav.F1("b", trav.M()))
	wtSelectors = append(wtSelectors, trav.All(ab), trav.All(trav.Rng(0, 2, trav.M())), trav.All(trav.All(trav.M())),
		trav.All(trav.Fld(trav.F1("b", trav.M()), trav.F1("c", trav.M()))),
		trav.Rec(-1, trav.All(trav.Un(trav.Edge(), ab))))
	wtSelectors = append(wtSelectors, trav.Rec(-1, trav.Un(trav.M(), trav.All(trav.Edge()))), trav.Rec(-1, trav.All(trav.Un(trav.Edge(), trav.Fld(trav.F1("a", trav.M()))))))
}

func walkTransforms(r *core.Run, b *trav.Built, g trav.GraphSpec, lc *core.LocalCounters, nt *int64, oc map[string]int64) {
	for _, s := range wtSelectors {
		for _, fn := range []string{"identity", "constant", "wrap"} {
			c := WCase{Graph: g, Sel: s, Text: s.String(), Fn: fn}
			fs, outcome := CheckWalkTransform(b, c)
			lc.Transitions++
			lc.Traces++
			lc.Evals++
			oc["walk:"+outcome]++
			if strings.HasPrefix(outcome, "ok:") {
				*nt++
			}
			r.Report("walk", c, fs)
		}
	}
}

// ---- sequences of focused transforms applied to each other's results ----

type Step struct {
	Segs []string `json:"path"`
	Repl string   `json:"replacement"`
}

type SCase struct {
	Graph trav.GraphSpec `json:"graph"`
	Steps []Step         `json:"steps"`
}

func CheckSequence(b *trav.Built, c SCase) (fs []core.Finding, outcome string) {
	where := fmt.Sprintf("sequence %v over %s", c.Steps, c.Graph)
	blocks := map[string]ref.Val{}
	for k, v := range b.G.Blocks {
		blocks[k] = v
	}
	storeKeys := map[string]bool{}
	for k := range b.Store.M {
		storeKeys[k] = true
	}
	defer func() {
		for k := range b.Store.M {
			if !storeKeys[k] {
				delete(b.Store.M, k)
			}
		}
	}()
	cur := b.G.Root
	node := b.Root
	var inter []datamodel.Node
	var interVals []ref.Val
	for i, st := range c.Steps {
		x := &xform{blocks: blocks, repl: st.Repl, cp: true}
		want, removedRoot, werr := x.apply(cur, st.Segs)
		if removedRoot {
			return nil, "root-removal-unspecified"
		}
		var ps []datamodel.PathSegment
		for _, s := range st.Segs {
			ps = append(ps, datamodel.PathSegmentOfString(s))
		}
		var res datamodel.Node
		var err error
		pan := core.Guard(func() {
			res, err = traversal.Progress{Cfg: b.Config()}.FocusedTransform(node, datamodel.NewPath(ps), func(p traversal.Progress, n datamodel.Node) (datamodel.Node, error) {
				switch st.Repl {
				case "identity":
					return n, nil
				case "remove":
					return nil, nil
				}
				return ref.Basic(replVal(st.Repl)), nil
			}, true)
		})
		if pan != "" {
			return []core.Finding{core.F(fmt.Sprintf("sequence/step%d/panic(%s)", i, core.Class(pan)), "%s: %s", where, pan)}, "panic"
		}
		if (werr != nil) != (err != nil) {
			return []core.Finding{core.F(fmt.Sprintf("sequence/step%d/error-mismatch", i), "%s: reference err %v, library err %v", where, werr, err)}, "bad"
		}
		if werr != nil {
			return nil, "ok:error"
		}
		got, incs := ref.Observe(res)
		if len(incs) > 0 || !ref.Equal(got, want) {
			return []core.Finding{core.F(fmt.Sprintf("sequence/step%d/result-differs", i), "%s: expected %s, got %s %v", where, want, got, incs)}, "bad"
		}
		inter = append(inter, node)
		interVals = append(interVals, cur)
		cur, node = want, res
	}
	// every intermediate result is still what it was
	for i, n := range inter {
		v, _ := ref.Read1(n)
		if !ref.Equal(v, interVals[i]) {
			fs = append(fs, core.F("sequence/earlier-result-changed", "%s: result %d was %s, now %s", where, i, interVals[i], v))
		}
	}
	if len(fs) > 0 {
		return fs, "bad"
	}
	return nil, "ok"
}

func sequences(r *core.Run, b *trav.Built, g trav.GraphSpec, lc *core.LocalCounters, nt *int64, oc map[string]int64, quick bool) {
	if g.Tree.Size() > 3 && quick {
		return
	}
	var steps []Step
	for _, p := range paths(1) {
		for _, repl := range []string{"map", "remove", "list"} {
			if len(p) == 0 {
				continue // the root accepts only what its own prototype accepts; covered by the single-step sweep
			}
			steps = append(steps, Step{p, repl})
		}
	}
	steps = append(steps, Step{[]string{"a", "n"}, "scalar"}, Step{[]string{"0", "-"}, "scalar"}, Step{[]string{"z", "z"}, "map"})
	depth := 2
	var rec func(prefix []Step)
	rec = func(prefix []Step) {
		if len(prefix) == depth {
			c := SCase{Graph: g, Steps: append([]Step(nil), prefix...)}
			fs, outcome := CheckSequence(b, c)
			lc.Transitions += int64(depth)
			lc.Traces++
			lc.Evals++
			oc["sequence:"+outcome]++
			if outcome == "ok" {
				*nt++
			}
			r.Report("sequence", c, fs)
			return
		}
		for _, s := range steps {
			rec(append(prefix, s))
		}
	}
	rec(nil)
}
