package c16

import (
	"strings"
	"fmt"

	"github.com/ipld/go-ipld-prime/datamodel"
	"github.com/ipld/go-ipld-prime/schema"
	"github.com/ipld/go-ipld-prime/traversal"

	"verif/mc/core"
	"verif/mc/ref"
	"verif/mc/rs"
	"verif/mc/trav"
	"verif/mc/typed"
)

// Transforms over typed nodes (reflection binding): for every root type of the schema families and
// its richest values, an identity focused transform at every position of the type-level tree, and an
// identity walking transform over everything, must return a tree that reads — in both views — as the
// original, and leave the original as it was. (What a transform rebuilds around the target goes
// through the typed builders: AssignNode of sibling entries, Begin/Finish of the parents.)

type TCase struct {
	Schema string   `json:"schema"`
	Type   string   `json:"type"`
	Value  ref.Val  `json:"value"`
	Path   []string `json:"path,omitempty"`
	Walk   bool     `json:"walking_transform,omitempty"`
}

const typedValuesCap, typedPathsCap = 12, 16

func bothViews(n datamodel.Node) ref.Val {
	v := ref.ReadTyped(n)
	if tn, ok := n.(schema.TypedNode); ok {
		return ref.List(v, ref.ReadTyped(tn.Representation()))
	}
	return ref.List(v)
}

func buildTyped(s *rs.Schema, t *rs.Type, v ref.Val) datamodel.Node {
	eng := typed.NewBindEngine()
	var root datamodel.Node
	core.Guard(func() {
		if s.ComplexKeys(t) {
			r, _ := s.Repr(t, v)
			nb := eng.Proto(s, t.Name, true).NewBuilder()
			if ref.Assign(nb, r) == nil {
				root = nb.Build()
			}
			return
		}
		nb := eng.Proto(s, t.Name, false).NewBuilder()
		if ref.Assign(nb, s.FeedType(t, v)) == nil {
			root = nb.Build()
		}
	})
	return root
}

func typedPaths(root datamodel.Node) (out []datamodel.Path) {
	core.Guard(func() {
		traversal.WalkLocal(root, func(p traversal.Progress, n datamodel.Node) error {
			if n.IsAbsent() || n.Kind() == datamodel.Kind_Link || len(out) >= typedPathsCap {
				return nil
			}
			out = append(out, p.Path)
			return nil
		})
	})
	return
}

// refPaths: the positions of typed value v by the schema's own account (struct fields by name, union
// members by type name, list elements by index, map entries by the representation string of their
// key), independent of how the library's walks name them.
func refPaths(s *rs.Schema, t *rs.Type, v ref.Val, prefix []string, out *[][]string) {
	if len(*out) >= typedPathsCap {
		return
	}
	*out = append(*out, append([]string(nil), prefix...))
	if v.K == ref.KNull || v.K == ref.KAbsent {
		return
	}
	sub := func(seg string, ct *rs.Type, cv ref.Val) {
		if cv.K == ref.KAbsent || cv.K == ref.KLink {
			return
		}
		refPaths(s, ct, cv, append(append([]string(nil), prefix...), seg), out)
	}
	switch t.Kind {
	case rs.TStruct:
		for i, f := range t.Fields {
			if i < len(v.M) {
				sub(f.Name, s.T(f.Type), v.M[i].V)
			}
		}
	case rs.TUnion:
		if len(v.M) == 1 {
			sub(v.M[0].K, s.T(v.M[0].K), v.M[0].V)
		}
	case rs.TList:
		for i, c := range v.L {
			sub(fmt.Sprint(i), s.T(t.ValType), c)
		}
	case rs.TMap:
		for _, e := range v.M {
			seg := e.K
			if t.KeyType != "" && t.KeyType != "String" && s.T(t.KeyType).Kind == rs.TEnum {
				if r, ok := s.Repr(s.T(t.KeyType), ref.Str(e.K)); ok && r.K == ref.KString {
					seg = r.S
				}
			}
			sub(seg, s.T(t.ValType), e.V)
		}
	}
}

func CheckTyped(s *rs.Schema, t *rs.Type, c TCase) (fs []core.Finding, n int) {
	root := buildTyped(s, t, c.Value)
	if root == nil {
		return nil, 0 // a value the engine cannot build is C08's finding
	}
	before := bothViews(root)
	site := "typed-transform/" + rs.Strategy(t)
	where := fmt.Sprintf("bindnode %s.%s value %s", s.Name, t.Name, c.Value)
	check := func(what string, res datamodel.Node, err error, pan string) {
		n++
		switch {
		case pan != "":
			fs = append(fs, core.F(site+"/panic("+core.Class(pan)+")", "%s, %s: %s", where, what, pan))
		case err != nil:
			fs = append(fs, core.F(site+"/identity-fails("+core.Class(err.Error())+")", "%s, %s: %v", where, what, err))
		default:
			if got := bothViews(res); !ref.Equal(got, before) {
				fs = append(fs, core.F(site+"/identity-result-differs", "%s, %s: the original reads %s, the result %s", where, what, before, got))
			}
		}
		if after := bothViews(root); !ref.Equal(after, before) {
			fs = append(fs, core.F(site+"/input-node-changed", "%s, %s: the input read %s, now %s", where, what, before, after))
		}
	}
	identity := func(_ traversal.Progress, n datamodel.Node) (datamodel.Node, error) { return n, nil }
	if c.Walk {
		sel, _ := trav.Rec(-1, trav.Un(trav.M(), trav.All(trav.Edge()))).Compile()
		var res datamodel.Node
		var err error
		pan := core.Guard(func() { res, err = traversal.WalkTransforming(root, sel, identity) })
		check("identity WalkTransforming over everything", res, err, pan)
		return
	}
	var segs []datamodel.PathSegment
	for _, sg := range c.Path {
		segs = append(segs, datamodel.PathSegmentOfString(sg))
	}
	p := datamodel.NewPath(segs)
	var res datamodel.Node
	var err error
	pan := core.Guard(func() { res, err = traversal.FocusedTransform(root, p, identity, false) })
	check(fmt.Sprintf("identity FocusedTransform at %q", p.String()), res, err, pan)
	return
}

func anyEmpty(segs []string) bool {
	for _, sg := range segs {
		if sg == "" {
			return true
		}
	}
	return false
}

func typedTransforms(r *core.Run, quick bool) {
	type job struct {
		s *rs.Schema
		t *rs.Type
	}
	var jobs []job
	for _, s := range rs.Families(quick) {
		for _, tn := range s.Roots {
			jobs = append(jobs, job{s, s.T(tn)})
		}
	}
	core.ParallelFor(len(jobs), func(i int) {
		s, t := jobs[i].s, jobs[i].t
		vals := s.Values(t, 0)
		if len(vals) > typedValuesCap {
			vals = vals[len(vals)-typedValuesCap:]
		}
		var lc core.LocalCounters
		var nt int64
		for _, v := range vals {
			root := buildTyped(s, t, v)
			if root == nil {
				continue
			}
			var cases []TCase
			if !hasLink(v) {
				// (the walking transform follows links, and these values' links lead nowhere)
				cases = append(cases, TCase{Schema: s.Name, Type: t.Name, Value: v, Walk: true})
			}
			seenPath := map[string]bool{}
			for _, p := range typedPaths(root) {
				var segs []string
				for _, sg := range p.Segments() {
					segs = append(segs, sg.String())
				}
				seenPath[strings.Join(segs, "\x00/")] = true
				cases = append(cases, TCase{Schema: s.Name, Type: t.Name, Value: v, Path: segs})
			}
			// the same positions by the schema's account (an enum-keyed entry by the key's representation
			// string), whatever the library's own walk calls them
			var rp [][]string
			refPaths(s, t, v, nil, &rp)
			for _, segs := range rp {
				if !seenPath[strings.Join(segs, "\x00/")] && !anyEmpty(segs) {
					cases = append(cases, TCase{Schema: s.Name, Type: t.Name, Value: v, Path: segs})
				}
			}
			for _, c := range cases {
				fs, n := CheckTyped(s, t, c)
				lc.States++
				lc.Transitions += int64(n)
				lc.Evals += int64(n)
				lc.Traces++
				if len(c.Path) > 0 {
					nt++
				}
				if len(fs) > 2 {
					fs = fs[:2]
				}
				r.Report("typed", c, fs)
			}
		}
		r.Merge(&lc)
		r.NontrivialN(nt)
	})
	r.Set("typed_transforms", map[string]any{"root_types": len(jobs), "values_per_type_cap": typedValuesCap, "paths_per_value_cap": typedPathsCap})
	r.Outcome("typed-transforms")
}

func replayTyped(r *core.Run, c TCase) {
	for _, s := range rs.Families(false) {
		if s.Name == c.Schema && s.T(c.Type) != nil {
			fs, _ := CheckTyped(s, s.T(c.Type), c)
			r.Report("typed", c, fs)
			return
		}
	}
}

func hasLink(v ref.Val) bool {
	if v.K == ref.KLink {
		return true
	}
	for _, c := range v.L {
		if hasLink(c) {
			return true
		}
	}
	for _, e := range v.M {
		if hasLink(e.V) {
			return true
		}
	}
	return false
}
