// Package c17: block storage is a faithful key-value map for arbitrary binary keys.
// Built only with the overlay (fsstore's os/crypto-rand imports rewritten to the vos/vrand shims).
package c17

import (
	"bytes"
	"context"
	"encoding/base32"
	"encoding/json"
	"fmt"
	"io"
	"os"
	"path/filepath"
	"sort"
	"strings"
	"sync"

	"github.com/ipld/go-ipld-prime/storage"
	"github.com/ipld/go-ipld-prime/storage/fsstore"
	"github.com/ipld/go-ipld-prime/storage/memstore"
	"github.com/ipld/go-ipld-prime/storage/sharding"
	"github.com/ipld/go-ipld-prime/zzverif/vos"

	"verif/mc/core"
	"verif/mc/ref"
)

var b32 = base32.StdEncoding.WithPadding(base32.NoPadding)

func b32enc(s string) string { return b32.EncodeToString([]byte(s)) }

// Keys is the adversarial key alphabet.
func Keys(quick bool) []string {
	ks := []string{"", "a", "A", "a/", "a/b", "/a", ".", "..", "../x", "a/../../x", "\x00", "a\x00b",
		strings.Repeat("k", 255), strings.Repeat("k", 256),
		"xxabc", "yyabc", "zabc", "abc", "bc", // shard collisions: equal last 1/2/3/4 characters
		"ME", b32enc("ME"), // a key and its own base32 image
		".temp", ".temp/x", "00", "000",
	}
	for _, l := range ref.LinksFull()[:3] {
		ks = append(ks, l)
	}
	if !quick {
		ks = append(ks, strings.Repeat("k", 4096), "a\nb", " ", "a b", "*", "?", "é", "\xff\xfe", "-", "--", "~", "a\\b", "CON", "a.", ". ", "..."+strings.Repeat("/..", 6)+"/etc/x")
		for _, l := range ref.LinksFull()[3:8] {
			ks = append(ks, l)
		}
	}
	return ks
}

func keyClass(k string) string {
	switch {
	case k == "":
		return "empty"
	case strings.Contains(k, ".."):
		return "dotdot"
	case strings.Contains(k, "\x00"):
		return "nul"
	case strings.Contains(k, "/"):
		return "slash"
	case len(k) > 200:
		return "long"
	case k == "." || k == ".temp":
		return "dot"
	}
	return "plain"
}

func contentFor(k string, keys []string) []byte {
	i := sort.SearchStrings(keys, k)
	switch i % 4 {
	case 0:
		return []byte{}
	case 1:
		return []byte{byte(i)}
	case 2:
		return []byte{byte(i), 0, 0xff}
	}
	return bytes.Repeat([]byte{byte(i), 'x'}, 2048)
}

type Op struct {
	Kind string `json:"op"` // put, putstream1..3, putvec, get, getstream, getstream-abandon, peek, has; "f:" prefix = through storage.* functions
	Key  int    `json:"key"` // index into the case's keys
}

type Case struct {
	Store string   `json:"store"`
	Keys  []string `json:"keys_hex"`
	Ops   []Op     `json:"ops"`
}

var opKinds = []string{"put", "putstream1", "putstream3", "f:putstream2", "f:putvec", "f:putvec1", "f:putvec3", "get", "f:get", "getstream", "f:getstream", "getstream-abandon", "f:peek", "has"}

type anyStore interface {
	storage.ReadableStorage
	storage.WritableStorage
}

// logController records every path the store hands to the filesystem.
type logController struct {
	mu    sync.Mutex
	paths []string
}

func (l *logController) Before(ev vos.Event) vos.Verdict {
	l.mu.Lock()
	l.paths = append(l.paths, ev.Op+" "+ev.Path)
	if ev.Path2 != "" {
		l.paths = append(l.paths, ev.Op+"→ "+ev.Path2)
	}
	l.mu.Unlock()
	return vos.Verdict{Partial: -1}
}

type env struct {
	st    anyStore
	tmp   string
	base  string
	log   *logController
	unreg func()
}

func newEnv(store string) (*env, error) {
	if store == "memstore" {
		return &env{st: &memstore.Store{}}, nil
	}
	tmp, err := os.MkdirTemp(core.TmpRoot(), "c17-")
	if err != nil {
		return nil, err
	}
	// the base directory sits three levels below the execution's root so that keys climbing a few
	// levels stay inside the tree the shim will let this execution touch
	e := &env{tmp: tmp, base: filepath.Join(tmp, "l1", "l2", "base"), log: &logController{}}
	os.MkdirAll(e.base, 0o777)
	dir := filepath.Dir(e.base)
	os.WriteFile(filepath.Join(dir, "sentinel"), []byte("sentinel"), 0o644)
	os.Mkdir(filepath.Join(dir, "beside"), 0o777)
	os.WriteFile(filepath.Join(dir, "beside", "file"), []byte("beside"), 0o644)
	e.unreg = vos.Register(tmp, e.log)
	fs := &fsstore.Store{}
	switch store {
	case "fsstore-default":
		err = fs.InitDefaults(e.base)
	case "fsstore-r122":
		err = fs.Init(e.base, b32enc, sharding.Shard_r122)
	case "fsstore-r133":
		err = fs.Init(e.base, b32enc, sharding.Shard_r133)
	default:
		panic("unknown store " + store)
	}
	if err != nil {
		return nil, err
	}
	e.st = fs
	return e, nil
}

func (e *env) close() {
	if e.tmp != "" {
		e.unreg()
		os.RemoveAll(e.tmp)
	}
}

// containment: every logged path under base; nothing beside base touched.
func (e *env) containment() []string {
	if e.tmp == "" {
		return nil
	}
	var bad []string
	e.log.mu.Lock()
	for _, p := range e.log.paths {
		path := p[strings.Index(p, " ")+1:]
		c := filepath.Clean(path)
		if c != e.base && !strings.HasPrefix(c, e.base+string(filepath.Separator)) {
			bad = append(bad, p)
		}
	}
	e.log.mu.Unlock()
	dir := filepath.Dir(e.base)
	if b, err := os.ReadFile(filepath.Join(dir, "sentinel")); err != nil || string(b) != "sentinel" {
		bad = append(bad, "sentinel file changed")
	}
	if b, err := os.ReadFile(filepath.Join(dir, "beside", "file")); err != nil || string(b) != "beside" {
		bad = append(bad, "beside/file changed")
	}
	for d, want := range map[string]int{dir: 3, filepath.Join(dir, "beside"): 1, filepath.Dir(dir): 1, e.tmp: 1} {
		ents, _ := os.ReadDir(d)
		if len(ents) != want {
			var names []string
			for _, en := range ents {
				names = append(names, en.Name())
			}
			bad = append(bad, fmt.Sprintf("entries created outside the base directory, in %s: %q", strings.TrimPrefix(d, e.tmp), names))
		}
	}
	bad = append(bad, vos.TakeStrays(e.tmp)...)
	return bad
}

func readAllClose(rc io.ReadCloser) ([]byte, error) {
	defer rc.Close()
	return io.ReadAll(rc)
}

// RunCase executes a history against the real store and a Go map.
var Outcomes = func(class string) {}

func RunCase(c Case, allKeys []string) (fs []core.Finding, steps int) {
	e, err := newEnv(c.Store)
	if err != nil {
		return []core.Finding{core.F(c.Store+"/init-error", "%v", err)}, 0
	}
	defer e.close()
	ctx := context.Background()
	model := map[string][]byte{}
	keys := make([]string, len(c.Keys))
	for i, h := range c.Keys {
		var b []byte
		fmt.Sscanf(h, "%x", &b)
		keys[i] = string(b)
	}
	where := func(i int) string { return fmt.Sprintf("%s keys %q ops %v (step %d)", c.Store, keys, c.Ops[:i+1], i) }
	for i, op := range c.Ops {
		k := keys[op.Key]
		content := contentFor(k, allKeys)
		kc := keyClass(k)
		var perr error
		var got []byte
		isPut, isGet := false, false
		pan := core.Guard(func() {
			switch op.Kind {
			case "put":
				isPut = true
				buf := append([]byte(nil), content...)
				perr = e.st.Put(ctx, k, buf)
				for j := range buf {
					buf[j] ^= 0xff // the caller reuses its buffer
				}
			case "putstream1", "putstream3", "f:putstream2":
				isPut = true
				var w io.Writer
				var commit func(string) error
				if op.Kind == "f:putstream2" {
					w, commit, perr = storage.PutStream(ctx, e.st)
				} else if sw, ok := e.st.(storage.StreamingWritableStorage); ok {
					w, commit, perr = sw.PutStream(ctx)
				} else {
					w, commit, perr = storage.PutStream(ctx, e.st)
				}
				if perr != nil {
					return
				}
				n := map[string]int{"putstream1": 1, "putstream3": 3, "f:putstream2": 2}[op.Kind]
				buf := append([]byte(nil), content...)
				for part := 0; part < n; part++ {
					lo, hi := len(buf)*part/n, len(buf)*(part+1)/n
					if _, perr = w.Write(buf[lo:hi]); perr != nil {
						commit("")
						return
					}
				}
				perr = commit(k)
				for j := range buf {
					buf[j] ^= 0xff
				}
			case "f:putvec", "f:putvec1", "f:putvec3":
				isPut = true
				buf := append([]byte(nil), content...)
				vec := [][]byte{buf[:len(buf)/2], buf[len(buf)/2:]}
				switch op.Kind {
				case "f:putvec1":
					vec = [][]byte{buf} // one segment: nothing to join
				case "f:putvec3":
					vec = [][]byte{buf[:len(buf)/3], buf[len(buf)/3 : len(buf)/3], buf[len(buf)/3:]} // an empty segment in the middle
				}
				perr = storage.PutVec(ctx, e.st, k, vec)
				for j := range buf {
					buf[j] ^= 0xff
				}
			case "get":
				isGet = true
				got, perr = e.st.Get(ctx, k)
				for j := range got {
					got[j] ^= 0xff // mutate what was handed back, after noting it
				}
				for j := range got {
					got[j] ^= 0xff
				}
				g2 := append([]byte(nil), got...)
				for j := range got {
					got[j] = 0xEE
				}
				got = g2
			case "f:get":
				isGet = true
				got, perr = storage.Get(ctx, e.st, k)
			case "getstream", "f:getstream":
				isGet = true
				var rc io.ReadCloser
				if sr, ok := e.st.(storage.StreamingReadableStorage); ok && op.Kind == "getstream" {
					rc, perr = sr.GetStream(ctx, k)
				} else {
					rc, perr = storage.GetStream(ctx, e.st, k)
				}
				if perr == nil {
					got, perr = readAllClose(rc)
				}
			case "getstream-abandon":
				rc, err := storage.GetStream(ctx, e.st, k)
				if err == nil {
					rc.Read(make([]byte, 1))
					rc.Close()
				}
			case "f:peek":
				isGet = true
				var cl io.Closer
				got, cl, perr = storage.Peek(ctx, e.st, k)
				if perr == nil {
					got = append([]byte(nil), got...)
					if cl != nil {
						cl.Close()
					}
				}
			case "has":
				h, err := e.st.Has(ctx, k)
				_, want := model[k]
				// a key that was never stored is reported absent; an error (e.g. a name the filesystem cannot hold) also says "not there"
				if want && (err != nil || !h) || !want && err == nil && h {
					fs = append(fs, core.F(fmt.Sprintf("%s/has-differs(%s)", c.Store, kc), "%s: Has=%v err=%v, model %v", where(i), h, err, want))
				}
			}
		})
		steps++
		if pan != "" {
			return append(fs, core.F(fmt.Sprintf("%s/panic(%s,%s)", c.Store, op.Kind, kc), "%s: %s", where(i), pan)), steps
		}
		if isPut {
			if perr == nil {
				Outcomes(c.Store + "/put-ok(" + kc + ")")
			} else {
				Outcomes(c.Store + "/put-refused(" + kc + ")")
			}
		}
		if isPut && perr == nil {
			if old, ok := model[k]; ok && !bytes.Equal(old, content) {
				panic("harness: one content per key")
			}
			model[k] = content
		}
		if isGet {
			want, ok := model[k]
			switch {
			case ok && perr != nil:
				fs = append(fs, core.F(fmt.Sprintf("%s/stored-key-unreadable(%s)", c.Store, kc), "%s: %v", where(i), perr))
			case !ok && perr == nil:
				fs = append(fs, core.F(fmt.Sprintf("%s/absent-key-readable(%s)", c.Store, kc), "%s: returned %d bytes for a key never stored", where(i), len(got)))
			case ok && !bytes.Equal(got, want):
				fs = append(fs, core.F(fmt.Sprintf("%s/content-differs(%s)", c.Store, kc), "%s: got %d bytes %x…, want %d bytes", where(i), len(got), head(got), len(want)))
			}
		}
		// audit after every step: every key of the case and one never-put key
		for ki, ak := range append(append([]string{}, keys...), "never-put-key") {
			want, ok := model[ak]
			h, herr := e.st.Has(ctx, ak)
			g, gerr := e.st.Get(ctx, ak)
			akc := keyClass(ak)
			if herr == nil && h != ok || herr != nil && ok {
				cause := "put-ok-but-absent"
				if !ok {
					cause = "alias-or-phantom"
				}
				fs = append(fs, core.F(fmt.Sprintf("%s/%s(%s)", c.Store, cause, akc), "%s: audit of key #%d %q: Has=%v err=%v, model has=%v", where(i), ki, ak, h, herr, ok))
				return fs, steps
			}
			if ok && (gerr != nil || !bytes.Equal(g, want)) {
				fs = append(fs, core.F(fmt.Sprintf("%s/audit-content-differs(%s)", c.Store, akc), "%s: audit of key #%d %q: Get err=%v, %d bytes vs %d", where(i), ki, ak, gerr, len(g), len(want)))
				return fs, steps
			}
			if !ok && gerr == nil {
				fs = append(fs, core.F(fmt.Sprintf("%s/alias-or-phantom(%s)", c.Store, akc), "%s: audit of key #%d %q: Get returned %d bytes for a key never stored", where(i), ki, ak, len(g)))
				return fs, steps
			}
		}
		if len(fs) > 0 {
			return fs, steps
		}
	}
	if bad := e.containment(); len(bad) > 0 {
		kc := map[string]bool{}
		for _, op := range c.Ops {
			kc[keyClass(keys[op.Key])] = true
		}
		var cls []string
		for k := range kc {
			cls = append(cls, k)
		}
		sort.Strings(cls)
		fs = append(fs, core.F(fmt.Sprintf("%s/escape(%s)", c.Store, strings.Join(cls, "+")), "%s keys %q ops %v: %q", c.Store, keys, c.Ops, bad[:min(len(bad), 4)]))
	}
	return fs, steps
}

func head(b []byte) []byte {
	if len(b) > 8 {
		return b[:8]
	}
	return b
}

var Stores = []string{"memstore", "fsstore-default", "fsstore-r122", "fsstore-r133"}

func hexs(ks ...string) []string {
	var out []string
	for _, k := range ks {
		out = append(out, fmt.Sprintf("%x", k))
	}
	return out
}

// search: explicit-state search per key pair; state = (which keys are stored, last op); to fixpoint.
func search(r *core.Run, store string, pair []string, allKeys []string, withLastOp bool) {
	var ops []Op
	for _, kind := range opKinds {
		for ki := range pair {
			if pair[ki] == "" && (strings.Contains(kind, "putstream") || strings.Contains(kind, "putvec")) {
				// committing a stream under the empty key is the documented way to abandon it
				continue
			}
			ops = append(ops, Op{kind, ki})
		}
	}
	type st struct{ path []Op }
	seen := map[string]bool{"": true}
	frontier := []st{{nil}}
	var states, trans int64
	for len(frontier) > 0 {
		var next []st
		for _, cur := range frontier {
			states++
			for _, op := range ops {
				c := Case{store, hexs(pair...), append(append([]Op(nil), cur.path...), op)}
				fs, steps := RunCase(c, allKeys)
				trans++
				r.Traces.Add(1)
				_ = steps
				r.Report("history", c, fs)
				if len(fs) > 0 {
					continue
				}
				stored := map[int]bool{}
				for _, o := range c.Ops {
					if strings.Contains(o.Kind, "put") {
						stored[o.Key] = true // (a put that errored leaves the key absent; the key below only steers exploration)
					}
				}
				key := fmt.Sprint(stored)
				if withLastOp {
					key += "|" + op.Kind + fmt.Sprint(op.Key)
				}
				if !seen[key] {
					seen[key] = true
					next = append(next, st{c.Ops})
				}
			}
		}
		frontier = next
	}
	r.States.Add(states)
	r.Transitions.Add(trans)
	r.Evals.Add(trans)
	r.NontrivialN(trans)
}

func Main(r *core.Run) {
	quick := r.Quick()
	Outcomes = r.Outcome
	keys := Keys(quick)
	sorted := append([]string(nil), keys...)
	sort.Strings(sorted)
	var pairs [][]string
	for i := range keys {
		for j := i + 1; j < len(keys); j++ {
			if quick && (j-i) > 3 && (i+j)%5 != 0 {
				continue // quick tier: each key meets its three successors and every fifth other key
			}
			pairs = append(pairs, []string{keys[i], keys[j]})
		}
	}
	r.Rule(fmt.Sprintf("stores {memstore, fsstore default, fsstore r122, fsstore r133 (base32 escaping)} × %d adversarial keys paired (quick: each with its 3 successors and every fifth other key; thorough: every pair) (empty, slashes, dot-dot, NUL, 255/256%s-byte, shard collisions, a key and its base32 image, .temp, CID binaries) forced through one store; explicit-state search over put/put-stream(1,2,3 chunks)/put-vec/get/get-stream/abandoned get-stream/peek/has, through the methods and the storage.* fallbacks, state = (keys stored%s), to fixpoint; full audit of both keys and a never-put key after every step; caller buffers mutated after put, returned slices mutated after get; fsstore: every path of every filesystem call logged through the os shim and checked for containment, sibling files byte-identical. cidlink.Memory (keyed by multihash, own interface): every history of ≤3/≤4 writes over six links (same multihash under two codecs, CIDv0, identity multihashes incl. the empty digest, sha2-512) with a full audit after every step. Non-trivial: every transition (distinct history).", len(keys), map[bool]string{true: "", false: "/4096"}[quick], map[bool]string{true: "", false: ", last operation"}[quick]))
	r.Assume("content-addressed use: one content per key; power loss is not modelled")
	for _, store := range Stores {
		store := store
		core.ParallelFor(len(pairs), func(i int) { search(r, store, pairs[i], sorted, !quick) })
	}
	cidMemory(r, quick)
	r.Sample(Case{"fsstore-default", hexs("../x", "a"), []Op{{"put", 0}, {"get", 1}}})
	r.Sample(Case{"memstore", hexs("", "\x00"), []Op{{"f:putvec", 0}, {"f:peek", 1}, {"has", 0}}})
}


func Replay(r *core.Run, raw json.RawMessage) {
	var probe struct {
		Writes []int `json:"writes"`
	}
	if json.Unmarshal(raw, &probe) == nil && probe.Writes != nil {
		replayMem(r, raw)
		return
	}
	var c Case
	if err := json.Unmarshal(raw, &c); err != nil {
		panic(err)
	}
	sorted := append([]string(nil), Keys(false)...)
	sort.Strings(sorted)
	fs, _ := RunCase(c, sorted)
	r.Report("history", c, fs)
}
