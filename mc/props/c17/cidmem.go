package c17

import (
	"encoding/json"
	"fmt"
	"io"

	"github.com/ipfs/go-cid"
	"github.com/ipld/go-ipld-prime/linking"
	cidlink "github.com/ipld/go-ipld-prime/linking/cid"
	mh "github.com/multiformats/go-multihash"

	"verif/mc/core"
)

// cidlink.Memory is a store keyed by a link's multihash (by its documented design: CIDs that differ
// only in version or codec are the same key). It has its own interface (OpenRead / OpenWrite +
// committer), so it gets its own search: every history of ≤3 (thorough: ≤4) writes over a set of
// links chosen to collide or not by that rule, a full audit of every link (and one never written)
// after every step against a Go map keyed by multihash.

type MemLink struct {
	Name string `json:"name"`
	Cid  string `json:"cid_hex"`
}

type MemCase struct {
	Writes []int `json:"writes"` // indices into memLinks()
}

func mkc(version uint64, codec uint64, hcode uint64, data string) cid.Cid {
	h, err := mh.Sum([]byte(data), hcode, -1)
	if err != nil {
		panic(err)
	}
	if version == 0 {
		return cid.NewCidV0(h)
	}
	return cid.NewCidV1(codec, h)
}

type memKey struct {
	name    string
	c       cid.Cid
	content []byte // what the harness stores under it (the store does not check content against the key)
}

func memKeys() []memKey {
	return []memKey{
		{"v1-raw-sha256(A)", mkc(1, 0x55, mh.SHA2_256, "A"), []byte("content A")},
		{"v1-dagcbor-sha256(A) [same multihash as the first]", mkc(1, 0x71, mh.SHA2_256, "A"), []byte("content A")},
		{"v0-sha256(B)", mkc(0, 0, mh.SHA2_256, "B"), []byte("content of B, longer")},
		{"v1-raw-identity(xyz)", mkc(1, 0x55, mh.IDENTITY, "xyz"), []byte("not the digest")},
		{"v1-raw-identity(empty)", mkc(1, 0x55, mh.IDENTITY, ""), []byte{}},
		{"v1-raw-sha512(C)", mkc(1, 0x55, mh.SHA2_512, "C"), []byte("c")},
	}
}

func CheckMem(c MemCase) (fs []core.Finding, steps int) {
	keys := memKeys()
	never := mkc(1, 0x55, mh.IDENTITY, "never written")
	st := &cidlink.Memory{}
	model := map[string][]byte{}
	audit := func(after string) {
		probe := func(name string, k cid.Cid) {
			want, have := model[string(k.Hash())]
			var got []byte
			var err error
			pan := core.Guard(func() {
				var rd io.Reader
				rd, err = st.OpenRead(linking.LinkContext{}, cidlink.Link{Cid: k})
				if err == nil {
					got, err = io.ReadAll(rd)
				}
			})
			switch {
			case pan != "":
				fs = append(fs, core.F("cidlink-memory/panic", "%s: read of %s: %s", after, name, pan))
			case have && err != nil:
				fs = append(fs, core.F("cidlink-memory/stored-key-not-readable", "%s: %s: %v", after, name, err))
			case have && string(got) != string(want):
				fs = append(fs, core.F("cidlink-memory/content-differs", "%s: %s reads %q, stored %q", after, name, got, want))
			case !have && err == nil:
				fs = append(fs, core.F("cidlink-memory/never-stored-key-reads", "%s: %s was never written and reads %q", after, name, got))
			}
		}
		for _, k := range keys {
			probe(k.name, k.c)
		}
		probe("a link never written", never)
	}
	audit("on the empty store")
	for i, w := range c.Writes {
		k := keys[w]
		var err error
		pan := core.Guard(func() {
			var wr io.Writer
			var commit linking.BlockWriteCommitter
			wr, commit, err = st.OpenWrite(linking.LinkContext{})
			if err != nil {
				return
			}
			buf := append([]byte(nil), k.content...)
			if _, err = wr.Write(buf); err != nil {
				return
			}
			err = commit(cidlink.Link{Cid: k.c})
			for j := range buf {
				buf[j] ^= 0xff // the caller's buffer is the caller's again
			}
		})
		steps++
		if pan != "" || err != nil {
			fs = append(fs, core.F("cidlink-memory/write-failed", "write %d (%s): %v %s", i, k.name, err, pan))
			return
		}
		model[string(k.c.Hash())] = k.content
		audit(fmt.Sprintf("after writes %v", c.Writes[:i+1]))
		if len(fs) > 0 {
			return
		}
	}
	return
}

func cidMemory(r *core.Run, quick bool) {
	depth := 3
	if !quick {
		depth = 4
	}
	n := len(memKeys())
	var cases []MemCase
	var rec func(cur []int)
	rec = func(cur []int) {
		cases = append(cases, MemCase{append([]int(nil), cur...)})
		if len(cur) == depth {
			return
		}
		for i := 0; i < n; i++ {
			rec(append(cur, i))
		}
	}
	rec(nil)
	for _, c := range cases {
		fs, steps := CheckMem(c)
		r.States.Add(1)
		r.Transitions.Add(int64(steps))
		r.Traces.Add(1)
		r.Evals.Add(int64(steps + 1))
		if steps >= 2 {
			r.NontrivialN(1)
		}
		r.Report("cidmem", c, fs)
	}
	r.Set("cidlink_memory", map[string]any{"links": n, "histories": len(cases), "depth": depth})
	r.Outcome("cidlink-memory")
}

func replayMem(r *core.Run, raw json.RawMessage) {
	var c MemCase
	json.Unmarshal(raw, &c)
	fs, _ := CheckMem(c)
	r.Report("cidmem", c, fs)
}
