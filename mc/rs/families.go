package rs

import "fmt"

func fld(name, typ string, opt, nul bool) Field { return Field{Name: name, Type: typ, Optional: opt, Nullable: nul} }

func structT(name, repr string, fields ...Field) *Type {
	t := &Type{Name: name, Kind: TStruct, SRepr: repr, Fields: fields}
	if repr == "stringjoin" {
		t.Delim = ":"
	}
	return t
}

func unionT(name, repr string, discr map[string]string, members ...string) *Type {
	return &Type{Name: name, Kind: TUnion, URepr: repr, Members: members, Discr: discr}
}

// Families enumerates the schema families from the grammar of DESIGN.md §3.
func Families(quick bool) []*Schema {
	var out []*Schema

	// F1: struct/map, two fields, all 16 optional/nullable mode vectors, one field renamed
	f1 := NewSchema("fam01")
	for m := 0; m < 16; m++ {
		a, b := fld("alpha", "Int", m&1 != 0, m&2 != 0), fld("beta", "String", m&4 != 0, m&8 != 0)
		b.Rename = "b"
		f1.Root(structT(fmt.Sprintf("SM%02d", m), "map", a, b))
	}
	// three fields: optional in the middle / trailing; a rename that swaps two names
	x, y, z := fld("x", "Int", true, false), fld("y", "Int", false, false), fld("z", "Int", true, true)
	f1.Root(structT("SM3a", "map", x, y, z))
	sw1, sw2 := fld("p", "Int", false, false), fld("q", "String", true, false)
	sw1.Rename, sw2.Rename = "q", "p"
	f1.Root(structT("SMswap", "map", sw1, sw2))
	f1.Root(structT("SMempty", "map"))
	out = append(out, f1)

	// F2: struct/tuple, all mode vectors of two fields, three fields with trailing optionals
	f2 := NewSchema("fam02")
	for m := 0; m < 16; m++ {
		f2.Root(structT(fmt.Sprintf("ST%02d", m), "tuple", fld("alpha", "Int", m&1 != 0, m&2 != 0), fld("beta", "String", m&4 != 0, m&8 != 0)))
	}
	f2.Root(structT("ST3", "tuple", fld("x", "Int", false, true), fld("y", "String", true, false), fld("z", "Int", true, true)))
	// a tuple whose nullable and optional fields hold a struct whose representation differs from its
	// type-level form (a renamed key, an optional that may be absent), beside the same type in a plain field
	rn := fld("alpha", "String", false, false)
	rn.Rename = "a"
	f2.Add(structT("Ren", "map", rn, fld("beta", "String", true, false)))
	f2.Root(structT("STRen", "tuple", fld("p", "Ren", false, false), fld("n", "Ren", false, true), fld("o", "Ren", true, false)))
	out = append(out, f2)

	// F3: stringjoin and listpairs (listpairs: reflection engine only)
	f3 := NewSchema("fam03")
	f3.Root(structT("SJ2", "stringjoin", fld("a", "String", false, false), fld("b", "String", false, false)))
	f3.Root(structT("SJ3", "stringjoin", fld("a", "String", false, false), fld("b", "String", false, false), fld("c", "String", false, false)))
	f3.Root(structT("SJ1", "stringjoin", fld("a", "String", false, false)))
	f3.Root(&Type{Name: "MapSJ", Kind: TMap, KeyType: "String", ValType: "SJ2"})
	out = append(out, f3)
	f3b := NewSchema("fam04")
	f3b.Root(structT("LP2", "listpairs", fld("alpha", "Int", false, false), fld("beta", "String", true, true)))
	lp := fld("x", "Int", true, false) // (the listpairs strategy has no renames)
	f3b.Root(structT("LP3", "listpairs", lp, fld("y", "String", false, true), fld("z", "Bool", true, false)))
	// a kinded union whose list-kinded member is a listpairs struct
	f3b.Root(unionT("UKLP", "kinded", nil, "LP2", "Int", "String"))
	out = append(out, f3b)

	// F5: unions
	f5 := NewSchema("fam05")
	f5.Add(structT("Pt", "map", fld("x", "Int", false, false), fld("y", "Int", true, false)))
	f5.Add(&Type{Name: "Ints", Kind: TList, ValType: "Int"})
	f5.Add(&Type{Name: "MapSI", Kind: TMap, KeyType: "String", ValType: "Int"})
	f5.Root(unionT("UK", "keyed", map[string]string{"Int": "i", "String": "s", "Pt": "p", "Ints": "l"}, "Int", "String", "Pt", "Ints"))
	f5.Root(unionT("UKind", "kinded", nil, "Int", "String", "Pt", "Ints", "Bool"))
	f5.Root(unionT("UKind2", "kinded", nil, "MapSI", "Float", "Bytes", "Link"))
	sp := unionT("USP", "stringprefix", map[string]string{"String": "str", "SJ": "sj"}, "String", "SJ")
	sp.Delim = ":"
	f5.Add(structT("SJ", "stringjoin", fld("a", "String", false, false), fld("b", "String", false, false)))
	f5.Root(sp)
	f5.Root(unionT("USPn", "stringprefix", map[string]string{"String": "s-", "SJ": "j-"}, "String", "SJ"))
	f5.Root(structT("HasU", "map", fld("u", "UK", false, false), fld("k", "UKind", true, true)))
	// kinded unions whose members are structs represented as a list (tuple) and as a string (stringjoin)
	f5.Add(structT("PtT", "tuple", fld("x", "Int", false, false), fld("y", "Int", true, false)))
	f5.Root(unionT("UKind3", "kinded", nil, "PtT", "SJ", "Bool", "MapSI"))
	f5.Root(&Type{Name: "ListU", Kind: TList, ValType: "UKind"})
	f5.Root(&Type{Name: "ListNUK", Kind: TList, ValType: "UK", ValNullable: true})
	// containers of structs whose fields have a string representation but a recursive type-level form
	f5.Add(structT("HasSJ", "map", fld("k", "SJ", false, false), fld("u", "USP", true, false), fld("n", "Int", false, false)))
	f5.Root(&Type{Name: "ListHasSJ", Kind: TList, ValType: "HasSJ"})
	f5.Root(&Type{Name: "MapHasSJ", Kind: TMap, KeyType: "String", ValType: "HasSJ"})
	// containers of structs whose fields are recursive at representation level too (a list, a struct, a
	// map): element assemblers are reused from one element to the next
	f5.Add(structT("HasRec", "map", fld("l", "Ints", false, false), fld("p", "Pt", true, false), fld("m", "MapSI", false, true)))
	f5.Root(&Type{Name: "ListHasRec", Kind: TList, ValType: "HasRec"})
	f5.Root(&Type{Name: "MapHasRec", Kind: TMap, KeyType: "String", ValType: "HasRec"})
	out = append(out, f5)

	// F6: enums (reflection engine only)
	f6 := NewSchema("fam06")
	f6.Root(&Type{Name: "ES", Kind: TEnum, ERepr: "string", EMembers: []string{"Red", "Green", "Blue"}, EStr: map[string]string{"Green": "g", "Blue": "Red2"}})
	f6.Root(&Type{Name: "EI", Kind: TEnum, ERepr: "int", EMembers: []string{"Zero", "One", "Minus"}, EInt: map[string]int{"Zero": 0, "One": 1, "Minus": -7}})
	f6.Root(structT("HasE", "map", fld("e", "ES", true, false), fld("i", "EI", false, true)))
	f6.Root(&Type{Name: "MapE", Kind: TMap, KeyType: "String", ValType: "EI"})
	// a map keyed by an enum whose members have representation strings of their own
	f6.Root(&Type{Name: "MapEK", Kind: TMap, KeyType: "ES", ValType: "Int"})
	// an enum member with a representation string of its own inside a stringjoin struct
	f6.Root(structT("SJE", "stringjoin", fld("e", "ES", false, false), fld("s", "String", false, false)))
	out = append(out, f6)

	// F7: maps and lists
	f7 := NewSchema("fam07")
	f7.Add(structT("Pt", "tuple", fld("x", "Int", false, false), fld("y", "Int", true, false)))
	f7.Root(&Type{Name: "MapSI", Kind: TMap, KeyType: "String", ValType: "Int"})
	f7.Root(&Type{Name: "MapSNS", Kind: TMap, KeyType: "String", ValType: "String", ValNullable: true})
	f7.Root(&Type{Name: "MapSPt", Kind: TMap, KeyType: "String", ValType: "Pt"})
	f7.Root(&Type{Name: "ListI", Kind: TList, ValType: "Int"})
	f7.Root(&Type{Name: "ListNS", Kind: TList, ValType: "String", ValNullable: true})
	f7.Root(&Type{Name: "ListPt", Kind: TList, ValType: "Pt"})
	f7.Root(&Type{Name: "ListL", Kind: TList, ValType: "ListI"})
	f7.Root(&Type{Name: "MapL", Kind: TMap, KeyType: "String", ValType: "ListI"})
	f7.Root(&Type{Name: "MapM", Kind: TMap, KeyType: "String", ValType: "MapSI", ValNullable: true})
	// containers two levels deep over a struct whose representation differs visibly from its type-level form
	f7.Root(&Type{Name: "ListLPt", Kind: TList, ValType: "ListPt"})
	f7.Root(&Type{Name: "MapLPt", Kind: TMap, KeyType: "String", ValType: "ListPt"})
	// maps whose keys are a struct with a string representation
	f7.Add(structT("KSJ", "stringjoin", fld("a", "String", false, false), fld("b", "String", false, false)))
	f7.Root(&Type{Name: "MapKI", Kind: TMap, KeyType: "KSJ", ValType: "Int"})
	f7.Root(&Type{Name: "MapKPt", Kind: TMap, KeyType: "KSJ", ValType: "Pt", ValNullable: true})
	// nullable values whose generated Maybe is pointer-backed (structs)
	f7.Root(&Type{Name: "ListNPt", Kind: TList, ValType: "Pt", ValNullable: true})
	f7.Root(&Type{Name: "MapSNPt", Kind: TMap, KeyType: "String", ValType: "Pt", ValNullable: true})
	out = append(out, f7)

	// F8: every scalar as a field, incl. Link/Bytes/Float/Bool
	f8 := NewSchema("fam08")
	f8.Root(structT("Scalars", "map", fld("b", "Bool", false, false), fld("i", "Int", false, false), fld("f", "Float", false, false), fld("s", "String", false, false), fld("y", "Bytes", false, false), fld("l", "Link", false, false)))
	f8.Root(structT("ScalarsT", "tuple", fld("b", "Bool", false, true), fld("f", "Float", false, false), fld("y", "Bytes", true, false), fld("l", "Link", true, true)))
	f8.Root(structT("Nest", "map", fld("in", "Scalars", true, true), fld("t", "ScalarsT", false, false)))
	for _, sc := range []string{"Bool", "Int", "Float", "String", "Bytes", "Link"} {
		f8.Roots = append(f8.Roots, sc)
	}
	out = append(out, f8)

	// F9: Any (reflection engine only)
	f9 := NewSchema("fam09")
	f9.Root(structT("HasAny", "map", fld("a", "Any", false, false), fld("o", "Any", true, true)))
	f9.Root(&Type{Name: "ListAny", Kind: TList, ValType: "Any", ValNullable: true})
	f9.Root(&Type{Name: "MapAny", Kind: TMap, KeyType: "String", ValType: "Any"})
	out = append(out, f9)

	if quick {
		return out
	}
	// thorough: every (outer strategy, inner strategy) pair one level deep
	inner := func(s *Schema) []string {
		s.Add(structT("IM", "map", fld("a", "Int", false, false), fld("o", "String", true, true)))
		s.Add(structT("IT", "tuple", fld("a", "Int", false, false), fld("o", "String", true, false)))
		s.Add(structT("IJ", "stringjoin", fld("a", "String", false, false), fld("b", "String", false, false)))
		s.Add(unionT("IUK", "keyed", map[string]string{"Int": "i", "String": "s"}, "Int", "String"))
		s.Add(unionT("IUN", "kinded", nil, "Int", "String", "IM"))
		s.Add(&Type{Name: "IL", Kind: TList, ValType: "Int", ValNullable: true})
		s.Add(&Type{Name: "IMap", Kind: TMap, KeyType: "String", ValType: "Int"})
		return []string{"IM", "IT", "IJ", "IUK", "IUN", "IL", "IMap"}
	}
	n := 10
	for _, outer := range []string{"smap", "stuple", "ukeyed", "ukinded", "list", "map"} {
		s := NewSchema(fmt.Sprintf("fam%02d", n))
		n++
		ins := inner(s)
		for _, in := range ins {
			name := "O" + outer + in
			switch outer {
			case "smap":
				r := fld("r", in, false, false)
				r.Rename = "R"
				s.Root(structT(name, "map", r, fld("o", in, true, true)))
			case "stuple":
				s.Root(structT(name, "tuple", fld("r", in, false, true), fld("o", in, true, false)))
			case "ukeyed":
				s.Root(unionT(name, "keyed", map[string]string{in: "m", "Bool": "b"}, in, "Bool"))
			case "ukinded":
				if in == "IUN" || in == "IUK" {
					continue // a kinded union needs members of distinct, fixed representation kinds
				}
				s.Root(unionT(name, "kinded", nil, in, "Bool"))
			case "list":
				s.Root(&Type{Name: name, Kind: TList, ValType: in, ValNullable: true})
			case "map":
				s.Root(&Type{Name: name, Kind: TMap, KeyType: "String", ValType: in})
			}
		}
		out = append(out, s)
	}
	return out
}
