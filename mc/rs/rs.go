// Package rs is the reference semantics of IPLD Schemas used by the typed checks (C08, C09, C12,
// C13, C19): type descriptions, the typed value space V(T), the type-level view, the representation
// function, and the two acceptance relations — written from the schema specification's statement
// of each representation strategy, not from bindnode or the generator.
//
// A typed value is identified with its type-level view: a Val in which a struct is a map holding
// every field in declaration order (absent optional fields as the Absent marker), a union is a
// single-entry map {memberTypeName: value}, an enum is the member name.
package rs

import (
	"strconv"
	"fmt"
	"sort"
	"strings"

	"github.com/ipld/go-ipld-prime/datamodel"
	"github.com/ipld/go-ipld-prime/schema"

	"verif/mc/ref"
)

type TKind int

const (
	TBool TKind = iota
	TInt
	TFloat
	TString
	TBytes
	TLink
	TAny
	TStruct
	TUnion
	TEnum
	TMap
	TList
)

type Field struct {
	Name     string
	Type     string
	Optional bool
	Nullable bool
	Rename   string // "" = none
}

type Type struct {
	Name string
	Kind TKind
	// struct
	Fields []Field
	SRepr  string // map | tuple | stringjoin | listpairs
	Delim  string // stringjoin / stringprefix delimiter
	// union
	Members []string          // member type names, in order
	URepr   string            // keyed | kinded | stringprefix
	Discr   map[string]string // member type name → discriminant (keyed, stringprefix)
	// enum
	EMembers []string
	ERepr    string // string | int
	EStr     map[string]string
	EInt     map[string]int
	// map / list
	KeyType     string
	ValType     string
	ValNullable bool
}

type Schema struct {
	Name  string
	Types map[string]*Type
	Order []string
	Roots []string // the types the checks exercise
}

func NewSchema(name string) *Schema {
	s := &Schema{Name: name, Types: map[string]*Type{}}
	for _, t := range []*Type{{Name: "Bool", Kind: TBool}, {Name: "Int", Kind: TInt}, {Name: "Float", Kind: TFloat}, {Name: "String", Kind: TString}, {Name: "Bytes", Kind: TBytes}, {Name: "Link", Kind: TLink}, {Name: "Any", Kind: TAny}} {
		s.Add(t)
	}
	return s
}

func (s *Schema) Add(t *Type) *Type {
	if _, dup := s.Types[t.Name]; dup {
		panic("harness: duplicate type " + t.Name)
	}
	s.Types[t.Name] = t
	s.Order = append(s.Order, t.Name)
	return t
}

func (s *Schema) Root(t *Type) *Type { s.Add(t); s.Roots = append(s.Roots, t.Name); return t }

func (s *Schema) T(name string) *Type {
	t := s.Types[name]
	if t == nil {
		panic("harness: unknown type " + name)
	}
	return t
}

// UsesAny / HasKind: feature probes (the generator supports no enum, Any or listpairs).
// KeyStrings are the two keys the enumerated values of map type t use. For a key type other than
// String they come from the first two values of the key type: a key that is a string at type level
// (an enum member) keys the typed value by that string and the representation by its representation
// string; a key that is not (a struct with a string representation) keys both by the representation string.
func (s *Schema) KeyStrings(t *Type) []string {
	if t.KeyType == "" || t.KeyType == "String" {
		return []string{"a", "b"}
	}
	kt := s.T(t.KeyType)
	var out []string
	for _, kv := range s.Values(kt, 3) {
		if r, ok := s.Repr(kt, kv); ok && r.K == ref.KString {
			k := r.S
			if kv.K == ref.KString {
				k = kv.S // a key that is a string at type level too (an enum member) keys the type-level view by that
			}
			dup := false
			for _, o := range out {
				if o == k {
					dup = true
				}
			}
			if !dup {
				out = append(out, k)
			}
		}
		if len(out) == 2 {
			return out
		}
	}
	panic("rs: key type " + t.KeyType + " has fewer than two string-represented values")
}

// ComplexKeys: t (or a type it contains) is a map whose key type is not String. How such a key is
// supplied to the *type-level* builder is not something the schema documents pin down (the
// reflection engine wants the key assembled as the struct it is, generated code takes its string
// form), so type-level feeding of these types is outside the enumerated space; their views, the
// representation builder and the codecs are inside it.
func (s *Schema) ComplexKeys(t *Type) bool {
	seen := map[string]bool{}
	var rec func(t *Type) bool
	rec = func(t *Type) bool {
		if t == nil || seen[t.Name] {
			return false
		}
		seen[t.Name] = true
		if t.Kind == TMap && t.KeyType != "" && t.KeyType != "String" {
			if k := s.T(t.KeyType).Kind; k == TStruct || k == TUnion {
				return true
			}
		}
		for _, f := range t.Fields {
			if rec(s.T(f.Type)) {
				return true
			}
		}
		for _, m := range t.Members {
			if rec(s.T(m)) {
				return true
			}
		}
		if t.ValType != "" && rec(s.T(t.ValType)) {
			return true
		}
		return false
	}
	return rec(t)
}

func (s *Schema) Generatable() bool {
	for _, n := range s.Order {
		t := s.Types[n]
		if t.Kind == TEnum || t.Kind == TStruct && t.SRepr == "listpairs" {
			return false
		}
		if t.Kind == TAny {
			for _, m := range s.Order {
				if s.refs(s.Types[m], "Any") {
					return false
				}
			}
		}
	}
	return true
}

func (s *Schema) refs(t *Type, name string) bool {
	for _, f := range t.Fields {
		if f.Type == name {
			return true
		}
	}
	for _, m := range t.Members {
		if m == name {
			return true
		}
	}
	return t.KeyType == name || t.ValType == name
}

// Compile builds the library's TypeSystem for the schema (Any omitted when unused so that the
// generator, which does not know it, is never shown it).
func (s *Schema) Compile(forGenerator bool) (*schema.TypeSystem, error) {
	ts := &schema.TypeSystem{}
	ts.Init()
	for _, n := range s.Order {
		t := s.Types[n]
		tn := schema.TypeName(n)
		switch t.Kind {
		case TBool:
			ts.Accumulate(schema.SpawnBool(tn))
		case TInt:
			ts.Accumulate(schema.SpawnInt(tn))
		case TFloat:
			ts.Accumulate(schema.SpawnFloat(tn))
		case TString:
			ts.Accumulate(schema.SpawnString(tn))
		case TBytes:
			ts.Accumulate(schema.SpawnBytes(tn))
		case TLink:
			ts.Accumulate(schema.SpawnLink(tn))
		case TAny:
			if !forGenerator {
				ts.Accumulate(schema.SpawnAny(tn))
			}
		case TStruct:
			var fs []schema.StructField
			renames := map[string]string{}
			for _, f := range t.Fields {
				fs = append(fs, schema.SpawnStructField(f.Name, schema.TypeName(f.Type), f.Optional, f.Nullable))
				if f.Rename != "" {
					renames[f.Name] = f.Rename
				}
			}
			var rp schema.StructRepresentation
			switch t.SRepr {
			case "map":
				rp = schema.SpawnStructRepresentationMap(renames)
			case "tuple":
				rp = schema.SpawnStructRepresentationTuple()
			case "stringjoin":
				rp = schema.SpawnStructRepresentationStringjoin(t.Delim)
			case "listpairs":
				rp = schema.SpawnStructRepresentationListPairs()
			}
			ts.Accumulate(schema.SpawnStruct(tn, fs, rp))
		case TUnion:
			var ms []schema.TypeName
			for _, m := range t.Members {
				ms = append(ms, schema.TypeName(m))
			}
			var rp schema.UnionRepresentation
			switch t.URepr {
			case "keyed":
				tab := map[string]schema.TypeName{}
				for m, d := range t.Discr {
					tab[d] = schema.TypeName(m)
				}
				rp = schema.SpawnUnionRepresentationKeyed(tab)
			case "stringprefix":
				tab := map[string]schema.TypeName{}
				for m, d := range t.Discr {
					tab[d] = schema.TypeName(m)
				}
				rp = schema.SpawnUnionRepresentationStringprefix(t.Delim, tab)
			case "kinded":
				tab := map[datamodel.Kind]schema.TypeName{}
				for _, m := range t.Members {
					tab[ref.ToDMKind(s.ReprKind(s.T(m)))] = schema.TypeName(m)
				}
				rp = schema.SpawnUnionRepresentationKinded(tab)
			}
			ts.Accumulate(schema.SpawnUnion(tn, ms, rp))
		case TEnum:
			var rp schema.EnumRepresentation
			if t.ERepr == "int" {
				rp = schema.EnumRepresentation_Int(t.EInt)
			} else {
				m := schema.EnumRepresentation_String{}
				for k, v := range t.EStr {
					m[k] = v
				}
				rp = m
			}
			ts.Accumulate(schema.SpawnEnum(tn, t.EMembers, rp))
		case TMap:
			ts.Accumulate(schema.SpawnMap(tn, schema.TypeName(t.KeyType), schema.TypeName(t.ValType), t.ValNullable))
		case TList:
			ts.Accumulate(schema.SpawnList(tn, schema.TypeName(t.ValType), t.ValNullable))
		}
	}
	if errs := ts.ValidateGraph(); len(errs) > 0 {
		return nil, fmt.Errorf("schema %s invalid: %v", s.Name, errs)
	}
	return ts, nil
}

// ReprKind is the data-model kind of the type's representation.
func (s *Schema) ReprKind(t *Type) ref.Kind {
	switch t.Kind {
	case TBool:
		return ref.KBool
	case TInt:
		return ref.KInt
	case TFloat:
		return ref.KFloat
	case TString:
		return ref.KString
	case TBytes:
		return ref.KBytes
	case TLink:
		return ref.KLink
	case TStruct:
		switch t.SRepr {
		case "map":
			return ref.KMap
		case "tuple", "listpairs":
			return ref.KList
		}
		return ref.KString
	case TUnion:
		switch t.URepr {
		case "keyed":
			return ref.KMap
		case "stringprefix":
			return ref.KString
		}
		return ref.KInvalid // kinded: depends on the member
	case TEnum:
		if t.ERepr == "int" {
			return ref.KInt
		}
		return ref.KString
	case TMap:
		return ref.KMap
	case TList:
		return ref.KList
	}
	return ref.KInvalid
}

// ---- representation function ----

func reprName(f Field) string {
	if f.Rename != "" {
		return f.Rename
	}
	return f.Name
}

// Repr maps a typed value (type-level view) of type t to its representation. ok=false when the
// value has no representation (an absent tuple field followed by a present one).
func (s *Schema) Repr(t *Type, v ref.Val) (ref.Val, bool) {
	switch t.Kind {
	case TStruct:
		var parts []ref.Val
		var names []string
		for i, f := range t.Fields {
			fv := v.M[i].V
			if fv.K == ref.KAbsent {
				parts = append(parts, fv)
			} else if fv.K == ref.KNull {
				parts = append(parts, fv)
			} else {
				r, ok := s.Repr(s.T(f.Type), fv)
				if !ok {
					return ref.Val{}, false
				}
				parts = append(parts, r)
			}
			names = append(names, reprName(f))
		}
		switch t.SRepr {
		case "map":
			o := ref.Map()
			for i, p := range parts {
				if p.K != ref.KAbsent {
					o.M = append(o.M, ref.Entry{K: names[i], V: p})
				}
			}
			return o, true
		case "listpairs":
			o := ref.List()
			for i, p := range parts {
				if p.K != ref.KAbsent {
					o.L = append(o.L, ref.List(ref.Str(names[i]), p))
				}
			}
			return o, true
		case "tuple":
			n := len(parts)
			for n > 0 && parts[n-1].K == ref.KAbsent {
				n--
			}
			o := ref.List()
			for _, p := range parts[:n] {
				if p.K == ref.KAbsent {
					return ref.Val{}, false
				}
				o.L = append(o.L, p)
			}
			return o, true
		case "stringjoin":
			var ss []string
			for _, p := range parts {
				if p.K != ref.KString {
					return ref.Val{}, false
				}
				ss = append(ss, p.S)
			}
			return ref.Str(strings.Join(ss, t.Delim)), true
		}
	case TUnion:
		m := v.M[0]
		r, ok := s.Repr(s.T(m.K), m.V)
		if !ok {
			return ref.Val{}, false
		}
		switch t.URepr {
		case "keyed":
			return ref.Map(ref.E(t.Discr[m.K], r)), true
		case "kinded":
			return r, true
		case "stringprefix":
			if r.K != ref.KString {
				return ref.Val{}, false
			}
			return ref.Str(t.Discr[m.K] + t.Delim + r.S), true
		}
	case TEnum:
		if t.ERepr == "int" {
			return ref.Int(int64(t.EInt[v.S])), true
		}
		if r, ok := t.EStr[v.S]; ok {
			return ref.Str(r), true
		}
		return ref.Str(v.S), true
	case TMap:
		o := ref.Map()
		for _, e := range v.M {
			rk := e.K
			if t.KeyType != "" && t.KeyType != "String" && s.T(t.KeyType).Kind == TEnum {
				kr, ok := s.Repr(s.T(t.KeyType), ref.Str(e.K))
				if !ok || kr.K != ref.KString {
					return ref.Val{}, false
				}
				rk = kr.S
			}
			if e.V.K == ref.KNull {
				o.M = append(o.M, ref.Entry{K: rk, V: e.V})
				continue
			}
			r, ok := s.Repr(s.T(t.ValType), e.V)
			if !ok {
				return ref.Val{}, false
			}
			o.M = append(o.M, ref.Entry{K: rk, V: r})
		}
		return o, true
	case TList:
		o := ref.List()
		for _, c := range v.L {
			if c.K == ref.KNull {
				o.L = append(o.L, c)
				continue
			}
			r, ok := s.Repr(s.T(t.ValType), c)
			if !ok {
				return ref.Val{}, false
			}
			o.L = append(o.L, r)
		}
		return o, true
	}
	return v, true
}

// ---- value space ----

var scalarVals = map[TKind][]ref.Val{
	TBool:   {ref.Bool(true), ref.Bool(false)},
	TInt:    {ref.Int(0), ref.Int(-25)},
	TFloat:  {ref.Float(1.5), ref.Float(-2.25)},
	TString: {ref.Str("a"), ref.Str("")},
	TBytes:  {ref.Bytes("\xff\x00"), ref.Bytes("")},
	TAny:    {ref.Int(1), ref.Str("x"), ref.Map(ref.E("k", ref.List(ref.Null())))},
}

func init() {
	l := ref.LinksFull()
	scalarVals[TLink] = []ref.Val{ref.Link(l[1]), ref.Link(l[0])}
}

// Values enumerates V(t): full product where it stays small, else every single and every pair of
// deviations from the first value of each component (deviation-bounded product).
func (s *Schema) Values(t *Type, depth int) []ref.Val {
	switch t.Kind {
	case TStruct:
		var comps [][]ref.Val
		for _, f := range t.Fields {
			var c []ref.Val
			c = append(c, s.Values(s.T(f.Type), depth+1)...)
			if t.SRepr == "stringjoin" {
				// values containing the delimiter have no unambiguous representation: kept out of V(T)
				var keep []ref.Val
				for _, x := range c {
					// the test is on the field's representation (an enum member's representation string)
					// (an empty field is representable as soon as the struct has two fields: "x:", ":y", ":")
					if r, ok := s.Repr(s.T(f.Type), x); ok && r.K == ref.KString && !strings.Contains(r.S, t.Delim) && (r.S != "" || len(t.Fields) >= 2) {
						keep = append(keep, x)
					}
				}
				c = keep
				if s.T(f.Type).Kind == TString {
					// the general string alphabet leaves one joinable string; a second one makes the fields tell apart
					c = append(c, ref.Str("b"))
				}
			}
			if f.Nullable {
				c = append(c, ref.Null())
			}
			if f.Optional {
				c = append(c, ref.Absent())
			}
			comps = append(comps, c)
		}
		var out []ref.Val
		for _, combo := range boundedProduct(comps, 400) {
			v := ref.Map()
			for i, f := range t.Fields {
				v.M = append(v.M, ref.Entry{K: f.Name, V: combo[i]})
			}
			if _, ok := s.Repr(t, v); ok {
				out = append(out, v)
			}
		}
		return out
	case TUnion:
		var out []ref.Val
		for _, m := range t.Members {
			for _, mv := range s.Values(s.T(m), depth+1) {
				v := ref.Map(ref.E(m, mv))
				if _, ok := s.Repr(t, v); ok {
					out = append(out, v)
				}
			}
		}
		return out
	case TEnum:
		var out []ref.Val
		for _, m := range t.EMembers {
			out = append(out, ref.Str(m))
		}
		return out
	case TMap, TList:
		elems := s.Values(s.T(t.ValType), depth+1)
		if len(elems) > 4 {
			elems = elems[:4]
		}
		if t.ValNullable {
			if len(elems) > 3 {
				elems = elems[:3]
			}
			elems = append(elems, ref.Null())
		}
		keys := s.KeyStrings(t)
		var out []ref.Val
		mk := func(es []ref.Val) ref.Val {
			if t.Kind == TList {
				return ref.List(es...)
			}
			m := ref.Map()
			for i, e := range es {
				m.M = append(m.M, ref.Entry{K: keys[i], V: e})
			}
			return m
		}
		out = append(out, mk(nil))
		for _, e := range elems {
			out = append(out, mk([]ref.Val{e}))
		}
		if depth < 2 {
			for _, e1 := range elems {
				for _, e2 := range elems {
					out = append(out, mk([]ref.Val{e1, e2}))
				}
			}
		}
		if t.Kind == TList && depth < 2 && len(elems) >= 2 {
			// three entries: distinct values around a repeated one / around a null
			out = append(out, mk([]ref.Val{elems[0], elems[len(elems)-1], elems[1]}), mk([]ref.Val{elems[1], elems[0], elems[0]}))
		}
		if t.Kind == TMap && len(elems) > 0 {
			// the other insertion order of two keys
			m := ref.Map(ref.E(keys[1], elems[0]), ref.E(keys[0], elems[len(elems)-1]))
			out = append(out, m)
		}
		return out
	}
	return scalarVals[t.Kind]
}

func boundedProduct(comps [][]ref.Val, limit int) [][]ref.Val {
	total := 1
	for _, c := range comps {
		total *= len(c)
		if total > limit {
			break
		}
	}
	var out [][]ref.Val
	if total <= limit {
		var rec func(i int, cur []ref.Val)
		rec = func(i int, cur []ref.Val) {
			if i == len(comps) {
				out = append(out, append([]ref.Val(nil), cur...))
				return
			}
			for _, v := range comps[i] {
				rec(i+1, append(cur, v))
			}
		}
		rec(0, nil)
		return out
	}
	base := make([]ref.Val, len(comps))
	for i, c := range comps {
		if len(c) == 0 {
			return nil
		}
		base[i] = c[0]
	}
	out = append(out, append([]ref.Val(nil), base...))
	for i := range comps {
		for _, v := range comps[i][1:] {
			c := append([]ref.Val(nil), base...)
			c[i] = v
			out = append(out, c)
			for j := i + 1; j < len(comps); j++ {
				for _, w := range comps[j][1:] {
					c2 := append([]ref.Val(nil), c...)
					c2[j] = w
					out = append(out, c2)
				}
			}
		}
	}
	return out
}

// FeedType is the data a caller hands to the type-level builder for typed value v: the type-level
// view without the absent fields.
func (s *Schema) FeedType(t *Type, v ref.Val) ref.Val {
	switch t.Kind {
	case TStruct:
		o := ref.Map()
		for i, f := range t.Fields {
			fv := v.M[i].V
			if fv.K == ref.KAbsent {
				continue
			}
			if fv.K != ref.KNull {
				fv = s.FeedType(s.T(f.Type), fv)
			}
			o.M = append(o.M, ref.Entry{K: f.Name, V: fv})
		}
		return o
	case TUnion:
		return ref.Map(ref.E(v.M[0].K, s.FeedType(s.T(v.M[0].K), v.M[0].V)))
	case TMap:
		o := ref.Map()
		for _, e := range v.M {
			if e.V.K == ref.KNull {
				o.M = append(o.M, e)
			} else {
				o.M = append(o.M, ref.Entry{K: e.K, V: s.FeedType(s.T(t.ValType), e.V)})
			}
		}
		return o
	case TList:
		o := ref.List()
		for _, c := range v.L {
			if c.K == ref.KNull {
				o.L = append(o.L, c)
			} else {
				o.L = append(o.L, s.FeedType(s.T(t.ValType), c))
			}
		}
		return o
	}
	return v
}

// ---- acceptance relations ----

// AcceptType: does data `in`, fed to the type-level builder of t, conform? Returns the typed value.
// Strategy names a type's kind and representation strategy.
func Strategy(t *Type) string {
	switch t.Kind {
	case TStruct:
		return "struct/" + t.SRepr
	case TUnion:
		return "union/" + t.URepr
	case TEnum:
		return "enum/" + t.ERepr
	case TMap:
		return "map"
	case TList:
		return "list"
	case TAny:
		return "any"
	}
	return "scalar"
}

func at(t *Type, v ref.Val, rej string) (ref.Val, string) {
	if rej != "" && !strings.Contains(rej, "@") {
		rej += "@" + Strategy(t)
	}
	return v, rej
}

func wellFormed(v ref.Val) string {
	seen := map[string]bool{}
	for _, e := range v.M {
		if seen[e.K] {
			return "repeated-key"
		}
		seen[e.K] = true
		if r := wellFormed(e.V); r != "" {
			return r
		}
	}
	for _, c := range v.L {
		if r := wellFormed(c); r != "" {
			return r
		}
	}
	return ""
}

func (s *Schema) AcceptType(t *Type, in ref.Val) (ref.Val, string) {
	v, rej := s.acceptType(t, in)
	return at(t, v, rej)
}

func (s *Schema) acceptType(t *Type, in ref.Val) (ref.Val, string) {
	switch t.Kind {
	case TStruct:
		if in.K != ref.KMap {
			return ref.Val{}, "wrong-kind"
		}
		got := map[string]ref.Val{}
		for _, e := range in.M {
			if _, dup := got[e.K]; dup {
				return ref.Val{}, "repeated-key"
			}
			var f *Field
			for i := range t.Fields {
				if t.Fields[i].Name == e.K {
					f = &t.Fields[i]
				}
			}
			if f == nil {
				return ref.Val{}, "unknown-field"
			}
			if e.V.K == ref.KNull {
				if !f.Nullable {
					return ref.Val{}, "null-not-nullable"
				}
				got[e.K] = e.V
				continue
			}
			fv, rej := s.AcceptType(s.T(f.Type), e.V)
			if rej != "" {
				return ref.Val{}, rej
			}
			got[e.K] = fv
		}
		o := ref.Map()
		for _, f := range t.Fields {
			fv, ok := got[f.Name]
			if !ok {
				if !f.Optional {
					return ref.Val{}, "missing-field"
				}
				fv = ref.Absent()
			}
			o.M = append(o.M, ref.Entry{K: f.Name, V: fv})
		}
		if _, ok := s.Repr(t, o); !ok {
			return ref.Val{}, "unrepresentable"
		}
		return o, ""
	case TUnion:
		if in.K != ref.KMap {
			return ref.Val{}, "wrong-kind"
		}
		if len(in.M) != 1 {
			return ref.Val{}, "union-not-exactly-one-member"
		}
		for _, m := range t.Members {
			if m == in.M[0].K {
				if in.M[0].V.K == ref.KNull {
					return ref.Val{}, "null-not-nullable"
				}
				mv, rej := s.AcceptType(s.T(m), in.M[0].V)
				if rej != "" {
					return ref.Val{}, rej
				}
				return ref.Map(ref.E(m, mv)), ""
			}
		}
		return ref.Val{}, "unknown-discriminant"
	case TEnum:
		if in.K != ref.KString {
			return ref.Val{}, "wrong-kind"
		}
		for _, m := range t.EMembers {
			if m == in.S {
				return in, ""
			}
		}
		return ref.Val{}, "enum-not-member"
	case TMap:
		if in.K != ref.KMap {
			return ref.Val{}, "wrong-kind"
		}
		o := ref.Map()
		seen := map[string]bool{}
		for _, e := range in.M {
			if seen[e.K] {
				return ref.Val{}, "repeated-key"
			}
			seen[e.K] = true
			if t.KeyType != "" && t.KeyType != "String" && s.T(t.KeyType).Kind == TEnum {
				if _, rej := s.AcceptType(s.T(t.KeyType), ref.Str(e.K)); rej != "" {
					return ref.Val{}, "bad-key:" + rej
				}
			}
			if e.V.K == ref.KNull {
				if !t.ValNullable {
					return ref.Val{}, "null-not-nullable"
				}
				o.M = append(o.M, e)
				continue
			}
			ev, rej := s.AcceptType(s.T(t.ValType), e.V)
			if rej != "" {
				return ref.Val{}, rej
			}
			o.M = append(o.M, ref.Entry{K: e.K, V: ev})
		}
		return o, ""
	case TList:
		if in.K != ref.KList {
			return ref.Val{}, "wrong-kind"
		}
		o := ref.List()
		for _, c := range in.L {
			if c.K == ref.KNull {
				if !t.ValNullable {
					return ref.Val{}, "null-not-nullable"
				}
				o.L = append(o.L, c)
				continue
			}
			cv, rej := s.AcceptType(s.T(t.ValType), c)
			if rej != "" {
				return ref.Val{}, rej
			}
			o.L = append(o.L, cv)
		}
		return o, ""
	case TAny:
		if in.K == ref.KAbsent || in.K == ref.KInvalid {
			return ref.Val{}, "wrong-kind"
		}
		if r := wellFormed(in); r != "" {
			return ref.Val{}, r
		}
		return in, ""
	}
	if in.K != s.ReprKind(t) {
		if t.Kind == TInt && in.K == ref.KUint {
			return ref.Val{}, "int-out-of-range"
		}
		return ref.Val{}, "wrong-kind"
	}
	return in, ""
}

// AcceptRepr: does data `in`, fed to the representation builder of t, conform?
func (s *Schema) AcceptRepr(t *Type, in ref.Val) (ref.Val, string) {
	v, rej := s.acceptRepr(t, in)
	return at(t, v, rej)
}

func (s *Schema) acceptRepr(t *Type, in ref.Val) (ref.Val, string) {
	switch t.Kind {
	case TStruct:
		vals := make([]ref.Val, len(t.Fields))
		have := make([]bool, len(t.Fields))
		put := func(i int, rv ref.Val) string {
			f := t.Fields[i]
			if have[i] {
				return "repeated-key"
			}
			have[i] = true
			if rv.K == ref.KNull {
				if !f.Nullable {
					return "null-not-nullable"
				}
				vals[i] = rv
				return ""
			}
			fv, rej := s.AcceptRepr(s.T(f.Type), rv)
			vals[i] = fv
			return rej
		}
		switch t.SRepr {
		case "map":
			if in.K != ref.KMap {
				return ref.Val{}, "wrong-kind"
			}
			for _, e := range in.M {
				idx := -1
				for i, f := range t.Fields {
					if reprName(f) == e.K {
						idx = i
					}
				}
				if idx < 0 {
					return ref.Val{}, "unknown-field"
				}
				if rej := put(idx, e.V); rej != "" {
					return ref.Val{}, rej
				}
			}
		case "listpairs":
			if in.K != ref.KList {
				return ref.Val{}, "wrong-kind"
			}
			for _, p := range in.L {
				if p.K != ref.KList || len(p.L) != 2 || p.L[0].K != ref.KString {
					return ref.Val{}, "malformed-pair"
				}
				idx := -1
				for i, f := range t.Fields {
					if reprName(f) == p.L[0].S {
						idx = i
					}
				}
				if idx < 0 {
					return ref.Val{}, "unknown-field"
				}
				if rej := put(idx, p.L[1]); rej != "" {
					return ref.Val{}, rej
				}
			}
		case "tuple":
			if in.K != ref.KList {
				return ref.Val{}, "wrong-kind"
			}
			if len(in.L) > len(t.Fields) {
				return ref.Val{}, "tuple-too-long"
			}
			for i, c := range in.L {
				if rej := put(i, c); rej != "" {
					return ref.Val{}, rej
				}
			}
		case "stringjoin":
			if in.K != ref.KString {
				return ref.Val{}, "wrong-kind"
			}
			parts := strings.Split(in.S, t.Delim)
			if len(parts) != len(t.Fields) {
				return ref.Val{}, "stringjoin-arity"
			}
			for i, p := range parts {
				if rej := put(i, ref.Str(p)); rej != "" {
					return ref.Val{}, rej
				}
			}
		}
		o := ref.Map()
		for i, f := range t.Fields {
			if !have[i] {
				if !f.Optional {
					return ref.Val{}, "missing-field"
				}
				vals[i] = ref.Absent()
			}
			o.M = append(o.M, ref.Entry{K: f.Name, V: vals[i]})
		}
		return o, ""
	case TUnion:
		switch t.URepr {
		case "keyed":
			if in.K != ref.KMap {
				return ref.Val{}, "wrong-kind"
			}
			if len(in.M) != 1 {
				return ref.Val{}, "union-not-exactly-one-member"
			}
			for _, m := range t.Members {
				if t.Discr[m] == in.M[0].K {
					if in.M[0].V.K == ref.KNull {
						return ref.Val{}, "null-not-nullable"
					}
					mv, rej := s.AcceptRepr(s.T(m), in.M[0].V)
					if rej != "" {
						return ref.Val{}, rej
					}
					return ref.Map(ref.E(m, mv)), ""
				}
			}
			return ref.Val{}, "unknown-discriminant"
		case "kinded":
			for _, m := range t.Members {
				if s.ReprKind(s.T(m)) == in.K || in.K == ref.KUint && s.ReprKind(s.T(m)) == ref.KInt {
					mv, rej := s.AcceptRepr(s.T(m), in)
					if rej != "" {
						return ref.Val{}, rej
					}
					return ref.Map(ref.E(m, mv)), ""
				}
			}
			return ref.Val{}, "unknown-kind-for-union"
		case "stringprefix":
			if in.K != ref.KString {
				return ref.Val{}, "wrong-kind"
			}
			for _, m := range t.Members {
				p := t.Discr[m] + t.Delim
				if t.Delim != "" {
					i := strings.Index(in.S, t.Delim)
					if i < 0 {
						return ref.Val{}, "stringprefix-no-delimiter"
					}
					if in.S[:i] != t.Discr[m] {
						continue
					}
				} else if !strings.HasPrefix(in.S, p) {
					continue
				}
				mv, rej := s.AcceptRepr(s.T(m), ref.Str(in.S[len(p):]))
				if rej != "" {
					return ref.Val{}, rej
				}
				return ref.Map(ref.E(m, mv)), ""
			}
			return ref.Val{}, "unknown-discriminant"
		}
	case TEnum:
		if t.ERepr == "int" {
			if in.K != ref.KInt {
				return ref.Val{}, "wrong-kind"
			}
			for _, m := range t.EMembers {
				if int64(t.EInt[m]) == in.I {
					return ref.Str(m), ""
				}
			}
			return ref.Val{}, "enum-not-member"
		}
		if in.K != ref.KString {
			return ref.Val{}, "wrong-kind"
		}
		for _, m := range t.EMembers {
			r, ok := t.EStr[m]
			if !ok {
				r = m
			}
			if r == in.S {
				return ref.Str(m), ""
			}
		}
		return ref.Val{}, "enum-not-member"
	case TMap:
		if in.K != ref.KMap {
			return ref.Val{}, "wrong-kind"
		}
		o := ref.Map()
		seen := map[string]bool{}
		for _, e := range in.M {
			if seen[e.K] {
				return ref.Val{}, "repeated-key"
			}
			seen[e.K] = true
			tk := e.K
			if t.KeyType != "" && t.KeyType != "String" {
				// the key string must be a representation of a value of the key type
				kv, rej := s.AcceptRepr(s.T(t.KeyType), ref.Str(e.K))
				if rej != "" {
					return ref.Val{}, "bad-key:" + rej
				}
				if kv.K == ref.KString {
					tk = kv.S
				}
			}
			if e.V.K == ref.KNull {
				if !t.ValNullable {
					return ref.Val{}, "null-not-nullable"
				}
				o.M = append(o.M, ref.Entry{K: tk, V: e.V})
				continue
			}
			ev, rej := s.AcceptRepr(s.T(t.ValType), e.V)
			if rej != "" {
				return ref.Val{}, rej
			}
			o.M = append(o.M, ref.Entry{K: tk, V: ev})
		}
		return o, ""
	case TList:
		if in.K != ref.KList {
			return ref.Val{}, "wrong-kind"
		}
		o := ref.List()
		for _, c := range in.L {
			if c.K == ref.KNull {
				if !t.ValNullable {
					return ref.Val{}, "null-not-nullable"
				}
				o.L = append(o.L, c)
				continue
			}
			cv, rej := s.AcceptRepr(s.T(t.ValType), c)
			if rej != "" {
				return ref.Val{}, rej
			}
			o.L = append(o.L, cv)
		}
		return o, ""
	}
	return s.acceptType(t, in)
}

// TypeNames sorted, for deterministic iteration.
func (s *Schema) TypeNames() []string {
	n := append([]string(nil), s.Order...)
	sort.Strings(n)
	return n
}

// Pos is one position of a typed value: its path by the schema's own account and the value there.
type Pos struct {
	Segs []string
	V    ref.Val
}

// Positions lists the positions of typed value v (type-level view) by the schema's own account:
// struct fields by name (absent ones left out), union members by type name, list elements by index,
// map entries by the representation string of their key. At most limit positions.
func (s *Schema) Positions(t *Type, v ref.Val, limit int) []Pos {
	var out []Pos
	var rec func(t *Type, v ref.Val, prefix []string)
	rec = func(t *Type, v ref.Val, prefix []string) {
		if len(out) >= limit {
			return
		}
		out = append(out, Pos{append([]string(nil), prefix...), v})
		if v.K == ref.KNull || v.K == ref.KLink {
			return
		}
		sub := func(seg string, ct *Type, cv ref.Val) {
			if cv.K == ref.KAbsent {
				return
			}
			rec(ct, cv, append(append([]string(nil), prefix...), seg))
		}
		switch t.Kind {
		case TStruct:
			for i, f := range t.Fields {
				if i < len(v.M) {
					sub(f.Name, s.T(f.Type), v.M[i].V)
				}
			}
		case TUnion:
			if len(v.M) == 1 {
				sub(v.M[0].K, s.T(v.M[0].K), v.M[0].V)
			}
		case TList:
			for i, c := range v.L {
				sub(strconv.Itoa(i), s.T(t.ValType), c)
			}
		case TMap:
			for _, e := range v.M {
				seg := e.K
				if t.KeyType != "" && t.KeyType != "String" && s.T(t.KeyType).Kind == TEnum {
					if r, ok := s.Repr(s.T(t.KeyType), ref.Str(e.K)); ok && r.K == ref.KString {
						seg = r.S
					}
				}
				sub(seg, s.T(t.ValType), e.V)
			}
		case TAny:
			// a generic value below a typed position: by its own keys and indices
			var anyRec func(v ref.Val, prefix []string)
			anyRec = func(v ref.Val, prefix []string) {
				for i, c := range v.L {
					p := append(append([]string(nil), prefix...), strconv.Itoa(i))
					if len(out) < limit {
						out = append(out, Pos{p, c})
						anyRec(c, p)
					}
				}
				for _, e := range v.M {
					p := append(append([]string(nil), prefix...), e.K)
					if len(out) < limit {
						out = append(out, Pos{p, e.V})
						anyRec(e.V, p)
					}
				}
			}
			anyRec(v, prefix)
		}
	}
	rec(t, v, nil)
	return out
}
