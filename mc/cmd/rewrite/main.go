// Command rewrite generates a `go build -overlay` file that instruments the working tree without
// touching it: the current non-test sources of selected packages are copied with import paths
// replaced by shim packages, and the shim packages are added virtually inside the repo module.
//
//	rewrite -repo /repo -out /verif/.work/overlay -shims /verif/mc/shims
package main

import (
	"bytes"
	"encoding/json"
	"flag"
	"fmt"
	"go/ast"
	"go/parser"
	"go/printer"
	"go/token"
	"os"
	"path/filepath"
	"strconv"
	"strings"
)

const modPath = "github.com/ipld/go-ipld-prime"

type pkgRule struct {
	dir     string            // relative to repo
	imports map[string]string // import path → replacement
	// hooks: receiver type name ("" = plain function) → function names (nil/empty slice = every method
	// of that receiver) at whose entry a scheduling point is inserted
	hooks map[string][]string
}

func main() {
	repo := flag.String("repo", "/repo", "")
	out := flag.String("out", "", "")
	shims := flag.String("shims", "", "")
	flag.Parse()
	rules := []pkgRule{
		{dir: "storage/fsstore", imports: map[string]string{"os": modPath + "/zzverif/vos", "crypto/rand": modPath + "/zzverif/vrand"}},
		// accessors of shared mutable state: scheduling points (by receiver type, so that new methods are covered too)
		{dir: "schema", hooks: map[string][]string{"TypeSystem": nil}},
		{dir: "multicodec", hooks: map[string][]string{"Registry": nil}},
		{dir: "traversal", hooks: map[string][]string{"Config": {"init"}, "Progress": {"init"}}},
		{dir: "storage/memstore", hooks: map[string][]string{"Store": {"beInitialized"}}},
		{dir: "linking/cid", hooks: map[string][]string{"Memory": {"beInitialized"}}},
		{dir: "node/bindnode", hooks: map[string][]string{"": {"inferSchema"}}},
	}
	replace := map[string]string{}
	os.MkdirAll(*out, 0o755)
	for _, r := range rules {
		entries, err := os.ReadDir(filepath.Join(*repo, r.dir))
		if err != nil {
			fatal(err)
		}
		for _, e := range entries {
			name := e.Name()
			if !strings.HasSuffix(name, ".go") || strings.HasSuffix(name, "_test.go") {
				continue
			}
			src := filepath.Join(*repo, r.dir, name)
			fset := token.NewFileSet()
			f, err := parser.ParseFile(fset, src, nil, parser.ParseComments)
			if err != nil {
				fatal(fmt.Errorf("working-tree source does not parse: %w", err))
			}
			changed := false
			if len(r.hooks) > 0 && insertHooks(f, r) {
				changed = true
			}
			for _, imp := range f.Imports {
				p, _ := strconv.Unquote(imp.Path.Value)
				if to, ok := r.imports[p]; ok {
					imp.Path.Value = strconv.Quote(to)
					if imp.Name == nil {
						// keep the identifier the file uses (os, rand)
						imp.Name = ast.NewIdent(filepath.Base(p))
					}
					changed = true
				}
			}
			if !changed {
				continue
			}
			var buf bytes.Buffer
			if err := printer.Fprint(&buf, fset, f); err != nil {
				fatal(err)
			}
			dst := filepath.Join(*out, strings.ReplaceAll(r.dir, "/", "_")+"_"+name)
			if err := os.WriteFile(dst, buf.Bytes(), 0o644); err != nil {
				fatal(err)
			}
			replace[src] = dst
		}
	}
	// any library file that imports "sync" gets the scheduler-aware shim instead, so that a mutex
	// added to the library becomes a scheduling point automatically
	filepath.Walk(*repo, func(p string, fi os.FileInfo, err error) error {
		if err != nil {
			return nil
		}
		if fi.IsDir() {
			if b := fi.Name(); b == ".git" || b == ".ipld" || (p != *repo && strings.HasPrefix(b, ".")) {
				return filepath.SkipDir
			}
			return nil
		}
		if !strings.HasSuffix(p, ".go") || strings.HasSuffix(p, "_test.go") {
			return nil
		}
		srcPath := p
		if dst, ok := replace[p]; ok {
			srcPath = dst // already rewritten for another reason: rewrite the rewritten copy
		}
		b, err := os.ReadFile(srcPath)
		if err != nil || !bytes.Contains(b, []byte(`"sync"`)) {
			return nil
		}
		fset := token.NewFileSet()
		f, err := parser.ParseFile(fset, srcPath, b, parser.ParseComments)
		if err != nil || f.Name.Name == "main" {
			return nil
		}
		changed := false
		for _, imp := range f.Imports {
			if imp.Path.Value == `"sync"` {
				imp.Path.Value = strconv.Quote(modPath + "/zzverif/vsync")
				if imp.Name == nil {
					imp.Name = ast.NewIdent("sync")
				}
				changed = true
			}
		}
		if !changed {
			return nil
		}
		var buf bytes.Buffer
		if err := printer.Fprint(&buf, fset, f); err != nil {
			fatal(err)
		}
		rel, _ := filepath.Rel(*repo, p)
		dst := filepath.Join(*out, "sync_"+strings.ReplaceAll(rel, "/", "_"))
		if err := os.WriteFile(dst, buf.Bytes(), 0o644); err != nil {
			fatal(err)
		}
		replace[p] = dst
		return nil
	})
	// an accessor file added to package bindnode (overlay only)
	// (which variant depends on whether the package, as it is in the working tree now, still keeps a
	// package-level type system for inferred schemas)
	accessor := "bindnode_verif_noglobal.go.txt"
	if src, err := os.ReadFile(filepath.Join(*repo, "node", "bindnode", "infer.go")); err == nil && strings.Contains(string(src), "var defaultTypeSystem schema.TypeSystem") {
		accessor = "bindnode_verif.go.txt"
	}
	replace[filepath.Join(*repo, "node", "bindnode", "zz_verif_access.go")] = filepath.Join(*shims, accessor)
	// virtual shim packages inside the repo module
	for _, s := range []string{"vos", "vrand", "vsched", "vsync"} {
		replace[filepath.Join(*repo, "zzverif", s, s+".go")] = filepath.Join(*shims, s, s+".go.txt")
	}
	b, _ := json.MarshalIndent(map[string]any{"Replace": replace}, "", " ")
	if err := os.WriteFile(filepath.Join(*out, "overlay.json"), b, 0o644); err != nil {
		fatal(err)
	}
	fmt.Println(filepath.Join(*out, "overlay.json"))
}

func fatal(err error) {
	fmt.Fprintln(os.Stderr, "rewrite:", err)
	os.Exit(1)
}

func recvName(fd *ast.FuncDecl) string {
	if fd.Recv == nil || len(fd.Recv.List) == 0 {
		return ""
	}
	t := fd.Recv.List[0].Type
	if st, ok := t.(*ast.StarExpr); ok {
		t = st.X
	}
	if id, ok := t.(*ast.Ident); ok {
		return id.Name
	}
	return "?"
}

// insertHooks prepends vsched.Point("<recv>.<func>") to the selected functions of the file.
func insertHooks(f *ast.File, r pkgRule) bool {
	changed := false
	for _, d := range f.Decls {
		fd, ok := d.(*ast.FuncDecl)
		if !ok || fd.Body == nil {
			continue
		}
		names, ok := r.hooks[recvName(fd)]
		if !ok {
			continue
		}
		sel := len(names) == 0
		for _, n := range names {
			if n == fd.Name.Name {
				sel = true
			}
		}
		if !sel {
			continue
		}
		label := fd.Name.Name
		if rn := recvName(fd); rn != "" {
			label = rn + "." + label
		}
		call := &ast.ExprStmt{X: &ast.CallExpr{
			Fun:  &ast.SelectorExpr{X: ast.NewIdent("vsched"), Sel: ast.NewIdent("Point")},
			Args: []ast.Expr{&ast.BasicLit{Kind: token.STRING, Value: strconv.Quote(filepath.Base(r.dir) + "." + label)}},
		}}
		fd.Body.List = append([]ast.Stmt{call}, fd.Body.List...)
		changed = true
	}
	if changed {
		f.Imports = append(f.Imports, nil)[:len(f.Imports)]
		// add the import
		imp := &ast.ImportSpec{Name: ast.NewIdent("vsched"), Path: &ast.BasicLit{Kind: token.STRING, Value: strconv.Quote(modPath + "/zzverif/vsched")}}
		gd := &ast.GenDecl{Tok: token.IMPORT, Specs: []ast.Spec{imp}}
		f.Decls = append([]ast.Decl{gd}, f.Decls...)
		f.Imports = append(f.Imports, imp)
	}
	return changed
}
