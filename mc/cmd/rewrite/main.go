// Command rewrite generates a `go build -overlay` file that instruments the working tree without
// touching it: the current non-test sources of selected packages are copied with import paths
// replaced by shim packages, and the shim packages are added virtually inside the repo module.
//
//	rewrite -repo /repo -out /verif/.work/overlay -shims /verif/mc/shims
package main

import (
	"bytes"
	"encoding/json"
	"flag"
	"fmt"
	"go/ast"
	"go/parser"
	"go/printer"
	"go/token"
	"os"
	"path/filepath"
	"strconv"
	"strings"
)

const modPath = "github.com/ipld/go-ipld-prime"

type pkgRule struct {
	dir     string            // relative to repo
	imports map[string]string // import path → replacement
}

func main() {
	repo := flag.String("repo", "/repo", "")
	out := flag.String("out", "", "")
	shims := flag.String("shims", "", "")
	flag.Parse()
	rules := []pkgRule{
		{"storage/fsstore", map[string]string{"os": modPath + "/zzverif/vos", "crypto/rand": modPath + "/zzverif/vrand"}},
	}
	replace := map[string]string{}
	os.MkdirAll(*out, 0o755)
	for _, r := range rules {
		entries, err := os.ReadDir(filepath.Join(*repo, r.dir))
		if err != nil {
			fatal(err)
		}
		for _, e := range entries {
			name := e.Name()
			if !strings.HasSuffix(name, ".go") || strings.HasSuffix(name, "_test.go") {
				continue
			}
			src := filepath.Join(*repo, r.dir, name)
			fset := token.NewFileSet()
			f, err := parser.ParseFile(fset, src, nil, parser.ParseComments)
			if err != nil {
				fatal(fmt.Errorf("working-tree source does not parse: %w", err))
			}
			changed := false
			for _, imp := range f.Imports {
				p, _ := strconv.Unquote(imp.Path.Value)
				if to, ok := r.imports[p]; ok {
					imp.Path.Value = strconv.Quote(to)
					if imp.Name == nil {
						// keep the identifier the file uses (os, rand)
						imp.Name = ast.NewIdent(filepath.Base(p))
					}
					changed = true
				}
			}
			if !changed {
				continue
			}
			var buf bytes.Buffer
			if err := printer.Fprint(&buf, fset, f); err != nil {
				fatal(err)
			}
			dst := filepath.Join(*out, strings.ReplaceAll(r.dir, "/", "_")+"_"+name)
			if err := os.WriteFile(dst, buf.Bytes(), 0o644); err != nil {
				fatal(err)
			}
			replace[src] = dst
		}
	}
	// virtual shim packages inside the repo module
	for _, s := range []string{"vos", "vrand"} {
		replace[filepath.Join(*repo, "zzverif", s, s+".go")] = filepath.Join(*shims, s, s+".go.txt")
	}
	b, _ := json.MarshalIndent(map[string]any{"Replace": replace}, "", " ")
	if err := os.WriteFile(filepath.Join(*out, "overlay.json"), b, 0o644); err != nil {
		fatal(err)
	}
	fmt.Println(filepath.Join(*out, "overlay.json"))
}

func fatal(err error) {
	fmt.Fprintln(os.Stderr, "rewrite:", err)
	os.Exit(1)
}
