// Command mc runs one property check: mc <ID> <quick|thorough> | mc <ID> --replay <file>
package main

import (
	"fmt"
	"os"
	"strconv"
	"time"

	"verif/mc/core"
	"verif/mc/props/c01"
	"verif/mc/props/c02"
	"verif/mc/props/c03"
	"verif/mc/props/c04"
	"verif/mc/props/c05"
	"verif/mc/props/c06"
	"verif/mc/props/c07"
	"verif/mc/props/c10"
	"verif/mc/props/c11"
	"verif/mc/props/c12"
	"verif/mc/props/c14"
	"verif/mc/props/c15"
	"verif/mc/props/c16"
	"verif/mc/props/c19"
)

type prop struct {
	level  string
	main   func(*core.Run)
	replay func(*core.Run, string, []byte)
}

var props = map[string]prop{
	"C10": {"model_checking", c10.Main, func(r *core.Run, mode string, raw []byte) { c10.Replay(r, mode, raw) }},
	"C19": {"model_checking", c19.Main, func(r *core.Run, mode string, raw []byte) { c19.Replay(r, mode, raw) }},
	"C11": {"model_checking", c11.Main, func(r *core.Run, mode string, raw []byte) { c11.Replay(r, raw) }},
	"C12": {"model_checking", c12.Main, func(r *core.Run, mode string, raw []byte) { c12.Replay(r, raw) }},
	"C01": {"model_checking", c01.Main, func(r *core.Run, mode string, raw []byte) { c01.Replay(r, mode, raw) }},
	"C16": {"model_checking", c16.Main, func(r *core.Run, mode string, raw []byte) { c16.Replay(r, mode, raw) }},
	"C14": {"model_checking", c14.Main, func(r *core.Run, mode string, raw []byte) { c14.Replay(r, mode, raw) }},
	"C15": {"model_checking", c15.Main, func(r *core.Run, mode string, raw []byte) { c15.Replay(r, raw) }},
	"C07": {"model_checking", c07.Main, func(r *core.Run, mode string, raw []byte) { c07.Replay(r, raw) }},
	"C06": {"fault_enumeration", c06.Main, func(r *core.Run, mode string, raw []byte) { c06.Replay(r, mode, raw) }},
	"C05": {"model_checking", c05.Main, func(r *core.Run, mode string, raw []byte) { c05.Replay(r, mode, raw) }},
	"C04": {"model_checking", c04.Main, func(r *core.Run, mode string, raw []byte) { c04.Replay(r, raw) }},
	"C02": {"model_checking", c02.Main, func(r *core.Run, mode string, raw []byte) { c02.Replay(r, raw) }},
	"C03": {"model_checking", c03.Main, func(r *core.Run, mode string, raw []byte) { c03.Replay(r, raw) }},
}

func main() {
	if len(os.Args) >= 2 && os.Args[1] == "C10-alloc-worker" {
		c10.AllocWorker()
		return
	}
	if len(os.Args) >= 5 && os.Args[1] == "C10-selector-worker" {
		from, _ := strconv.Atoi(os.Args[3])
		stride, _ := strconv.Atoi(os.Args[4])
		c10.SelectorWorker(os.Args[2], from, stride)
		return
	}
	if len(os.Args) < 3 {
		fmt.Fprintln(os.Stderr, "usage: mc <ID> <quick|thorough> | mc <ID> --replay <file>")
		os.Exit(2)
	}
	id := os.Args[1]
	if id == "C19-worker" {
		c19.Worker(os.Args[2])
		return
	}
	p, ok := props[id]
	if !ok {
		fmt.Fprintf(os.Stderr, "unknown property %s\n", id)
		os.Exit(2)
	}
	if os.Args[2] == "--replay" {
		rf, err := core.LoadReplay(os.Args[3])
		if err != nil {
			fmt.Fprintln(os.Stderr, err)
			os.Exit(2)
		}
		r := core.NewRun(id, "quick", p.level)
		r.SetReplaying()
		p.replay(r, rf.Mode, rf.Case)
		os.Exit(r.Finish())
	}
	tier := os.Args[2]
	r := core.NewRun(id, tier, p.level)
	if d := os.Getenv("VERIF_DEADLINE_S"); d != "" {
		if s, err := time.ParseDuration(d + "s"); err == nil {
			r.Deadline = time.Now().Add(s)
		}
	}
	p.main(r)
	os.Exit(r.Finish())
}
