// Command mctyped runs the typed-node checks (C08, C09, C12 typed part, C13, C19). It is compiled
// together with the packages the code generator produced from the working tree (see gen.go).
package main

import (
	"encoding/json"
	"fmt"
	"os"

	"verif/mc/core"
	"verif/mc/props/c08"
	"verif/mc/props/c09"
	"verif/mc/props/c10"
	"verif/mc/props/c12"
	"verif/mc/rs"
	"verif/mc/typed"
)

func engines() []typed.Engine {
	es := []typed.Engine{typed.NewBindEngine()}
	if g := generatedEngine(); g != nil {
		es = append(es, g)
	}
	return es
}

func main() {
	if len(os.Args) < 3 {
		fmt.Fprintln(os.Stderr, "usage: mctyped <ID> <quick|thorough> | mctyped <ID> --replay <file>")
		os.Exit(2)
	}
	id := os.Args[1]
	replay := os.Args[2] == "--replay"
	tier := os.Args[2]
	var rf *core.ReplayFile
	if replay {
		var err error
		if rf, err = core.LoadReplay(os.Args[3]); err != nil {
			fmt.Fprintln(os.Stderr, err)
			os.Exit(2)
		}
		tier = "thorough"
	}
	r := core.NewRun(id, tier, "model_checking")
	if replay {
		r.SetReplaying()
	}
	fams := rs.Families(tier != "thorough")
	switch id {
	case "C01-generated-worker":
		// the generated-code part of C01 (this binary links the generated packages; the run that owns
		// C01's evidence is cmd/mc, which starts this and merges the result)
		g := generatedEngine()
		if g == nil {
			fmt.Fprintln(os.Stderr, "CHECK-BROKEN: no generated engine linked")
			os.Exit(2)
		}
		r = core.NewRun("C01", tier, "model_checking")
		every := 3
		if tier == "thorough" {
			every = 1
		}
		c08.RunRoutes(r, []typed.Engine{g}, fams, every)
		if err := r.ExportPartial(os.Stdout); err != nil {
			fmt.Fprintln(os.Stderr, "CHECK-BROKEN:", err)
			os.Exit(2)
		}
		os.Exit(0)
	case "C10-generated-worker":
		g := generatedEngine()
		if g == nil {
			fmt.Fprintln(os.Stderr, "CHECK-BROKEN: no generated engine linked")
			os.Exit(2)
		}
		r = core.NewRun("C10", tier, "model_checking")
		c10.TypedTargets(r, g)
		if err := r.ExportPartial(os.Stdout); err != nil {
			fmt.Fprintln(os.Stderr, "CHECK-BROKEN:", err)
			os.Exit(2)
		}
		os.Exit(0)
	case "C10":
		if !replay {
			fmt.Fprintln(os.Stderr, "mctyped C10: replay only (the check itself is cmd/mc C10)")
			os.Exit(2)
		}
		var c c10.TypedDecCase
		json.Unmarshal(rf.Case, &c)
		c10.ReplayTyped(r, generatedEngine(), c)
	case "C01":
		// replay of a generated-code case of C01
		if !replay {
			fmt.Fprintln(os.Stderr, "mctyped C01: replay only (the check itself is cmd/mc C01)")
			os.Exit(2)
		}
		var c c08.Case
		json.Unmarshal(rf.Case, &c)
		for _, s := range rs.Families(false) {
			if s.Name == c.Schema {
				fs, _ := c08.CheckRoutes(generatedEngine(), s, c)
				r.Report("routes", c, fs)
			}
		}
	case "C08":
		if replay {
			c08.Replay(r, engines(), fams, rf.Case)
		} else {
			r.Rule("every root type of the schema families (struct map/tuple/stringjoin/listpairs over all optional/nullable mode vectors and renames; union keyed/kinded/stringprefix; enum string/int; typed maps and lists; every scalar incl. link; Any; thorough: every outer×inner strategy pair) × every value of V(T) (full product where ≤400, else all single and pairwise deviations) × engines {bindnode with inferred Go types, generated code} × four construction routes (type-level builder, representation builder, dag-cbor decode, dag-json decode through the representation prototype); every single route deviation (AssignNode of prebuilt basic/kind-specific/foreign nodes at every position, keys through the key assembler, size hints) at both levels; both views read completely, representation encoded and compared with reference bytes, routes compared with DeepEqual. Non-trivial: every typed value (distinct by construction).")
			r.Assume("reference schema semantics mc/rs; corners the schema specification leaves undefined are outside V(T) (tuple absent-then-present, delimiter inside stringjoin fields)")
			c08.Run(r, engines(), fams)
		}
	case "C09":
		if replay {
			c09.Replay(r, engines(), fams, rf.Mode, rf.Case)
		} else {
			r.Rule("every root type of the schema families × both levels: the conforming tree of every typed value and every single local mutation of it at every position (entry/element dropped, duplicated adjacent and at the end with same and different value, renamed to every name the schema mentions incl. the other level's name, added, swapped; value retyped to every other kind, nulled, int→uint64>int64; strings replaced by every schema name, with delimiters added; lists extended/truncated) × routes {AssembleEntry, AssembleKey+AssembleValue, relaxed dag-cbor decode of a raw encoding so that duplicate keys reach the assembler} × engines; accepted ⇔ the reference acceptance relation, rejection by error never panic, accepted value = reference typed value. Non-trivial = mutated inputs; distinct by (type, level, route, input).")
			r.Assume("reference acceptance relations mc/rs AcceptType/AcceptRepr")
			c09.Run(r, engines(), fams, false)
		}
	case "C12":
		c12.TypedEngines = engines
		if replay {
			c12.Replay(r, rf.Case)
		} else {
			c12.Main(r)
		}
	case "C13":
		if replay {
			if rf.Mode == "generate" {
				generationFindings(r)
			} else {
				c09.Replay(r, engines(), fams, rf.Mode, rf.Case)
			}
		} else {
			r.Rule("programs: every schema family within the generator's feature set, generated afresh by gengo.Generate from the working tree and compiled (generation panic or compile error = violation); inputs: the conforming trees of every typed value and every local mutation of them at both levels through three routes (the C09 input space); oracle: lock-step — bindnode accepts ⇔ generated code accepts, and on acceptance the type-level view, the representation view and the dag-cbor bytes are identical; neither panics. Non-trivial = mutated inputs; distinct by (type, level, route, input).")
			r.Assume("pure differential check: where both engines share a mistake only C08/C09 (reference semantics) can see it")
			generationFindings(r)
			c09.Run(r, engines(), fams, true)
		}
	default:
		fmt.Fprintf(os.Stderr, "unknown property %s\n", id)
		os.Exit(2)
	}
	os.Exit(r.Finish())
}

// generationFindings turns the generator stage's report (mc/gen_out/report.json) into findings.
func generationFindings(r *core.Run) {
	type rep struct {
		Family     string `json:"family"`
		Types      int    `json:"types"`
		Generated  bool   `json:"generated"`
		Panic      string `json:"panic"`
		Compiled   bool   `json:"compiled"`
		CompileErr string `json:"compile_error"`
	}
	b, err := os.ReadFile(core.VerifDir + "/mc/gen_out/report.json")
	if err != nil {
		fmt.Fprintf(os.Stderr, "CHECK-BROKEN: generator stage report missing: %v\n", err)
		os.Exit(2)
	}
	var reps []rep
	if err := json.Unmarshal(b, &reps); err != nil {
		fmt.Fprintf(os.Stderr, "CHECK-BROKEN: %v\n", err)
		os.Exit(2)
	}
	for _, p := range reps {
		r.States.Add(1)
		r.Transitions.Add(int64(p.Types))
		r.Add("generated_types", int64(p.Types))
		switch {
		case !p.Generated:
			r.Report("generate", p, []core.Finding{core.F("generate/gen-panic("+core.Class(p.Panic)+")", "family %s: %s", p.Family, p.Panic)})
		case !p.Compiled:
			r.Report("generate", p, []core.Finding{core.F("generate/compile-error("+p.Family+")", "family %s: %s", p.Family, p.CompileErr)})
		default:
			r.Outcome("generated+compiled")
		}
	}
	if len(reps) == 0 {
		fmt.Fprintln(os.Stderr, "CHECK-BROKEN: no family was generated")
		os.Exit(2)
	}
}
