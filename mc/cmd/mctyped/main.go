// Command mctyped runs the typed-node checks (C08, C09, C12 typed part, C13, C19). It is compiled
// together with the packages the code generator produced from the working tree (see gen.go).
package main

import (
	"fmt"
	"os"

	"verif/mc/core"
	"verif/mc/props/c08"
	"verif/mc/rs"
	"verif/mc/typed"
)

func engines() []typed.Engine {
	es := []typed.Engine{typed.NewBindEngine()}
	if g := generatedEngine(); g != nil {
		es = append(es, g)
	}
	return es
}

func main() {
	if len(os.Args) < 3 {
		fmt.Fprintln(os.Stderr, "usage: mctyped <ID> <quick|thorough> | mctyped <ID> --replay <file>")
		os.Exit(2)
	}
	id := os.Args[1]
	replay := os.Args[2] == "--replay"
	tier := os.Args[2]
	var rf *core.ReplayFile
	if replay {
		var err error
		if rf, err = core.LoadReplay(os.Args[3]); err != nil {
			fmt.Fprintln(os.Stderr, err)
			os.Exit(2)
		}
		tier = "thorough"
	}
	r := core.NewRun(id, tier, "model_checking")
	if replay {
		r.SetReplaying()
	}
	fams := rs.Families(tier != "thorough")
	switch id {
	case "C08":
		if replay {
			c08.Replay(r, engines(), fams, rf.Case)
		} else {
			r.Rule("every root type of the schema families (struct map/tuple/stringjoin/listpairs over all optional/nullable mode vectors and renames; union keyed/kinded/stringprefix; enum string/int; typed maps and lists; every scalar incl. link; Any; thorough: every outer×inner strategy pair) × every value of V(T) (full product where ≤400, else all single and pairwise deviations) × engines {bindnode with inferred Go types, generated code} × four construction routes (type-level builder, representation builder, dag-cbor decode, dag-json decode through the representation prototype); both views read completely, representation encoded and compared with reference bytes, routes compared with DeepEqual. Non-trivial: every typed value (distinct by construction).")
			r.Assume("reference schema semantics mc/rs; corners the schema specification leaves undefined are outside V(T) (tuple absent-then-present, delimiter inside stringjoin fields)")
			c08.Run(r, engines(), fams)
		}
	default:
		fmt.Fprintf(os.Stderr, "unknown property %s\n", id)
		os.Exit(2)
	}
	os.Exit(r.Finish())
}
