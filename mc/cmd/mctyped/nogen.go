//go:build !withgen

package main

import "verif/mc/typed"

func generatedEngine() typed.Engine { return nil }
