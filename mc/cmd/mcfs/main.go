// Command mcfs runs the checks that need the instrumented (overlay-built) library: C17, C18.
package main

import (
	"fmt"
	"os"
	"strconv"

	"verif/mc/core"
	"verif/mc/props/c17"
	"verif/mc/props/c18"
	"verif/mc/props/c20"
)

type prop struct {
	level  string
	main   func(*core.Run)
	replay func(*core.Run, string, []byte)
}

var props = map[string]prop{
	"C20": {"model_checking", c20.Main, func(r *core.Run, mode string, raw []byte) { c20.Replay(r, mode, raw) }},
	"C18": {"fault_enumeration", c18.Main, func(r *core.Run, mode string, raw []byte) { c18.Replay(r, mode, raw) }},
	"C17": {"model_checking", c17.Main, func(r *core.Run, mode string, raw []byte) { c17.Replay(r, raw) }},
}

func main() {
	if len(os.Args) < 3 {
		fmt.Fprintln(os.Stderr, "usage: mcfs <ID> <quick|thorough> | mcfs <ID> --replay <file>")
		os.Exit(2)
	}
	id := os.Args[1]
	if id == "C18-race" {
		reps, _ := strconv.Atoi(os.Args[2])
		c18.RaceWorker(reps)
		return
	}
	if id == "C20-race" {
		g, _ := strconv.Atoi(os.Args[4])
		reps, _ := strconv.Atoi(os.Args[5])
		c20.RaceWorker(os.Args[2], os.Args[3], g, reps)
		return
	}
	p, ok := props[id]
	if !ok {
		fmt.Fprintf(os.Stderr, "unknown property %s\n", id)
		os.Exit(2)
	}
	if os.Args[2] == "--replay" {
		rf, err := core.LoadReplay(os.Args[3])
		if err != nil {
			fmt.Fprintln(os.Stderr, err)
			os.Exit(2)
		}
		r := core.NewRun(id, "quick", p.level)
		r.SetReplaying()
		p.replay(r, rf.Mode, rf.Case)
		os.Exit(r.Finish())
	}
	r := core.NewRun(id, os.Args[2], p.level)
	p.main(r)
	os.Exit(r.Finish())
}
