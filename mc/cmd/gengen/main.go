// Command gengen runs the code generator from the working tree on every schema family within its
// feature set, into mc/gen_out/<family>/, and reports per family whether generation panicked.
// The check wrapper then compiles each package and writes the registry that mctyped links.
package main

import (
	"encoding/json"
	"fmt"
	"os"
	"path/filepath"

	gengo "github.com/ipld/go-ipld-prime/schema/gen/go"

	"verif/mc/rs"
)

type report struct {
	Family    string `json:"family"`
	Types     int    `json:"types"`
	Generated bool   `json:"generated"`
	Panic     string `json:"panic,omitempty"`
	Compiled  bool   `json:"compiled"`
	CompileErr string `json:"compile_error,omitempty"`
}

func main() {
	out := os.Args[1]
	quick := len(os.Args) > 2 && os.Args[2] == "quick"
	os.RemoveAll(out)
	var reps []report
	for _, s := range rs.Families(quick) {
		if !s.Generatable() {
			continue
		}
		r := report{Family: s.Name, Types: len(s.Order)}
		dir := filepath.Join(out, s.Name)
		os.MkdirAll(dir, 0o755)
		func() {
			defer func() {
				if p := recover(); p != nil {
					r.Panic = fmt.Sprint(p)
				}
			}()
			ts, err := s.Compile(true)
			if err != nil {
				panic(err)
			}
			gengo.Generate(dir, s.Name, *ts, &gengo.AdjunctCfg{})
			r.Generated = true
		}()
		if !r.Generated {
			os.RemoveAll(dir)
		}
		reps = append(reps, r)
	}
	b, _ := json.MarshalIndent(reps, "", " ")
	os.WriteFile(filepath.Join(out, "report.json"), b, 0o644)
	fmt.Println(string(b))
}
