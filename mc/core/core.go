// Package core: run bookkeeping shared by every property check — counters, violation
// signatures, known findings, replay files and the evidence file.
package core

import (
	"io"
	"crypto/sha256"
	"encoding/hex"
	"encoding/json"
	"fmt"
	"os"
	"path/filepath"
	"runtime"
	"sort"
	"strconv"
	"strings"
	"sync"
	"sync/atomic"
	"time"
)

// VerifDir is the root of the verification tree (where evidence/, replays/, known_findings.json live).
var VerifDir = func() string {
	if d := os.Getenv("VERIF_DIR"); d != "" {
		return d
	}
	return "/verif"
}()

// Finding is one disagreement between the implementation and the oracle.
// Sig is the abstract signature (facet/site/cause), never the raw input.
type Finding struct {
	Sig    string `json:"sig"`
	Detail string `json:"detail"`
}

func F(sig, format string, a ...any) Finding {
	return Finding{Sig: sig, Detail: fmt.Sprintf(format, a...)}
}

type KnownFinding struct {
	Property string          `json:"property"`
	Status   string          `json:"status"` // "known" or "fixed"
	Sig      string          `json:"sig"`
	What     string          `json:"what"`
	Commit   string          `json:"commit,omitempty"`
	Witness  json.RawMessage `json:"witness,omitempty"`
}

type violation struct {
	Finding
	Case  json.RawMessage
	Mode  string
	Count int64
}

// Run accumulates everything one check execution measures.
type Run struct {
	Prop  string
	Tier  string
	Seed  int64
	Level string
	start time.Time

	States      atomic.Int64
	Transitions atomic.Int64
	Traces      atomic.Int64
	Evals       atomic.Int64

	mu         sync.Mutex
	viol       map[string]*violation
	nontrivial map[string]struct{}
	ntOverflow int64
	ntByConstruction int64
	outcomes   map[string]int64
	samples    []any
	extra      map[string]any
	assume     []string
	rule       string
	exhaustive bool
	capNote    string
	known      []KnownFinding
	Deadline   time.Time
	replaying  bool
}

func NewRun(prop, tier, level string) *Run {
	seed, _ := strconv.ParseInt(os.Getenv("VERIF_SEED"), 10, 64)
	r := &Run{Prop: prop, Tier: tier, Seed: seed, Level: level, start: time.Now(),
		viol: map[string]*violation{}, nontrivial: map[string]struct{}{}, outcomes: map[string]int64{},
		extra: map[string]any{}, exhaustive: true}
	r.loadKnown()
	return r
}

func (r *Run) Quick() bool { return r.Tier != "thorough" }

func (r *Run) loadKnown() {
	b, err := os.ReadFile(filepath.Join(VerifDir, "known_findings.json"))
	if err != nil {
		return
	}
	var all []KnownFinding
	if err := json.Unmarshal(b, &all); err != nil {
		fmt.Fprintf(os.Stderr, "CHECK-BROKEN: known_findings.json unreadable: %v\n", err)
		os.Exit(2)
	}
	for _, k := range all {
		if k.Property == r.Prop && k.Status == "known" {
			r.known = append(r.known, k)
		}
	}
}

// Report records findings for one executed case. c is the JSON-serialisable case, mode names the
// sub-check (so that replay can dispatch).
func (r *Run) Report(mode string, c any, fs []Finding) {
	if len(fs) == 0 {
		return
	}
	r.mu.Lock()
	defer r.mu.Unlock()
	for _, f := range fs {
		v := r.viol[f.Sig]
		if v == nil {
			raw, _ := json.Marshal(c)
			r.viol[f.Sig] = &violation{Finding: f, Case: raw, Mode: mode, Count: 1}
			continue
		}
		v.Count++
		// keep the smallest witness
		if v.Count < 10000 {
			raw, _ := json.Marshal(c)
			if len(raw) < len(v.Case) {
				v.Case, v.Detail, v.Mode = raw, f.Detail, mode
			}
		}
	}
}

// Nontrivial counts a distinct non-trivial case by key (bounded memory: beyond 2M keys only counted).
func (r *Run) Nontrivial(key string) {
	r.mu.Lock()
	if len(r.nontrivial) < 2_000_000 {
		r.nontrivial[key] = struct{}{}
	} else {
		r.ntOverflow++
	}
	r.mu.Unlock()
}

// Outcome tallies an outcome class (vacuity guard: many executions, one outcome = nothing collided).
func (r *Run) Outcome(class string) {
	r.mu.Lock()
	r.outcomes[class]++
	r.mu.Unlock()
}

func (r *Run) Sample(s any) {
	r.mu.Lock()
	if len(r.samples) < 12 {
		r.samples = append(r.samples, s)
	}
	r.mu.Unlock()
}

func (r *Run) Set(k string, v any) { r.mu.Lock(); r.extra[k] = v; r.mu.Unlock() }
func (r *Run) Add(k string, n int64) {
	r.mu.Lock()
	cur, _ := r.extra[k].(int64)
	r.extra[k] = cur + n
	r.mu.Unlock()
}
func (r *Run) Assume(s string) { r.mu.Lock(); r.assume = append(r.assume, s); r.mu.Unlock() }
func (r *Run) Rule(s string)   { r.mu.Lock(); r.rule = s; r.mu.Unlock() }

// Capped declares that a cap was hit; the run is then not exhaustive and says below which bound it was.
func (r *Run) Capped(note string) {
	r.mu.Lock()
	r.exhaustive = false
	if r.capNote != "" {
		r.capNote += "; "
	}
	r.capNote += note
	r.mu.Unlock()
}

func (r *Run) Expired() bool { return !r.Deadline.IsZero() && time.Now().After(r.Deadline) }

type LocalCounters struct {
	States, Transitions, Traces, Evals int64
}

func (r *Run) Merge(l *LocalCounters) {
	r.States.Add(l.States)
	r.Transitions.Add(l.Transitions)
	r.Traces.Add(l.Traces)
	r.Evals.Add(l.Evals)
	*l = LocalCounters{}
}

func sigHash(s string) string {
	h := sha256.Sum256([]byte(s))
	return hex.EncodeToString(h[:6])
}

func (r *Run) matchKnown(sig string) *KnownFinding {
	for i := range r.known {
		k := &r.known[i]
		if k.Sig == sig {
			return k
		}
	}
	return nil
}

type ReplayFile struct {
	Property string          `json:"property"`
	Mode     string          `json:"mode"`
	Sig      string          `json:"sig"`
	Detail   string          `json:"detail"`
	Count    int64           `json:"count_in_run"`
	Case     json.RawMessage `json:"case"`
}

// Finish writes the evidence file, prints KNOWN-FINDING / VIOLATION lines and returns the exit code.
func (r *Run) Finish() int {
	wall := time.Since(r.start).Seconds()
	sigs := make([]string, 0, len(r.viol))
	for s := range r.viol {
		sigs = append(sigs, s)
	}
	sort.Strings(sigs)
	nviol := 0
	knownSeen := []string{}
	for _, s := range sigs {
		v := r.viol[s]
		if k := r.matchKnown(s); k != nil {
			fmt.Printf("KNOWN-FINDING: property=%s %s [%s] (%d cases this run; e.g. %s)\n", r.Prop, k.What, s, v.Count, oneLine(v.Detail))
			knownSeen = append(knownSeen, s)
			continue
		}
		nviol++
		dir := filepath.Join(VerifDir, "replays", r.Prop)
		os.MkdirAll(dir, 0o755)
		path := filepath.Join(dir, sigHash(s)+".json")
		rf := ReplayFile{Property: r.Prop, Mode: v.Mode, Sig: s, Detail: v.Detail, Count: v.Count, Case: v.Case}
		b, _ := json.MarshalIndent(rf, "", " ")
		os.WriteFile(path, b, 0o644)
		fmt.Printf("VIOLATION property=%s replay=%s\n", r.Prop, path)
		fmt.Printf("  sig=%s cases=%d detail=%s\n", s, v.Count, oneLine(v.Detail))
	}
	// known findings that no longer reproduce are reported (informational, not a failure)
	for _, k := range r.known {
		found := false
		for _, s := range knownSeen {
			if s == k.Sig {
				found = true
			}
		}
		if !found && !r.replaying {
			fmt.Printf("NOTE: known finding not reproduced in this run (tier %s): property=%s [%s]\n", r.Tier, r.Prop, k.Sig)
		}
	}
	if r.replaying {
		if nviol == 0 {
			fmt.Printf("REPLAY property=%s: no violation\n", r.Prop)
			return 0
		}
		return 1
	}
	cov := map[string]any{}
	for k, v := range r.extra {
		cov[k] = v
	}
	outc := map[string]int64{}
	if len(r.outcomes) <= 64 {
		outc = r.outcomes
	} else {
		type kv struct {
			k string
			v int64
		}
		var l []kv
		for k, v := range r.outcomes {
			l = append(l, kv{k, v})
		}
		sort.Slice(l, func(i, j int) bool { return l[i].v > l[j].v || (l[i].v == l[j].v && l[i].k < l[j].k) })
		for _, e := range l[:64] {
			outc[e.k] = e.v
		}
	}
	st, tr := r.States.Load(), r.Transitions.Load()
	cov["states"] = st
	cov["transitions"] = tr
	cov["traces_validated_against_impl"] = r.Traces.Load()
	cov["evaluations"] = r.Evals.Load()
	cov["distinct_nontrivial"] = int64(len(r.nontrivial)) + r.ntByConstruction
	if r.ntOverflow > 0 {
		cov["distinct_nontrivial_uncounted_beyond_cap"] = r.ntOverflow
	}
	cov["distinct_outcomes"] = len(r.outcomes)
	cov["outcome_histogram"] = outc
	cov["rule"] = r.rule
	if len(r.samples) == 0 {
		r.samples = append(r.samples, "no sample recorded")
	}
	cov["samples"] = r.samples
	cov["exhaustive"] = r.exhaustive
	if r.capNote != "" {
		cov["cap"] = r.capNote
	}
	cov["known_findings_reproduced"] = knownSeen
	cov["gomaxprocs"] = runtime.GOMAXPROCS(0)
	ev := map[string]any{
		"property_id": r.Prop, "tier": r.Tier, "seed": r.Seed, "level": r.Level,
		"coverage": cov, "assumptions": r.assume, "wall_s": wall, "violations": nviol,
	}
	if r.assume == nil {
		ev["assumptions"] = []string{}
	}
	b, _ := json.MarshalIndent(ev, "", " ")
	os.MkdirAll(filepath.Join(VerifDir, "evidence"), 0o755)
	if err := os.WriteFile(filepath.Join(VerifDir, "evidence", r.Prop+".json"), b, 0o644); err != nil {
		fmt.Fprintf(os.Stderr, "CHECK-BROKEN: cannot write evidence: %v\n", err)
		return 2
	}
	fmt.Printf("%s %s: states=%d transitions=%d executions=%d evaluations=%d distinct_nontrivial=%d outcomes=%d exhaustive=%v violations=%d wall=%.1fs\n",
		r.Prop, r.Tier, st, tr, r.Traces.Load(), r.Evals.Load(), int64(len(r.nontrivial))+r.ntByConstruction, len(r.outcomes), r.exhaustive, nviol, wall)
	if st == 0 || tr == 0 {
		fmt.Fprintf(os.Stderr, "CHECK-BROKEN: vacuous run (no states/transitions)\n")
		return 2
	}
	if nviol > 0 {
		return 1
	}
	return 0
}

// Partial is what a worker process of another binary hands back to the run that owns the evidence.
type Partial struct {
	States, Transitions, Traces, Evals, Nontrivial int64
	Outcomes                                       map[string]int64
	Violations                                     []PartialViolation
}

type PartialViolation struct {
	Sig, Detail, Mode string
	Case              json.RawMessage
	Count             int64
}

// ExportPartial writes everything the run has accumulated as one JSON document.
func (r *Run) ExportPartial(w io.Writer) error {
	r.mu.Lock()
	defer r.mu.Unlock()
	p := Partial{States: r.States.Load(), Transitions: r.Transitions.Load(), Traces: r.Traces.Load(), Evals: r.Evals.Load(),
		Nontrivial: int64(len(r.nontrivial)) + r.ntByConstruction, Outcomes: r.outcomes}
	for s, v := range r.viol {
		p.Violations = append(p.Violations, PartialViolation{s, v.Detail, v.Mode, v.Case, v.Count})
	}
	return json.NewEncoder(w).Encode(p)
}

// ImportPartial merges a worker's partial result; modes are suffixed so that replay can dispatch.
func (r *Run) ImportPartial(p Partial, modeSuffix string) {
	r.States.Add(p.States)
	r.Transitions.Add(p.Transitions)
	r.Traces.Add(p.Traces)
	r.Evals.Add(p.Evals)
	r.NontrivialN(p.Nontrivial)
	for k, n := range p.Outcomes {
		r.OutcomeN(k, n)
	}
	r.mu.Lock()
	defer r.mu.Unlock()
	for _, v := range p.Violations {
		if old := r.viol[v.Sig]; old != nil {
			old.Count += v.Count
			continue
		}
		r.viol[v.Sig] = &violation{Finding: Finding{Sig: v.Sig, Detail: v.Detail}, Case: v.Case, Mode: v.Mode + modeSuffix, Count: v.Count}
	}
}

func oneLine(s string) string {
	s = strings.ReplaceAll(s, "\n", " | ")
	if len(s) > 400 {
		s = s[:400] + "…"
	}
	return s
}

func (r *Run) SetReplaying() { r.replaying = true }

func LoadReplay(path string) (*ReplayFile, error) {
	b, err := os.ReadFile(path)
	if err != nil {
		return nil, err
	}
	var rf ReplayFile
	if err := json.Unmarshal(b, &rf); err != nil {
		return nil, err
	}
	return &rf, nil
}

// ParallelFor runs fn(i) for i in [0,n) on GOMAXPROCS goroutines (work stealing by atomic counter).
func ParallelFor(n int, fn func(i int)) {
	w := runtime.GOMAXPROCS(0)
	if w > n {
		w = n
	}
	if w <= 1 {
		for i := 0; i < n; i++ {
			fn(i)
		}
		return
	}
	var next atomic.Int64
	var wg sync.WaitGroup
	for k := 0; k < w; k++ {
		wg.Add(1)
		go func() {
			defer wg.Done()
			for {
				i := int(next.Add(1) - 1)
				if i >= n {
					return
				}
				fn(i)
			}
		}()
	}
	wg.Wait()
}

// Hex helper used in samples and details.
func Hex(b []byte) string { return hex.EncodeToString(b) }

// Guard runs fn and converts a panic into a string ("" when none).
func Guard(fn func()) (p string) {
	defer func() {
		if x := recover(); x != nil {
			p = fmt.Sprint(x)
			if p == "" {
				p = "panic(empty)"
			}
		}
	}()
	fn()
	return ""
}

// Class abstracts a panic / error message into a short class (digits and quoted parts dropped).
func Class(msg string) string {
	var sb strings.Builder
	inq := false
	for _, c := range msg {
		switch {
		case c == '"':
			inq = !inq
			if !inq {
				sb.WriteString("Q")
			}
		case inq:
		case c >= '0' && c <= '9':
			if sb.Len() == 0 || !strings.HasSuffix(sb.String(), "N") {
				sb.WriteString("N")
			}
		default:
			sb.WriteRune(c)
		}
	}
	s := sb.String()
	if len(s) > 90 {
		s = s[:90]
	}
	return s
}

// NontrivialN adds n cases that are distinct by construction (odometer output) and non-trivial.
func (r *Run) NontrivialN(n int64) {
	r.mu.Lock()
	r.ntByConstruction += n
	r.mu.Unlock()
}

// OutcomeN tallies n occurrences of an outcome class.
func (r *Run) OutcomeN(class string, n int64) {
	r.mu.Lock()
	r.outcomes[class] += n
	r.mu.Unlock()
}

// TmpRoot is where real-filesystem executions create their directories: tmpfs when available.
func TmpRoot() string {
	if d := os.Getenv("VERIF_TMP"); d != "" {
		return d
	}
	if fi, err := os.Stat("/dev/shm"); err == nil && fi.IsDir() {
		if f, err := os.CreateTemp("/dev/shm", "probe"); err == nil {
			f.Close()
			os.Remove(f.Name())
			return "/dev/shm"
		}
	}
	return ""
}
