package core

import (
	"bytes"
	"fmt"
	"runtime"
	"strconv"
	"sync"
)

// A cooperative scheduler: the harness threads (real goroutines) run one at a time and hand
// control back at every Point() call; the explorer enumerates every choice sequence up to a
// preemption bound by depth-first search over choice prefixes.

func goid() int64 {
	var buf [64]byte
	n := runtime.Stack(buf[:], false)
	// "goroutine 123 [running]:"
	f := bytes.Fields(buf[:n])
	id, _ := strconv.ParseInt(string(f[1]), 10, 64)
	return id
}

type SchedPoint struct {
	Enabled        []int  // thread ids enabled at this point, canonical order (running first if enabled, then ascending)
	Chosen         int    // index into Enabled
	RunningEnabled bool   // the thread that ran last is still enabled (choosing another one is a preemption)
	Label          string // what the chosen thread was about to do
}

type Execution struct {
	Choices  []int
	Points   []SchedPoint
	Deadlock bool
	Horizon  bool
	Panics   map[int]string // thread → panic text
}

type thread struct {
	id       int
	wake     chan struct{}
	finished bool
	label    string
	crashed  bool
	can      func() bool // nil = enabled; else the thread is enabled only while can() holds (a lock wait)
}

type Sched struct {
	mu      sync.Mutex
	threads []*thread
	byGoid  map[int64]*thread
	arrive  chan int // a thread arrived at a point (id) or finished (-(id+1))
	horizon int
	abort   bool
}

// Point is called by a harness thread before each hooked operation.
func (s *Sched) Point(label string) { s.PointIf(label, nil) }

// PointIf parks the thread until the scheduler selects it, which it only does while can() holds.
func (s *Sched) PointIf(label string, can func() bool) {
	s.mu.Lock()
	t := s.byGoid[goid()]
	s.mu.Unlock()
	if t == nil {
		return // not a scheduled thread (e.g. the observer)
	}
	t.label = label
	t.can = can
	s.arrive <- t.id
	<-t.wake
	t.can = nil
	if s.abort {
		panic(schedAbort{})
	}
}

type schedAbort struct{}

// NewSched makes a scheduler for one execution.
func NewSched() *Sched {
	return &Sched{byGoid: map[int64]*thread{}, arrive: make(chan int)}
}

// Run executes bodies under the schedule given by prefix (then default choice 0 everywhere).
// between is called while all threads are parked, after every step (step index, last thread).
// isCrash tells whether a panic value is the expected "process died" unwinding.
func (s *Sched) Run(prefix []int, bodies []func(), horizon int, between func(step int, last int), isCrash func(any) bool) *Execution {
	s.horizon = horizon
	x := &Execution{Panics: map[int]string{}}
	var wg sync.WaitGroup
	for i := range bodies {
		t := &thread{id: i, wake: make(chan struct{})}
		s.threads = append(s.threads, t)
	}
	for i, body := range bodies {
		i, body := i, body
		wg.Add(1)
		started := make(chan struct{})
		go func() {
			defer wg.Done()
			s.mu.Lock()
			s.byGoid[goid()] = s.threads[i]
			s.mu.Unlock()
			close(started)
			defer func() {
				if p := recover(); p != nil {
					if _, ok := p.(schedAbort); !ok && (isCrash == nil || !isCrash(p)) {
						s.mu.Lock()
						x.Panics[i] = fmt.Sprint(p)
						s.mu.Unlock()
					}
				}
				s.arrive <- -(i + 1)
			}()
			s.Point("start")
			body()
		}()
		<-started
		// wait until it parks at its start point
		<-s.arrive
	}
	running := -1
	step := 0
	for {
		var enabled []int
		unfinished := 0
		for _, t := range s.threads {
			if !t.finished {
				unfinished++
				if t.can == nil || t.can() {
					enabled = append(enabled, t.id)
				}
			}
		}
		if unfinished == 0 {
			break
		}
		if len(enabled) == 0 {
			// every remaining thread waits for something no runnable thread can provide
			x.Deadlock = true
			s.abort = true
			for _, t := range s.threads {
				if !t.finished {
					t.wake <- struct{}{}
					<-s.arrive
					t.finished = true
				}
			}
			break
		}
		if step >= horizon {
			x.Horizon = true
			s.abort = true
			for _, t := range s.threads {
				if !t.finished {
					t.wake <- struct{}{}
					<-s.arrive
					t.finished = true
				}
			}
			break
		}
		// canonical order: the running thread first if still enabled
		runningEnabled := false
		ordered := enabled
		for i, id := range enabled {
			if id == running {
				runningEnabled = true
				ordered = append([]int{id}, append(append([]int{}, enabled[:i]...), enabled[i+1:]...)...)
			}
		}
		choice := 0
		if step < len(prefix) {
			choice = prefix[step]
			if choice >= len(ordered) {
				panic(fmt.Sprintf("sched: replay diverged: choice %d of %d at step %d (prefix %v)", choice, len(ordered), step, prefix))
			}
		}
		t := s.threads[ordered[choice]]
		x.Choices = append(x.Choices, choice)
		x.Points = append(x.Points, SchedPoint{Enabled: ordered, Chosen: choice, RunningEnabled: runningEnabled, Label: t.label})
		t.wake <- struct{}{}
		ev := <-s.arrive
		if ev < 0 {
			s.threads[-ev-1].finished = true
		}
		running = t.id
		if between != nil {
			between(step, t.id)
		}
		step++
	}
	wg.Wait()
	return x
}

// SchedStats is what an exploration covered.
type SchedStats struct {
	Schedules   int64
	Steps       int64
	MaxPoints   int
	BoundDone   int
	Capped      bool
	HorizonHits int64
}

// ExploreSchedules enumerates every schedule of the harness with at most `bound` preemptions
// (bound < 0 = unbounded). run(prefix) must build a fresh world and call RunOnce; check sees each
// execution. maxSchedules caps the enumeration (Capped is then reported).
func ExploreSchedules(bound int, maxSchedules int64, run func(prefix []int) *Execution, check func(x *Execution)) SchedStats {
	var st SchedStats
	var explore func(prefix []int)
	explore = func(prefix []int) {
		if maxSchedules > 0 && st.Schedules >= maxSchedules {
			st.Capped = true
			return
		}
		x := run(prefix)
		st.Schedules++
		st.Steps += int64(len(x.Points))
		if len(x.Points) > st.MaxPoints {
			st.MaxPoints = len(x.Points)
		}
		if x.Horizon {
			st.HorizonHits++
		}
		check(x)
		// preemptions used before point i
		pre := 0
		for i := 0; i < len(x.Points); i++ {
			p := x.Points[i]
			if i >= len(prefix) {
				for alt := 1; alt < len(p.Enabled); alt++ {
					cost := pre
					if p.RunningEnabled {
						cost++
					}
					if bound >= 0 && cost > bound {
						continue
					}
					explore(append(append([]int{}, x.Choices[:i]...), alt))
				}
			}
			if p.RunningEnabled && p.Chosen != 0 {
				pre++
			}
		}
	}
	explore(nil)
	st.BoundDone = bound
	return st
}
