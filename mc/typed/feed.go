package typed

import (
	"math"
	"unicode/utf8"
	"bytes"
	"fmt"
	"strings"

	"github.com/ipld/go-ipld-prime/codec"
	"github.com/ipld/go-ipld-prime/codec/dagcbor"
	"github.com/ipld/go-ipld-prime/codec/dagjson"
	"github.com/ipld/go-ipld-prime/datamodel"
	"github.com/ipld/go-ipld-prime/schema"

	"verif/mc/core"
	"verif/mc/ref"
	"verif/mc/rs"
)

// Outcome of feeding one data-model tree to a typed builder.
type Outcome struct {
	Accepted bool
	Err      string // error text when rejected
	ErrAt    string // "assemble" | "finish/build"
	Panic    string
	TypeView ref.Val
	ReprView ref.Val
	Incs     []ref.Inc
	Bytes    []byte // dag-cbor of the representation
}

func (o Outcome) Class() string {
	switch {
	case o.Panic != "":
		return "panic"
	case o.Accepted:
		return "accept"
	}
	return "reject"
}

// Routes: "entry" (AssembleEntry / Assign*), "keyvalue" (AssembleKey+AssignString / AssembleValue),
// "dagcbor" (relaxed decode of a raw encoding: duplicate keys reach the assembler).
var FeedRoutes = []string{"entry", "keyvalue", "dagcbor"}

// FeedVariants: the ways a route is driven. The "-nohint" variants begin every map and list with size
// hint -1, as a decoder of a format without length prefixes (dag-json) does; they are reported under
// their base route.
// AllVariants: the thorough tier also drives the key/value route without hints.
var AllVariants = false

func FeedVariants(route string) []string {
	switch route {
	case "dagcbor":
		// through a decoder: the raw dag-cbor encoding, and the dag-json text where that format can
		// carry the input (JSONCarries); both are reported under the base route
		return []string{"dagcbor", "dagjson"}
	case "entry":
		return []string{"entry", "entry-nohint"}
	case "keyvalue":
		if AllVariants {
			return []string{"keyvalue", "keyvalue-nohint"}
		}
	}
	return []string{route}
}

// JSONCarries: can the DAG-JSON text of v be decoded back to v (no repeated keys, no integer above
// MaxInt64, floats finite and not integral, no reserved shape, valid UTF-8)?
func JSONCarries(v ref.Val) bool {
	switch v.K {
	case ref.KUint:
		return false
	case ref.KFloat:
		return !math.IsNaN(v.F) && !math.IsInf(v.F, 0) && v.F != math.Trunc(v.F)
	case ref.KString:
		return utf8.ValidString(v.S)
	case ref.KList:
		for _, c := range v.L {
			if !JSONCarries(c) {
				return false
			}
		}
	case ref.KMap:
		if ref.JsonReserved(v) {
			return false
		}
		seen := map[string]bool{}
		for _, e := range v.M {
			if seen[e.K] || !utf8.ValidString(e.K) || !JSONCarries(e.V) {
				return false
			}
			seen[e.K] = true
		}
	case ref.KAbsent:
		return false
	}
	return true
}

// assignHinted is the entry route (AssembleEntry) or the key/value route with every size hint -1.
func assignHinted(na datamodel.NodeAssembler, v ref.Val, entry bool) error {
	switch v.K {
	case ref.KList:
		la, err := na.BeginList(-1)
		if err != nil {
			return err
		}
		for _, c := range v.L {
			if err := assignHinted(la.AssembleValue(), c, entry); err != nil {
				return err
			}
		}
		return la.Finish()
	case ref.KMap:
		ma, err := na.BeginMap(-1)
		if err != nil {
			return err
		}
		for _, e := range v.M {
			var va datamodel.NodeAssembler
			if entry {
				va, err = ma.AssembleEntry(e.K)
				if err != nil {
					return err
				}
			} else {
				if err := ma.AssembleKey().AssignString(e.K); err != nil {
					return err
				}
				va = ma.AssembleValue()
			}
			if err := assignHinted(va, e.V, entry); err != nil {
				return err
			}
		}
		return ma.Finish()
	}
	return ref.Assign(na, v)
}

func assignKV(na datamodel.NodeAssembler, v ref.Val) error {
	switch v.K {
	case ref.KList:
		la, err := na.BeginList(int64(len(v.L)))
		if err != nil {
			return err
		}
		for _, c := range v.L {
			if err := assignKV(la.AssembleValue(), c); err != nil {
				return err
			}
		}
		return la.Finish()
	case ref.KMap:
		ma, err := na.BeginMap(int64(len(v.M)))
		if err != nil {
			return err
		}
		for _, e := range v.M {
			if err := ma.AssembleKey().AssignString(e.K); err != nil {
				return err
			}
			if err := assignKV(ma.AssembleValue(), e.V); err != nil {
				return err
			}
		}
		return ma.Finish()
	}
	return ref.Assign(na, v)
}

// Feed hands tree `in` to the (type-level or representation-level) builder of the type.
func Feed(eng Engine, s *rs.Schema, typeName string, repr bool, route string, in ref.Val) (o Outcome) {
	var n datamodel.Node
	var err error
	o.Panic = core.Guard(func() {
		nb := eng.Proto(s, typeName, repr).NewBuilder()
		switch route {
		case "entry":
			err = ref.Assign(nb, in)
		case "keyvalue":
			err = assignKV(nb, in)
		case "entry-nohint":
			err = assignHinted(nb, in, true)
		case "keyvalue-nohint":
			err = assignHinted(nb, in, false)
		case "dagjson":
			var buf bytes.Buffer
			if e := (dagjson.EncodeOptions{EncodeLinks: true, EncodeBytes: true, MapSortMode: codec.MapSortMode_None}).Encode(ref.Basic(in), &buf); e != nil {
				err = fmt.Errorf("harness: unencodable input: %v", e)
				return
			}
			err = dagjson.Decode(nb, bytes.NewReader(buf.Bytes()))
		case "dagcbor":
			enc, e := ref.CborEncodeRaw(in)
			if e != nil {
				err = fmt.Errorf("harness: unencodable input: %v", e)
				return
			}
			err = dagcbor.DecodeOptions{AllowLinks: true, RelaxedDecode: true}.Decode(nb, bytes.NewReader(enc))
		}
		if err == nil {
			n = nb.Build()
		}
	})
	if o.Panic != "" {
		return o
	}
	if err != nil {
		o.Err = err.Error()
		return o
	}
	o.Accepted = true
	o.Panic = core.Guard(func() {
		var i1, i2 []ref.Inc
		o.TypeView, i1 = ref.ObserveTyped(n)
		tn, ok := n.(schema.TypedNode)
		if !ok {
			o.Incs = append(o.Incs, ref.Inc{Cause: "not-a-typed-node", Detail: fmt.Sprintf("%T", n)})
			return
		}
		o.ReprView, i2 = ref.ObserveTyped(tn.Representation())
		o.Incs = append(i1, i2...)
		var buf bytes.Buffer
		if err := dagcbor.Encode(tn.Representation(), &buf); err == nil {
			o.Bytes = buf.Bytes()
		} else {
			o.Incs = append(o.Incs, ref.Inc{Cause: "repr-encode-fails", Detail: err.Error()})
		}
	})
	return o
}

// RejectClass abstracts an engine's rejection message into a stable class (type names dropped).
func RejectClass(msg string) string {
	switch {
	case strings.Contains(msg, "union structure constraints") && strings.Contains(msg, "AssignNull"):
		return "kinded-union-refuses-null-in-nullable-position"
	case strings.Contains(msg, "typeinfomissing"):
		return "stringprefix-without-delimiter-not-matched"
	}
	c := core.Class(msg)
	if len(c) > 48 {
		c = c[:48]
	}
	return c
}
