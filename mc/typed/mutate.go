package typed

import (
	"strings"
	"sort"

	"verif/mc/ref"
	"verif/mc/rs"
)

// Mutant is one local mutation of a conforming tree.
type Mutant struct {
	V    ref.Val
	Kind string // mutation class
}

var kindSamples = []ref.Val{ref.Null(), ref.Bool(true), ref.Int(3), ref.Float(2.5), ref.Str("zz"), ref.Bytes("zz"), ref.List(), ref.Map(), ref.List(ref.Int(1)), ref.Map(ref.E("zz", ref.Int(1)))}

// names collects every name the schema mentions (field names, renames, discriminants, member
// type names, enum members and their representations): the "other-level name" mutations draw from it.
func names(s *rs.Schema) []string {
	set := map[string]bool{"zz": true}
	for _, tn := range s.Order {
		t := s.Types[tn]
		for _, f := range t.Fields {
			set[f.Name] = true
			if f.Rename != "" {
				set[f.Rename] = true
			}
		}
		for _, m := range t.Members {
			set[m] = true
		}
		for _, d := range t.Discr {
			set[d] = true
		}
		for _, m := range t.EMembers {
			set[m] = true
		}
		for _, r := range t.EStr {
			set[r] = true
		}
	}
	var out []string
	for n := range set {
		out = append(out, n)
	}
	sort.Strings(out)
	return out
}

// nearKeys: strings that differ from k only in case or in a trailing byte.
func nearKeys(k string) []string {
	var out []string
	seen := map[string]bool{k: true}
	for _, n := range []string{strings.ToUpper(k), strings.ToLower(k), strings.Title(k), k + " ", k + "\x00"} { //lint:ignore SA1019 Title: ASCII names only
		if !seen[n] {
			seen[n] = true
			out = append(out, n)
		}
	}
	if len(k) > 1 && !seen[k[:len(k)-1]] {
		out = append(out, k[:len(k)-1])
	}
	return out
}

func localMutants(v ref.Val, nm []string) []Mutant {
	var out []Mutant
	add := func(m ref.Val, kind string) { out = append(out, Mutant{m, kind}) }
	// retype / null
	for _, smp := range kindSamples {
		if smp.K != v.K || (smp.K == ref.KList || smp.K == ref.KMap) && len(smp.L)+len(smp.M) > 0 {
			kind := "retyped→" + smp.K.String()
			if smp.K == ref.KNull {
				kind = "nulled"
			}
			add(smp, kind)
		}
	}
	if v.K != ref.KInt {
		// an integer above MaxInt64 where no integer belongs (codecs hand it over as a UintNode by AssignNode)
		add(ref.Uint(1<<63+5), "retyped→uint>int64")
	}
	switch v.K {
	case ref.KInt:
		add(ref.Uint(1<<63+5), "int→uint>int64")
		add(ref.Int(v.I+1000), "int-other-value")
	case ref.KString:
		for _, n := range nm {
			if n != v.S {
				add(ref.Str(n), "string→schema-name")
			}
		}
		add(ref.Str(v.S+":"), "string+delim")
		add(ref.Str(":"+v.S), "delim+string")
		add(ref.Str(v.S+":x:y"), "string+parts")
	case ref.KList:
		for i := range v.L {
			l := append(append([]ref.Val{}, v.L[:i]...), v.L[i+1:]...)
			add(ref.List(l...), "element-dropped")
			d := append(append(append([]ref.Val{}, v.L[:i+1]...), v.L[i]), v.L[i+1:]...)
			add(ref.List(d...), "element-duplicated")
			if i+1 < len(v.L) {
				sw := append([]ref.Val{}, v.L...)
				sw[i], sw[i+1] = sw[i+1], sw[i]
				add(ref.List(sw...), "elements-swapped")
			}
		}
		for _, smp := range []ref.Val{ref.Int(3), ref.Str("zz"), ref.Null()} {
			add(ref.List(append(append([]ref.Val{}, v.L...), smp)...), "list-extended")
		}
	case ref.KMap:
		for i, e := range v.M {
			m := append(append([]ref.Entry{}, v.M[:i]...), v.M[i+1:]...)
			add(ref.Map(m...), "entry-dropped")
			for _, dv := range []ref.Val{e.V, ref.Int(77)} {
				d := append(append(append([]ref.Entry{}, v.M[:i+1]...), ref.Entry{K: e.K, V: dv}), v.M[i+1:]...)
				add(ref.Map(d...), "entry-duplicated-adjacent")
				d2 := append(append([]ref.Entry{}, v.M...), ref.Entry{K: e.K, V: dv})
				if i+1 < len(v.M) {
					add(ref.Map(d2...), "entry-duplicated-at-end")
				}
			}
			for _, n := range nm {
				if n != e.K {
					r := append([]ref.Entry{}, v.M...)
					r[i] = ref.Entry{K: n, V: e.V}
					add(ref.Map(r...), "entry-renamed")
				}
			}
			// the key in another case, and with a byte appended or its last byte dropped: near-identical
			// strings are other strings (renamed in place, and added beside the original)
			for _, n := range nearKeys(e.K) {
				r := append([]ref.Entry{}, v.M...)
				r[i] = ref.Entry{K: n, V: e.V}
				add(ref.Map(r...), "entry-renamed-to-near-key")
				add(ref.Map(append(append([]ref.Entry{}, v.M...), ref.Entry{K: n, V: e.V})...), "near-key-added")
			}
			if i+1 < len(v.M) {
				sw := append([]ref.Entry{}, v.M...)
				sw[i], sw[i+1] = sw[i+1], sw[i]
				add(ref.Map(sw...), "entries-swapped")
			}
		}
		for _, n := range nm {
			add(ref.Map(append(append([]ref.Entry{}, v.M...), ref.Entry{K: n, V: ref.Int(3)})...), "entry-added")
		}
	}
	return out
}

// Mutants returns every single local mutation of v, at every position.
func Mutants(s *rs.Schema, v ref.Val) []Mutant {
	nm := names(s)
	var out []Mutant
	var rec func(cur ref.Val, rebuild func(ref.Val) ref.Val)
	rec = func(cur ref.Val, rebuild func(ref.Val) ref.Val) {
		for _, m := range localMutants(cur, nm) {
			out = append(out, Mutant{rebuild(m.V), m.Kind})
		}
		switch cur.K {
		case ref.KList:
			for i := range cur.L {
				i := i
				rec(cur.L[i], func(n ref.Val) ref.Val {
					l := append([]ref.Val{}, cur.L...)
					l[i] = n
					return rebuild(ref.List(l...))
				})
			}
		case ref.KMap:
			for i := range cur.M {
				i := i
				rec(cur.M[i].V, func(n ref.Val) ref.Val {
					m := append([]ref.Entry{}, cur.M...)
					m[i] = ref.Entry{K: m[i].K, V: n}
					return rebuild(ref.Map(m...))
				})
			}
		}
	}
	rec(v, func(n ref.Val) ref.Val { return n })
	return out
}
