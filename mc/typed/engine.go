// Package typed: the typed-node engines behind one interface.
package typed

import (
	"fmt"
	"reflect"
	"sync"

	"github.com/ipld/go-ipld-prime/datamodel"
	"github.com/ipld/go-ipld-prime/node/bindnode"
	"github.com/ipld/go-ipld-prime/schema"

	"verif/mc/rs"
)

type Engine interface {
	Name() string
	// Proto returns the prototype of the named type (type level or representation level), or nil
	// when the engine does not support the schema.
	Proto(s *rs.Schema, typeName string, repr bool) datamodel.NodePrototype
}

type BindEngine struct {
	mu sync.Mutex
	ts map[string]*schema.TypeSystem
	ps map[string]schema.TypedPrototype
}

func NewBindEngine() *BindEngine {
	return &BindEngine{ts: map[string]*schema.TypeSystem{}, ps: map[string]schema.TypedPrototype{}}
}

func (e *BindEngine) Name() string { return "bindnode" }

func (e *BindEngine) TypeSystem(s *rs.Schema) *schema.TypeSystem {
	e.mu.Lock()
	defer e.mu.Unlock()
	if ts, ok := e.ts[s.Name]; ok {
		return ts
	}
	ts, err := s.Compile(false)
	if err != nil {
		panic("harness: " + err.Error())
	}
	e.ts[s.Name] = ts
	return ts
}

func (e *BindEngine) Proto(s *rs.Schema, typeName string, repr bool) datamodel.NodePrototype {
	ts := e.TypeSystem(s)
	key := s.Name + "/" + typeName
	e.mu.Lock()
	p, ok := e.ps[key]
	e.mu.Unlock()
	if !ok {
		t := ts.TypeByName(typeName)
		if t == nil {
			panic("harness: no type " + typeName)
		}
		p = bindnode.Prototype(nil, t)
		e.mu.Lock()
		e.ps[key] = p
		e.mu.Unlock()
	}
	if repr {
		return p.Representation()
	}
	return p
}

// GenEngine serves prototypes out of generated packages: slabs maps schema name → the package's
// `Type` value (a struct with one field per prototype).
type GenEngine struct {
	Slabs map[string]any
}

func (e *GenEngine) Name() string { return "generated" }

func (e *GenEngine) Proto(s *rs.Schema, typeName string, repr bool) datamodel.NodePrototype {
	slab, ok := e.Slabs[s.Name]
	if !ok {
		return nil
	}
	name := typeName
	if repr {
		name += "__Repr"
	}
	f := reflect.ValueOf(slab).FieldByName(name)
	if !f.IsValid() {
		panic(fmt.Sprintf("harness: generated package %s has no prototype %s", s.Name, name))
	}
	return f.Interface().(datamodel.NodePrototype)
}
