#!/bin/bash
# Applies a seeded defect (seeded/<name>/patch.diff) to /repo, runs the checks listed in its meta.json
# (quick tier unless the meta says otherwise), expects every one of them to report a VIOLATION, and
# undoes the change. Usage: tools/run_seeded.sh <name> [check-id ...]
set -u
cd "$(dirname "$0")/.."
NAME="${1:?seeded defect name}"; shift
DIR="seeded/$NAME"
[ -f "$DIR/patch.diff" ] || { echo "no $DIR/patch.diff"; exit 2; }
if [ -n "$(git -C /repo status --porcelain)" ]; then echo "/repo working tree is not clean"; exit 2; fi
CHECKS="$*"
if [ -z "$CHECKS" ]; then CHECKS=$(python3 -c "import json;print(' '.join(json.load(open('$DIR/meta.json')).get('detected_by',[])))"); fi
TIER=$(python3 -c "import json;print(json.load(open('$DIR/meta.json')).get('tier','quick'))" 2>/dev/null || echo quick)
# a seed written against the tree before one of the later fix: commits is run on that tree: the named
# commits are reverted first (uncommitted), and the detection must carry the seed's own signature
REVERT=$(python3 -c "import json;print(' '.join(json.load(open('$DIR/meta.json')).get('revert_first',[])))")
EXPECT=$(python3 -c "import json;print(json.load(open('$DIR/meta.json')).get('expect_sig',''))")
trap 'git -C /repo revert --abort >/dev/null 2>&1; git -C /repo reset -q --hard HEAD; git -C /repo clean -fdq' EXIT
for c in $REVERT; do git -C /repo revert -n "$c" >/dev/null 2>&1 || { echo "cannot revert $c"; exit 2; }; done
git -C /repo apply "$PWD/$DIR/patch.diff" || { echo "patch does not apply"; exit 2; }
RC=0
SAVE=$(mktemp -d)
cp -r evidence "$SAVE/evidence"; cp -r replays "$SAVE/replays" 2>/dev/null
for id in $CHECKS; do
  out=$(./check "$id" "$TIER" 2>&1); code=$?
  if [ $code -eq 1 ] && echo "$out" | grep -aq "^VIOLATION property=$id " && { [ -z "$EXPECT" ] || echo "$out" | grep -a 'sig=' | grep -aqE "$EXPECT"; }; then
    [ -n "$EXPECT" ] && out=$(echo "$out" | grep -aE "$EXPECT|^VIOLATION")
    echo "DETECTED  $NAME by $id ($TIER): $(echo "$out" | grep -a 'sig=' | head -2 | cut -c1-220 | tr '\n' ' ')"
  else
    echo "MISSED    $NAME by $id ($TIER): exit $code"; RC=1
  fi
done
# the evidence and replay files of the unchanged tree are what stays committed
rm -rf evidence replays; cp -r "$SAVE/evidence" evidence; [ -d "$SAVE/replays" ] && cp -r "$SAVE/replays" replays; rm -rf "$SAVE"
exit $RC
