#!/bin/bash
# Generates code for the schema families from the working tree's generator, compiles every
# generated package, writes the registry and builds mctyped. Usage: build_typed.sh <quick|thorough>
set -u
cd "$(dirname "$0")/../mc"
TIER="${1:-quick}"
GEN=gen_out
go run ./cmd/gengen "$PWD/$GEN" "$TIER" > ../.work/gengen.log 2>&1 || { cat ../.work/gengen.log >&2; exit 2; }
REG=cmd/mctyped/gen_registry.go
{
  echo "//go:build withgen"
  echo
  echo "package main"
  echo
  echo "import ("
  echo '	"verif/mc/typed"'
} > $REG
OKFAMS=""
for d in $GEN/fam*/; do
  fam=$(basename "$d")
  if go build ./$GEN/$fam 2> ../.work/genbuild.$fam.log; then
    OKFAMS="$OKFAMS $fam"
    echo "	\"verif/mc/$GEN/$fam\"" >> $REG
  fi
done
{
  echo ")"
  echo
  echo "func generatedEngine() typed.Engine {"
  echo "	return &typed.GenEngine{Slabs: map[string]any{"
  for fam in $OKFAMS; do echo "		\"$fam\": $fam.Type,"; done
  echo "	}}"
  echo "}"
} >> $REG
# record compile results next to the generation report
python3 - "$GEN" <<'PY'
import json,sys,os
gen=sys.argv[1]
rep=json.load(open(os.path.join(gen,'report.json')))
for r in rep:
    log=os.path.join('..','.work','genbuild.%s.log'%r['family'])
    if r['generated']:
        err=open(log).read() if os.path.exists(log) else ''
        r['compiled']= err.strip()==''
        r['compile_error']=err[:2000]
json.dump(rep,open(os.path.join(gen,'report.json'),'w'),indent=1)
print("generated families:",[ (r['family'],r['generated'],r['compiled']) for r in rep])
PY
go build -tags withgen -o ../.work/bin/mctyped ./cmd/mctyped
