#!/usr/bin/env python3
"""Regenerates MANIFEST.json from the table below (kept as code so it stays valid at all times)."""
import json, os
HERE = os.path.dirname(os.path.dirname(os.path.abspath(__file__)))
ALL = ["C%02d" % i for i in range(1, 21)]

CHECKS = {
 "C03": dict(
   category="model_checking", design_ref="DESIGN.md §5 C03",
   technique="exhaustive enumeration of the decoder's input trie (all byte strings ≤2/3 bytes, structural-alphabet strings ≤4/6 with sound pruning, single/double mutation closure of valid encodings) executed on the real decoder and compared with an independent strict reference decoder",
   text="Every input in the bounded space is executed on the real dagcbor decoder in strict and relaxed mode; accept/reject must equal an independent reference decoder written from the property text and accepted values must read back equal. Bounded-exhaustive: the defect classes named in the property (a flag consulted for one major type only, a head boundary, a duplicate after a nested child) all have witnesses of ≤4 items.",
   note="Trusted: the reference decoder mc/ref/refcbor.go; go-cid's cid.Cast for CID validity (used by both sides). Inputs longer than the stated bounds are reached only through the mutation closure of the value universe."),
}

NOT_YET = "check not built yet in this round (planned in DESIGN.md §5; will be claimed when its explorer exists)"

def main():
    checks, na = [], []
    for pid in ALL:
        c = CHECKS.get(pid)
        if not c:
            na.append({"property_id": pid, "reason": NOT_YET})
            continue
        checks.append({
            "property_id": pid,
            "quick_cmd": f"./check {pid} quick",
            "thorough_cmd": f"./check {pid} thorough",
            "evidence_file": f"/verif/evidence/{pid}.json",
            "replay_cmd_template": f"./check {pid} --replay {{path}}",
            "engine": c.get("engine", "enum"),
            "level_claimed": {"category": c["category"], "text": c["text"], "design_ref": c["design_ref"]},
            "level_note": c["note"],
            "technique": c["technique"],
        })
    m = {
        "version": 1,
        "setup_cmd": "./setup.sh",
        "hooks": {
            "guard": "verif",
            "enable": "no source hooks: instrumentation is applied at check time with `go build -overlay` (import rewriting of the working tree's own sources, see DESIGN.md §1); nothing in /repo is guarded by the tag",
            "baseline_off_cmd": "/verif/baseline_off.sh",
            "source_commits": [],
            "add_only": True,
        },
        "engines": [
            {"name": "enum", "path": "mc/core", "serves_properties": sorted(CHECKS), "kind_free_text": "odometer / trie enumeration of bounded input and program spaces executed on the real code, sharded over 16 cores"},
        ],
        "checks": checks,
        "not_applicable": na,
        "notes": "All checks are ./check <ID> <tier>; each rebuilds the harness module mc/ against /repo's working tree (replace directive) before running. known_findings.json lists recorded defects; replays/ holds violation witnesses.",
    }
    json.dump(m, open(os.path.join(HERE, "MANIFEST.json"), "w"), indent=1, ensure_ascii=False)
    print("claimed:", [c["property_id"] for c in checks])

if __name__ == "__main__":
    main()
