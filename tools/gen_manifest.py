#!/usr/bin/env python3
"""Regenerates MANIFEST.json from the table below (kept as code so it stays valid at all times)."""
import json, os
HERE = os.path.dirname(os.path.dirname(os.path.abspath(__file__)))
ALL = ["C%02d" % i for i in range(1, 21)]

CHECKS = {
 "C03": dict(
   category="model_checking", design_ref="DESIGN.md §5 C03",
   technique="exhaustive enumeration of the decoder's input trie (all byte strings ≤2/3 bytes, structural-alphabet strings ≤4/6 with sound pruning, single/double mutation closure of valid encodings) executed on the real decoder and compared with an independent strict reference decoder",
   text="Every input in the bounded space is executed on the real dagcbor decoder in strict and relaxed mode; accept/reject must equal an independent reference decoder written from the property text and accepted values must read back equal. Bounded-exhaustive: the defect classes named in the property (a flag consulted for one major type only, a head boundary, a duplicate after a nested child) all have witnesses of ≤4 items.",
   note="Trusted: the reference decoder mc/ref/refcbor.go; go-cid's cid.Cast for CID validity (used by both sides). Inputs longer than the stated bounds are reached only through the mutation closure of the value universe. The mutation closure also edits a string's content together with its length (first/last byte dropped, a byte put in front or appended): under tag 42 the CID without, with two, with another prefix."),
 "C02": dict(
   category="model_checking", design_ref="DESIGN.md §5 C02",
   technique="bounded-exhaustive enumeration of values × every permutation of map insertion order × node implementations, each encoded by the real encoder and compared byte-for-byte with an independent canonical encoder, then decoded by the real and by a reference decoder",
   text="Every value of the bounded universe (all trees ≤4/5 nodes, every boundary scalar at every position, all permutations of key sets ≤4 incl. nested) is encoded by dagcbor in every implementation; bytes must equal the reference canonical encoding, EncodedLength must equal the byte count, and both decoders must return the value in canonical order.",
   note="Trusted: reference encoder/decoder in mc/ref/refcbor.go. Values larger than the bound are represented only by head-boundary containers (23…65536 entries). Also: the root package's Encode/Decode convenience functions against the codec called directly (same bytes, same value, same verdict on trailing and truncated input, earlier results unchanged by later calls). Bytes values are also held by basicnode's reader-backed bytes nodes (read several times per check)."),
 "C04": dict(
   category="model_checking", design_ref="DESIGN.md §5 C04",
   technique="bounded-exhaustive enumeration of in-domain values × all insertion orders × implementations; output checked by an independent DAG-JSON reader on the standard library tokenizer, by the real decoder, and for determinism",
   text="Every in-domain value of the bounded universe is encoded with dagjson; the text must be readable by an independent reader (encoding/json tokens) as exactly the value with keys in bytewise order, must decode through the library to the same value and kinds, must be identical for every insertion order and implementation, and re-encode identically.",
   note="Trusted: encoding/json tokenizer, cid.Decode, base64. Known finding (integral floats emitted as integers, defect in the refmt dependency) is listed in known_findings.json. Also: values held by the reflection binding (written through the representation, decoded into the binding, written again); the root package's Encode/Decode convenience functions against dagjson called directly."),
 "C05": dict(
   category="model_checking", design_ref="DESIGN.md §5 C05",
   technique="enumeration of values × codecs × link prototypes × implementations against hand-assembled CIDs, plus explicit-state search over store/compute/load histories on the real LinkSystem (state = stored set + last operation, to fixpoint) and all operation sequences to depth 3/4",
   text="Store = ComputeLink = hand-assembled CID (sha2-256/512/identity by crypto/*; all 80+ registered hashers for self-consistency), independent of implementation and (DAG codecs) of insertion order; every load function returns the canonical value and raw bytes hashing to the link; every answer is the same in every explored history.",
   note="Trusted: crypto/sha256, crypto/sha512, go-multihash for other hash functions. dag-json/json domain excludes integral floats (recorded under C04). Typed (bindnode) nodes of the schema families are stored and linked too (both views; struct-keyed maps through their representation view only). The universe includes the shapes DAG-JSON reserves and their near misses for every codec whose domain holds them (plain json included); histories also over cidlink.Memory. Also a sweep of the stores the library ships (memstore, cidlink.Memory) over every scalar, the empty containers and small values under every codec, against the harness store."),
 "C06": dict(
   category="fault_enumeration", design_ref="DESIGN.md §5 C06", engine="fault",
   technique="exhaustive single-fault enumeration on the storage seam: every bit flip, truncation, extension, substitution, read error offset and chunking of every block × 4 load functions; every failing Write call, accessor failure, opener and commit error on Store",
   text="For each stored block every listed corruption/fault is injected through the real StorageReadOpener/WriteOpener seam; a non-error return must imply the served bytes hash to the link, mismatches must win over decode errors, I/O errors must surface, and Store must never commit after a failed write or encode.",
   note="Trusted: the harness's recomputation of the hash of served bytes. A reader returning (0,nil) is checked for safety only, not availability. Every content-changing fault is also run (quick tier) with another load through the same link system nested into the first, second and third read call (two operations overlapping in time, deterministically). In the thorough tier this deviation is applied to every fourth plan (cost)."),
 "C07": dict(
   category="model_checking", design_ref="DESIGN.md §5 C07",
   technique="bounded-exhaustive enumeration of selector ASTs (≤3/4 clauses + targeted union/recursion families) × block graphs (≤4/5 nodes, every cut into blocks, dangling/shared links), each walked by the real WalkAdv/WalkMatching and compared with an independent substitution-style reference denotation",
   text="Every (selector, graph) pair in the bound is compiled by the real parser and walked over real blocks stored in a real link system; the visit sequence (path, node content, reason), the link-load sequence and the matching-only walk must equal the reference denotation written by substitution from the documented semantics.",
   note="Trusted: reference denotation mc/trav/refwalk.go. Known finding: one depth counter per merged union (known_findings.json). ExploreInterpretAs/ADL reification and conditions other than stop-at-link are outside the alphabet. Stop-at-link conditions are enumerated with every link of the graph as the condition on recursions reaching their edge after 1–3 steps. Also: graphs with raw-twin links (one multihash, two CIDs) under stop-at conditions; the package-level traversal.WalkAdv/WalkMatching on link-free graphs; the selector spec builder, JSON selector helpers and pre-parsed common selectors against the specification tree. The interpret-as clause is covered where a clause hands it to a node directly (two reifiers registered in the link system, the same functions in the reference); its meaning as a union member or recursion body is written down nowhere and is not generated."),
 "C14": dict(
   category="model_checking", design_ref="DESIGN.md §5 C14",
   technique="exhaustive enumeration of graphs × every visit of every walk, every node position, every path ≤3 segments over a 10-segment alphabet, every segment string ≤3 bytes; Get/Focus/stepwise lookup on the real code vs a reference resolver",
   text="For every visit of every enumerated walk (and WalkLocal) the reported path, as reported and re-parsed, must resolve through Get, Focus and segment-by-segment lookup (loading links) to the visited node; every position's own path resolves in string, int and parsed form; every short path succeeds exactly when the reference resolver finds it; String/ParsePath round-trips every clean segment sequence.",
   note="Trusted: reference resolver trav.Resolve. Non-canonical numerals on lists are unspecified (agreement only). Also: comb graphs to depth 6/18 whose visit paths are resolved after the walk; every program of Path operations to depth 4/5 (append-only 6/8) with every live path re-checked after every step; typed nodes (reflection binding, both views) as walk roots. Also: escape-looking segments and keys (~0 ~1 %2F backslash . .. ? #); package-level traversal.Get/Focus on link-free graphs. Selector walks are repeated with LinkVisitOnlyOnce on graphs with two or more links. Typed walks must visit exactly the positions the schema names (map entries by the key's representation string)."),
 "C15": dict(
   category="model_checking", design_ref="DESIGN.md §5 C15",
   technique="exhaustive enumeration of every setting of each traversal control (node budget 0..|U|+1, link budget 0..|L|+1, start-at every visited path, visit-once, every skip set ≤2/3) for every (graph, selector) pair, compared with the prefix/suffix/subsequence of the unrestricted real walk",
   text="Each control is applied alone on the real walk; visits, loads and the error must be exactly the prefix (budgets), tail (start-at), or subsequence (once/skip) of the unrestricted sequence computed for the same pair, including which blocks may be loaded.",
   note="Uses the reference denotation only to attribute visits to blocks, and only where the real unrestricted walk equals it. Preloader interaction is excluded as the property states. Budgets, visit-once and skip sets are also applied to the transforming walk (identity function; pairs with a failing load or a callback order different from the visit order are left out and counted). Visit-once together with a start path is checked only by what each clause says on its own."),
 "C16": dict(
   category="model_checking", design_ref="DESIGN.md §5 C16",
   technique="exhaustive enumeration of graphs × target paths ≤2/3 segments × replacements × createParents, selector-driven transforms for every selector ≤3 clauses × 3 transform functions, and all 2-step transform sequences, against a functional-update reference with hand-hashed re-linking",
   text="Every focused transform in the bound must equal the reference functional update (content, order, links recomputed by hand), leave the input node and blocks unchanged, call the callback once with the node at the target, fail exactly where the target is unreachable; walking transforms must replace exactly the matched nodes and re-link across links; chained transforms never disturb earlier results.",
   note="Trusted: reference update in mc/props/c16, reference DAG-CBOR encoder + crypto/sha256 for new links. Root replacement is limited to what the root's prototype accepts; root removal and non-canonical indices are unspecified; a tree consisting of the null singleton alone is not a root (its prototype cannot build). Each compiled selector is used twice per case. Also: integer-form segments for canonical numerals on every focused path; maps whose keys are equal as numerals (1|01|+1|001). Typed positions also come from the schema's own account (map entries by the key's representation string)."),
 "C01": dict(
   category="model_checking", design_ref="DESIGN.md §5 C01",
   technique="bounded-exhaustive enumeration of values × builder programs by deviation bound (default route, every single and every pair of route deviations, Reset-reuse) executed on the real builders, read back by a complete observer; all-pairs DeepEqual/Copy agreement across implementations",
   text="Every value of the bounded universe is assembled through every program within deviation bound 2 (entry shortcut vs key/value assembly with string or node keys, scalar assign vs AssignNode of basic/kind-specific/foreign nodes, size hints -1/0/exact+2, fresh vs Reset-reused builder); the result must read back as exactly that value with all access forms agreeing and wrong-kind accessors erroring; DeepEqual and Copy must agree with abstract equality on all pairs of a 200+-value set across implementation pairs.",
   note="Generic implementations (basicnode Any/kind prototypes, foreign refnode as source), plus every single route deviation (incl. AssignNode of a sub-node of an earlier instance of the same engine) on bindnode builders of the quick schema families at both levels and, through a worker of the typed binary (built from the working tree's generator, as for C08), the same deviations and builder-reuse histories on generated code; the views of typed nodes against the schema semantics are C08. Known findings: a bindnode prototype bound to the type Any itself returns an unreadable node (6 signatures); two generator defects shared with C08. uint64>MaxInt64 is outside DeepEqual/Copy."),
 "C11": dict(
   category="model_checking", design_ref="DESIGN.md §5 C11", engine="bfs",
   technique="exhaustive enumeration of post-build operation sequences (depth 2/3 over 17 operations) on nodes from ~100 producer classes, with a complete-snapshot invariant re-evaluated twice after every step on every node sharing structure",
   text="For every producer (builder route classes, decoders, loads, reader-backed bytes, subset matches, transform results) every operation sequence in the bound is executed; after each step every tracked node must read (all accessors, twice) exactly as in the snapshot taken when it was made.",
   note="Trusted: the observer mc/ref/observe.go. Typed producers (bindnode nodes of one type per strategy from the type-level builder, the representation builder and the decoder; the checked-in generated package) are tracked through both views. The observer reads every value an iterator hands out both when Next returns it and after the iterator moved on. Writes by the caller into handed-back slices are excluded as the property states."),
 "C12": dict(
   category="model_checking", design_ref="DESIGN.md §5 C12", engine="bfs",
   technique="explicit-state breadth-first search over assembler call sequences (≤10/14 calls, nesting ≤2/3) with the contract's state machine as reference model; every transition replayed on a fresh real builder; repeated-key and wrong-kind rejections injected at every position through all three key routes",
   text="All legal call sequences within the bound are explored; each call must succeed, each injected repeated key must return ErrRepeatedMapKey from the call that supplied it and leave the assembler usable (all continuations explored, sticky rejection flag in the state), wrong kinds must error, and Build must equal the model value.",
   note="Reference model = contract state machine in mc/props/c12. Engines: basicnode Any/Map/List, and bindnode + generated code (map-shaped assemblers of every family root at both levels; values of any field/value type — the richest member of V(T) — given by Assign, by AssignNode of another implementation and of the own type; the same search on the assembler of the second element of a list or map after a complete first element; types with more than 4 keys in the thorough tier only). States are merged by the model; one pass per key route chooses the representing path of each state, merged-away paths are completed and their product compared (DESIGN.md §7 items 16, 23): mixed-route pasts within one state are represented by those probes only. Misuse orders are not generated."),
 "C17": dict(
   category="model_checking", design_ref="DESIGN.md §5 C17", engine="bfs",
   technique="explicit-state search over put/get histories on the real stores (state = keys stored [+ last operation], to fixpoint) for pairs of adversarial keys against a Go map, with every filesystem path of fsstore logged through an import-rewritten os shim and checked for containment",
   text="Every pair of adversarial keys is forced through each store; after every step of every explored history both keys and a never-put key are audited against the map model (Has/Get/GetStream/Peek, through methods and storage.* fallbacks), caller and returned buffers are mutated, and for fsstore every path of every filesystem call must lie under the base directory with sibling files untouched.",
   note="fsstore is built from the working tree with its os/crypto-rand imports rewritten to shims by `go build -overlay`; /repo is not modified. One content per key; Has may answer with an error for a name the filesystem cannot hold. cidlink.Memory is exercised through link systems in C05. Put-vec with one, two and three segments (an empty one in the middle)."),
 "C18": dict(
   category="fault_enumeration", design_ref="DESIGN.md §5 C18", engine="fault",
   technique="exhaustive crash-point and single/double fault enumeration over every filesystem call of 10–14 write histories on the real fsstore (process death before/after each call, torn writes, six errno answers), recovery by a new process, plus stateless exploration of all interleavings of 2–3 threads at filesystem-call granularity up to a preemption bound under a cooperative scheduler",
   text="For every history and every point the writer is killed or a call fails; a fresh store on the same directory must then find every key absent or complete, acknowledged writes present, no partial file outside the staging directory, and must accept new puts. Concurrent writer/writer, writer/reader and writer/Has harnesses are explored over every schedule within the preemption bound, with a raw-os observer evaluating the invariant after every step.",
   note="Power loss (unsynced page cache) is not modelled. Scheduling points are the filesystem calls (the code has no other synchronisation); the same thread bodies also run free in a -race build with no controller between the store and the os package (happens-before detector, 20/200 repetitions per harness) with a final audit. Histories include the storage.Put/PutStream/PutVec helpers; the fault alphabet includes cancelling the writer's context before any one call. EEXIST from rename is injected only when the destination exists. Histories also go through LinkSystem.Store with the store as write storage, incl. an encode that fails midway before a good store."),
 "C08": dict(
   category="model_checking", design_ref="DESIGN.md §3, §5 C08",
   technique="bounded-exhaustive enumeration of schema families (every representation strategy × optional/nullable mode vectors × renames; thorough: every outer×inner strategy pair) × typed value spaces × four construction routes × engines (bindnode with inferred Go types; code generated afresh by the working tree's generator and compiled into the check), both views read completely and compared with reference schema semantics",
   text="For every root type and every value of V(T), each engine builds the value through the type-level builder, the representation builder and dag-cbor/dag-json decoding through the representation prototype; the type-level view, the representation view (all access forms), the encoded bytes and DeepEqual between routes must equal the reference semantics of the strategy.",
   note="Trusted: reference schema semantics mc/rs (written from the specification's statement of each strategy). Undefined corners (tuple absent-then-present, delimiter inside stringjoin fields, null for Any, supplying a struct key to a type-level map builder) are outside the space. Also per value: every single route deviation at both levels; DeepEqual/Copy of both views against generic nodes of the same value. User-declared Go types are exercised in C19."),
 "C09": dict(
   category="model_checking", design_ref="DESIGN.md §5 C09",
   technique="exhaustive single-mutation closure: every conforming tree of every typed value at both levels and every local mutation of it at every position, fed through three routes (entry, key/value, relaxed dag-cbor so duplicate keys reach the assembler) into both engines; verdicts compared with reference acceptance relations",
   text="accepted ⇔ the reference accepts; every rejection is an error from an assembler call or finish (never a panic, never a silently built violating node); an accepted input reads back as the reference's typed value.",
   note="Trusted: mc/rs AcceptType/AcceptRepr. Inputs differing from a conforming tree by more than one local mutation are not enumerated. Recorded defects: known_findings.json. Inputs are also fed as DAG-JSON text (reported under the decoder route) wherever the text format can carry them. Mutants include near keys (other case, a byte appended, the last byte dropped)."),
 "C13": dict(
   category="model_checking", design_ref="DESIGN.md §5 C13",
   technique="programs: schema families generated by gengo.Generate from the working tree and compiled (failure = violation); inputs: the C09 mutation closure; lock-step differential execution of bindnode and generated code",
   text="Every family in the generator's feature set must generate and compile; on every input of the C09 space bindnode and the generated code must agree on accept/reject, on both views and on the dag-cbor bytes, and neither may panic.",
   note="Pure differential oracle (shared mistakes are C08/C09's business). Enum, Any and listpairs are outside the generator's feature set. Inputs are also fed as DAG-JSON text wherever the format can carry them; an inconsistency among one engine's own reads that the other engine does not show is reported too."),
 "C19": dict(
   category="model_checking", design_ref="DESIGN.md §5 C19",
   technique="enumeration of a declared Go-type vocabulary × boundary values (wrap view, build+unwrap, marshal/unmarshal ×2 codecs, every out-of-width integer) plus exhaustive enumeration of binding-call histories (depth 2/3 over 15 calls), each history executed in its own subprocess and compared call-by-call with first-call results",
   text="For every declared Go type and boundary value the wrapped node must read as an independently written view of the Go value, rebuilding and unwrapping must reproduce it, and codec round trips into a fresh value must reproduce it; every integer that does not fit its Go field must be an error; every history of Wrap/Prototype/Marshal/Unmarshal calls with explicit, inferred and Go-only arguments must succeed with the results the same call gives in a fresh process.",
   note="Views are hand-written per Go type (no reflection shared with bindnode). dag-json skips values with integral floats (C04 finding). Inference histories use struct/list/scalar types only (what inferSchema supports). Every vocabulary value is also assigned, as the wrapped node, to a fresh builder of the same types at both levels and unwrapped."),
 "C20": dict(
   category="model_checking", design_ref="DESIGN.md §5 C20", engine="sched",
   technique="stateless exploration of all interleavings (preemption bound 2/3) of every unordered pair of 33 operations on shared objects under a cooperative scheduler, with scheduling points inserted by overlay rewriting at every accessor of shared mutable state and at every sync operation (sync shim with modelled lock waits); plus exhaustive write-footprint analysis of each operation (deep fingerprints of shared objects and package-level state), a footprint sweep over every selector of ≤5/6 clauses used for walks and transforms, a footprint sweep over every family root type × values (reflection binding) and generic nodes read nine ways, and a separate free-running -race pass over all pairs",
   text="(a) every schedule within the bound of every operation pair: each goroutine's result equals its result alone, no panic, no deadlock; (b) no operation on shared objects, run alone, changes any shared object or package-level mutable state unless it synchronises; (c) the race detector reports nothing on any pair with 2 and 8 goroutines.",
   note="Interleavings are explored at hook granularity (accessors of TypeSystem, Registry, Config/Progress init, lazy store initialisers, inferSchema, sync operations), not at every memory access; (b) sees persistent writes only; (c) is a free-running happens-before detector, used as the brief prescribes for unsynchronised accesses. Memory-model effects are not modelled. Known finding: reader-backed bytes nodes. The shared read-only store also holds a block that fails its hash check; raw loads of intact blocks beside and after a mismatching load are operations of the alphabet. Path values shared by walks (built by appending, obtained by Pop) are among the shared objects."),
 "C10": dict(
   category="model_checking", design_ref="DESIGN.md §5 C10",
   technique="exhaustive enumeration of short inputs over structural alphabets for every decoder under a lattice of configurations (depth limit × allocation budget × strict/relaxed × prealloc cap × links × stream mode × target prototype), depth bombs through a depth-observing assembler proxy, systematic hostile claimed lengths in an address-space-limited single-goroutine worker with allocation accounting, exhaustive small selector-spec trees compiled and walked, and every short path string",
   text="Every input of the bounded spaces must yield a result or an error without panicking, within the watchdog and the address-space limit; observed nesting never exceeds MaxDepth and the limit is exact; TotalAlloc stays below 512·(budget+len)+256 KiB whatever length a head claims; every selector that compiles is walked to completion over every small graph; path parsing never panics.",
   note="Typed decode targets: the reflection binding's type-level and representation-level builders of every family root type, fed C09's input trees (conforming and every local mutation) and every proper prefix of the conforming encodings through all four structured decoders; the generated builders get the same inputs in a worker of the typed binary (built from the working tree's generator). The allocation bound constants are generous (observed worst ratio ≈ 0.02): they catch claimed-length-driven allocation, not small constant-factor changes."),
}

NOT_YET = "check not built yet in this round (planned in DESIGN.md §5; will be claimed when its explorer exists)"

def main():
    checks, na = [], []
    for pid in ALL:
        c = CHECKS.get(pid)
        if not c:
            na.append({"property_id": pid, "reason": NOT_YET})
            continue
        checks.append({
            "property_id": pid,
            "quick_cmd": f"./check {pid} quick",
            "thorough_cmd": f"./check {pid} thorough",
            "evidence_file": f"/verif/evidence/{pid}.json",
            "replay_cmd_template": f"./check {pid} --replay {{path}}",
            "engine": c.get("engine", "enum"),
            "level_claimed": {"category": c["category"], "text": c["text"], "design_ref": c["design_ref"]},
            "level_note": c["note"],
            "technique": c["technique"],
        })
    m = {
        "version": 1,
        "setup_cmd": "./setup.sh",
        "hooks": {
            "guard": "verif",
            "enable": "no source hooks: instrumentation is applied at check time with `go build -overlay` (mc/cmd/rewrite rewrites the imports of the working tree's own fsstore sources to the shims in mc/shims); nothing in /repo is guarded by the tag",
            "baseline_off_cmd": "/verif/baseline_off.sh",
            "source_commits": [],
            "add_only": True,
        },
        "engines": [
            {"name": "enum", "path": "mc/core", "serves_properties": sorted(k for k,v in CHECKS.items() if v.get("engine","enum")=="enum"), "kind_free_text": "odometer / trie enumeration of bounded input and program spaces executed on the real code, sharded over 16 cores"},
            {"name": "bfs", "path": "mc/props/c12", "serves_properties": sorted(k for k,v in CHECKS.items() if v.get("engine")=="bfs"), "kind_free_text": "explicit-state search whose transitions call the real code; successor = replay of the shortest path on a fresh real object + 1 call; canonical key from the reference model"},
            {"name": "sched", "path": "mc/core/sched.go", "serves_properties": ["C18", "C20"], "kind_free_text": "cooperative scheduler (one runnable goroutine at a time, hand-off at shim points) with depth-first enumeration of choice prefixes under iterative preemption bounding; schedules are replayable choice lists"},
            {"name": "vos/vrand overlay shims", "path": "mc/shims", "serves_properties": ["C17", "C18", "C20"], "kind_free_text": "(vsched/vsync for C20: scheduling points at shared-state accessors, scheduler-aware sync) os and crypto/rand surfaces forwarded to the real ones after consulting a per-execution controller (log, yield, inject, crash); compiled into fsstore by go build -overlay from the working tree's own sources"},
            {"name": "fault", "path": "mc/lsx", "serves_properties": sorted(k for k,v in CHECKS.items() if v.get("engine")=="fault"), "kind_free_text": "environment-answer enumerator: scripted storage reader/writer faults at every interaction of a recorded run"},
        ],
        "checks": checks,
        "not_applicable": na,
        "notes": "All checks are ./check <ID> <tier>; each rebuilds the harness module mc/ against /repo's working tree (replace directive) before running. known_findings.json lists recorded defects; replays/ holds violation witnesses.",
    }
    json.dump(m, open(os.path.join(HERE, "MANIFEST.json"), "w"), indent=1, ensure_ascii=False)
    print("claimed:", [c["property_id"] for c in checks])

if __name__ == "__main__":
    main()
