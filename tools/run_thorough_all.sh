#!/bin/bash
# Runs every thorough check in turn; keeps a copy of each evidence file under evidence_runs/thorough/.
cd "$(dirname "$0")/.."
mkdir -p evidence_runs/thorough /dev/shm/thorough
for id in ${@:-C01 C02 C03 C04 C05 C06 C07 C08 C09 C10 C11 C12 C13 C14 C15 C16 C17 C18 C19 C20}; do
  s=$(date +%s)
  timeout 5400 ./check $id thorough > /dev/shm/thorough/$id.log 2>&1; code=$?
  e=$(date +%s)
  cp evidence/$id.json evidence_runs/thorough/$id.json 2>/dev/null
  echo "$id exit=$code wall=$((e-s))s $(grep -ac '^VIOLATION' /dev/shm/thorough/$id.log) violations; $(tail -1 /dev/shm/thorough/$id.log | cut -c1-200)"
done
