#!/bin/bash
# Runs every stored seeded defect against the checks its meta.json names. Prints DETECTED/MISSED lines.
cd "$(dirname "$0")/.."
rc=0
for d in seeded/*/; do
  n=$(basename "$d")
  [ -f "$d/patch.diff" ] || continue
  timeout 3000 tools/run_seeded.sh "$n" 2>&1 | grep -a "^DETECTED\|^MISSED\|not clean\|does not apply" | cut -c1-260 || true
done
