#!/bin/bash
# Confirms a sub-agent's seeded defect in its scratch worktree:
#   verify_seed.sh <worktree> <seed-dir> <demo-destination-relative-to-worktree> <go test package> <run regexp>
# (a) patch.diff is what is applied, (b) builds, (c) existing suite passes except the two known
# packages, (d) demo fails with the change, (e) demo passes without it.
set -u
WT="$1"; SD="$2"; DEST="$3"; PKG="$4"; RUN="$5"
export GOFLAGS=-mod=mod GOPROXY=off
cd "$WT" || exit 2
rm -f "$DEST"
git stash -q 2>/dev/null; git checkout -q -- . ; git stash drop -q 2>/dev/null
git apply "$SD/patch.diff" || { echo "VERIFY: patch does not apply"; exit 1; }
go build ./... || { echo "VERIFY: build fails"; exit 1; }
FAILS=$(go test -vet=off -count=1 ./... 2>&1 | grep -a "^FAIL\|^---" | grep -av "schema/dmt\|schema/dsl\|TestRoundtripSchemaSchema\|TestParse\|^FAIL$" | head -5)
rm -rf /tmp/test-go-ipld-prime-gengo
if [ -n "$FAILS" ]; then echo "VERIFY: existing suite fails with the change: $FAILS"; exit 1; fi
cp "$SD/$(basename "$DEST")" "$DEST" 2>/dev/null || cp "$SD/demo_test.go" "$DEST"
if go test -vet=off -count=1 -run "$RUN" "$PKG" >/tmp/verify_seed.out 2>&1; then echo "VERIFY: demo PASSES with the change (should fail)"; rm -f "$DEST"; exit 1; fi
git apply -R "$SD/patch.diff"
if ! go test -vet=off -count=1 -run "$RUN" "$PKG" >/tmp/verify_seed.out2 2>&1; then echo "VERIFY: demo FAILS without the change: $(tail -5 /tmp/verify_seed.out2)"; rm -f "$DEST"; exit 1; fi
rm -f "$DEST" /tmp/verify_seed.out /tmp/verify_seed.out2
echo "VERIFY: confirmed (builds, suite passes, demo fails with / passes without the change)"
