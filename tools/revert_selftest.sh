#!/bin/bash
# For every "fixed" entry of known_findings.json: revert that fix commit in /repo's working tree
# (not committed), run the property's quick check, expect a VIOLATION, and restore the tree.
# Demonstrates that each check detects the real defect it was built against.
set -u
cd "$(dirname "$0")/.."
if [ -n "$(git -C /repo status --porcelain)" ]; then echo "/repo working tree is not clean"; exit 2; fi
SAVE=$(mktemp -d); cp -r evidence "$SAVE/evidence"; cp -r replays "$SAVE/replays" 2>/dev/null
python3 - <<'PY' > "$SAVE/list"
import json
seen=set()
for k in json.load(open('known_findings.json')):
    if k['status']=='fixed' and k.get('commit'):
        key=(k['property'],k['commit'])
        if key not in seen:
            seen.add(key); print(k['property'],k['commit'])
PY
RC=0
while read -r prop commit; do
  [ -n "${ONLY:-}" ] && [ "$ONLY" != "$prop" ] && continue
  if ! git -C /repo revert -n "$commit" >/dev/null 2>&1; then
    git -C /repo revert --abort >/dev/null 2>&1; git -C /repo checkout -- . ; git -C /repo reset -q --hard HEAD
    echo "SKIPPED   $prop $commit (does not revert cleanly on top of later fixes)"; continue
  fi
  out=$(timeout 900 ./check "$prop" quick 2>&1); code=$?
  if [ $code -eq 1 ] && echo "$out" | grep -aq "^VIOLATION property=$prop "; then
    echo "DETECTED  $prop revert-of-$commit: $(echo "$out" | grep -a 'sig=' | head -1 | cut -c1-160)"
  else
    echo "MISSED    $prop revert-of-$commit (exit $code)"; RC=1
  fi
  git -C /repo reset -q --hard HEAD
done < "$SAVE/list"
rm -rf evidence replays; cp -r "$SAVE/evidence" evidence; [ -d "$SAVE/replays" ] && cp -r "$SAVE/replays" replays; rm -rf "$SAVE"
exit $RC
