#!/usr/bin/env python3
"""Regenerates the machine-derived sections of DESIGN.md (between <!-- BEGIN:x --> / <!-- END:x -->)
from evidence/*.json, evidence_runs/thorough/*.json, known_findings.json and seeded/*/meta.json."""
import json, glob, os, re, subprocess
V = os.path.dirname(os.path.dirname(os.path.abspath(__file__)))
os.chdir(V)

def cov(path):
    try:
        e = json.load(open(path))
    except Exception:
        return None
    c = e.get("coverage", {})
    return e, c

def fmt(n):
    try:
        n = int(n)
    except Exception:
        return str(n)
    if n >= 10**6:
        return "%.1fM" % (n / 1e6)
    if n >= 10**4:
        return "%dk" % (n // 1000)
    return str(n)

def runs_table():
    rows = ["| id | tier | states | transitions (real calls) | executions | distinct non-trivial | outcomes | exhaustive | wall |", "|---|---|---|---|---|---|---|---|---|"]
    for i in range(1, 21):
        pid = "C%02d" % i
        for tier, path in (("quick", "evidence/%s.json" % pid), ("thorough", "evidence_runs/thorough/%s.json" % pid)):
            r = cov(path)
            if not r:
                continue
            e, c = r
            if e.get("tier", tier) != tier and tier == "quick":
                pass
            rows.append("| %s | %s | %s | %s | %s | %s | %s | %s | %s s |" % (pid, e.get("tier", tier), fmt(c.get("states", "")), fmt(c.get("transitions", "")), fmt(c.get("traces_validated_against_impl", "")), fmt(c.get("distinct_nontrivial", "")), c.get("distinct_outcomes", ""), c.get("exhaustive", ""), ("%.1f" % float(str(e.get("wall_s", "0")).rstrip("s")) if str(e.get("wall_s","")).rstrip("s").replace(".","",1).isdigit() else e.get("wall_s","?"))))
    return "\n".join(rows)

def rules():
    out = []
    for i in range(1, 21):
        pid = "C%02d" % i
        r = cov("evidence/%s.json" % pid)
        if not r:
            continue
        e, c = r
        out.append("**%s** (%s tier as last run): %s" % (pid, e.get("tier", "quick"), c.get("rule", "")))
        for a in e.get("assumptions", []):
            out.append("  - assumption: " + a)
        out.append("")
    return "\n".join(out)

def findings():
    k = json.load(open("known_findings.json"))
    out = ["#### Repaired (`fix:` commits in /repo; a fixed entry suppresses nothing)", "", "| property | commit | what failed | signature the check reports if it returns |", "|---|---|---|---|"]
    for e in k:
        if e["status"] == "fixed":
            what = re.sub(r"^fixed: property=\S+ \S+ ", "", e["what"])
            out.append("| %s | %s | %s | `%s` |" % (e["property"], e.get("commit", ""), what.replace("|", "\\|"), e["sig"].replace("|", "\\|")))
    out += ["", "#### Recorded, not repaired (known findings; each signature prints one KNOWN-FINDING line and nothing else is suppressed)", "", "| property | signature | what fails and why it is not a small repair |", "|---|---|---|"]
    for e in k:
        if e["status"] == "known":
            out.append("| %s | `%s` | %s |" % (e["property"], e["sig"].replace("|", "\\|"), e["what"].replace("|", "\\|")))
    return "\n".join(out)

def seeded():
    out = ["| seeded change | property | needs, to manifest | first run | caught by (quick tier) | what was strengthened |", "|---|---|---|---|---|---|"]
    for d in sorted(glob.glob("seeded/*/")):
        m = json.load(open(d + "meta.json"))
        out.append("| `%s` | %s | %s | %s | %s | %s |" % (os.path.basename(d[:-1]), m["property"], m.get("needs_to_manifest", "").replace("|", "\\|"), m.get("first_run", ""), ", ".join(m.get("detected_by", [])), m.get("strengthening", "") or "—"))
    return "\n".join(out)

gen = {"runs": runs_table, "rules": rules, "findings": findings, "seeded": seeded}
s = open("DESIGN.md").read()
for name, fn in gen.items():
    pat = re.compile(r"(<!-- BEGIN:%s -->\n).*?(<!-- END:%s -->)" % (name, name), re.S)
    if not pat.search(s):
        print("marker missing:", name)
        continue
    s = pat.sub(lambda m: m.group(1) + fn() + "\n" + m.group(2), s)
open("DESIGN.md", "w").write(s)
print("DESIGN.md tables regenerated")
