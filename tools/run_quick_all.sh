#!/bin/bash
# Runs every quick check in turn on the current tree; prints one line per check.
cd "$(dirname "$0")/.."
rc=0
for id in ${@:-C01 C02 C03 C04 C05 C06 C07 C08 C09 C10 C11 C12 C13 C14 C15 C16 C17 C18 C19 C20}; do
  out=$(timeout 1800 ./check $id quick 2>&1); code=$?
  echo "$id exit=$code $(echo "$out" | grep -ac '^VIOLATION') violations; $(echo "$out" | tail -1 | cut -c1-160)"
  [ $code -ne 0 ] && { rc=1; echo "$out" | grep -a "sig=" | head -5 | cut -c1-300; }
done
exit $rc
