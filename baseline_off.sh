#!/bin/bash
# Runs the repository's test suite exactly as BASELINE.json does (no build tags = guard off) and
# compares the passing set with BASELINE.json's stable_pass list. Exit 0 iff none of them is lost.
set -u
export GOFLAGS=-mod=mod GOPROXY=off
OUT=$(mktemp -d)
for m in . ./storage/bsadapter ./storage/bsrvadapter ./storage/dsadapter; do
  (cd /repo/$m && go test -mod=mod -json -vet=off -count=1 -timeout 25m ./... ) >> $OUT/run.json 2>/dev/null
done
python3 - "$OUT/run.json" <<'PY'
import json,sys
passed,failed=set(),set()
for line in open(sys.argv[1],errors='replace'):
    line=line.strip()
    if not line.startswith('{'): continue
    try: ev=json.loads(line)
    except Exception: continue
    a,pkg,t=ev.get('Action'),ev.get('Package',''),ev.get('Test')
    if t is None or a not in('pass','fail'): continue
    (passed if a=='pass' else failed).add(pkg+'::'+t)
passed-=failed
base=set(json.load(open('/root/.vp/BASELINE.json'))['stable_pass'])
lost=sorted(base-passed)
print(f"baseline stable={len(base)} passed_now={len(passed)} failed_now={len(failed)} lost={len(lost)}")
for l in lost[:40]: print("LOST",l)
sys.exit(1 if lost else 0)
PY
rc=$?
rm -rf $OUT /tmp/test-go-ipld-prime-gengo
exit $rc
