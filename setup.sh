#!/bin/bash
# Offline setup: warm the Go build cache for the harness (normal and -race builds).
set -u
cd "$(dirname "$0")"
export GOFLAGS=-mod=mod GOPROXY=off
mkdir -p .work/bin evidence replays
cp /repo/go.sum mc/go.sum
(cd mc && go build -o ../.work/bin/mc ./cmd/mc) || exit 1
mkdir -p .work/overlay
(cd mc && go run ./cmd/rewrite -repo /repo -out "$PWD/../.work/overlay" -shims "$PWD/shims" >/dev/null && go build -overlay="$PWD/../.work/overlay/overlay.json" -o ../.work/bin/mcfs ./cmd/mcfs && go build -race -overlay="$PWD/../.work/overlay/overlay.json" -o ../.work/bin/mcrace ./cmd/mcfs) || exit 1
tools/build_typed.sh quick >/dev/null 2>&1 || { echo "typed build failed" >&2; exit 1; }
echo setup ok
